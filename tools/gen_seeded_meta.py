"""seeded/<id>/meta.json from notes.md (written by the author of the change), result.txt (tools/mutant_matrix.sh) and the
verification log of tools/verify_seeded.sh (a jsonl file given as argv[1]); also prints the DESIGN.md table."""
import json, os, re, sys
V = os.path.dirname(os.path.dirname(os.path.abspath(__file__)))
ver = {}
if len(sys.argv) > 1 and os.path.exists(sys.argv[1]):
    for l in open(sys.argv[1]):
        l = l.strip()
        if l:
            try:
                d = json.loads(l)
                ver[d['id']] = d
            except Exception:
                pass
rows = []
for m in sorted(os.listdir(os.path.join(V, 'seeded'))):
    d = os.path.join(V, 'seeded', m)
    if not os.path.exists(os.path.join(d, 'patch.diff')):
        continue
    notes = open(os.path.join(d, 'notes.md')).read()
    title = notes.strip().split('\n')[0].lstrip('# ').strip()

    def section(*names):
        for n in names:
            mm = re.search(r'^## %s[^\n]*\n(.*?)(?=^## |\Z)' % n, notes, re.S | re.M)
            if mm:
                return mm.group(1).strip()
        return ''
    files = sorted(set(re.findall(r'^\+\+\+ b/(\S+)', open(os.path.join(d, 'patch.diff')).read(), re.M)))
    results = []
    rp = os.path.join(d, 'result.txt')
    if os.path.exists(rp):
        for l in open(rp):
            mm = re.match(r'(C\d\d) exit=(\d+) violation_lines=(\d+) replayed=(\d+) (.*)', l.strip())
            if mm:
                results.append({'check': mm.group(1), 'exit': int(mm.group(2)), 'violation_lines': int(mm.group(3)),
                                'natively_replayed': int(mm.group(4)), 'summary': mm.group(5)})
    meta = {
        'id': m, 'property': m[:3], 'title': title, 'files_changed': files,
        'change': section('Change')[:1500],
        'clause_broken': section('Clause broken', 'Which clause breaks', 'Clause of')[:1200],
        'needs_to_manifest': section('What is needed for it to manifest', 'What is needed to see it', 'What is needed to manifest')[:1500],
        'why_tests_miss_it': section('Why the existing tests do not notice')[:1000],
        'what_was_run': {
            'by_the_author': section('Commands and results')[:1500],
            'reverified_on_current_head': ver.get(m),
            'how': 'tools/verify_seeded.sh %s (scratch worktree: demo on the clean tree, demo with the change, the test suite '
                   'with the change); tools/mutant_matrix.sh %s (checks against the changed scratch copy)' % (m, m),
        },
        'status_note': open(os.path.join(d, 'status.txt')).read().strip() if os.path.exists(os.path.join(d, 'status.txt')) else None,
        'checks_run': results,
        'caught_by': [r['check'] for r in results if r['exit'] == 1],
        'apply': 'git -C /repo apply /verif/seeded/%s/patch.diff   # undo: git -C /repo checkout -- .' % m,
    }
    json.dump(meta, open(os.path.join(d, 'meta.json'), 'w'), indent=1)
    rows.append(meta)
print('| change | property | what it does | caught by (exit 1) | natively replayed | other checks run |')
print('|---|---|---|---|---|---|')
for r in rows:
    own = [x for x in r['checks_run'] if x['check'] == r['property']]
    caught = ', '.join(r['caught_by']) or '—'
    rep = ', '.join('%s %d/%d' % (x['check'], x['natively_replayed'], x['violation_lines']) for x in r['checks_run'] if x['exit'] == 1)
    others = ', '.join('%s: exit %d' % (x['check'], x['exit']) for x in r['checks_run'] if x['exit'] != 1) or ''
    print('| %s | %s | %s | %s | %s | %s |' % (r['id'], r['property'], r['title'][:110].replace('|', '/'), caught, rep, others))
