#!/usr/bin/env python3
"""regenerates MANIFEST.json from the table below (one entry per claimed property; the rest -> not_applicable)"""
import json, os
HERE = os.path.dirname(os.path.dirname(os.path.abspath(__file__)))
ALL = ['C%02d' % i for i in range(1, 21)]
CLAIMED = json.load(open(os.path.join(HERE, 'tools', 'claimed.json')))
NA_DEFAULT = 'check not built yet (build in progress); planned level in DESIGN.md section 7'
checks = []
for pid in ALL:
    c = CLAIMED.get(pid)
    if not c or c.get('not_applicable'):
        continue
    checks.append({
        'property_id': pid,
        'quick_cmd': './bin/check %s --tier quick' % pid,
        'thorough_cmd': './bin/check %s --tier thorough' % pid,
        'evidence_file': 'evidence/%s.json' % pid,
        'replay_cmd_template': './bin/check %s --replay {path}' % pid,
        'engine': 'pyvc',
        'level_claimed': {'category': c['category'], 'text': c['text'], 'design_ref': c.get('design_ref', 'DESIGN.md section 7 ' + pid)},
        'level_note': c['note'],
        'technique': c['technique'],
    })
na = [{'property_id': p, 'reason': (CLAIMED.get(p) or {}).get('not_applicable', NA_DEFAULT)} for p in ALL
      if not CLAIMED.get(p) or CLAIMED[p].get('not_applicable')]
m = {
    'version': 1,
    'setup_cmd': './setup.sh',
    'hooks': {
        'guard': 'COPULAS_VERIF',
        'enable': 'no hooks: contracts are sidecar files under /verif/contracts keyed by qualified name; the real source under /repo/copulas is re-parsed and symbolically executed on every run (the guard variable is reserved and unused)',
        'baseline_off_cmd': 'cd /repo && /venv/bin/python -m pytest -ra -q -p no:cacheprovider --timeout=900 --continue-on-collection-errors',
        'source_commits': [],
        'add_only': True,
    },
    'engines': [{'name': 'pyvc', 'path': 'pyvc/', 'serves_properties': [c['property_id'] for c in checks],
                 'kind_free_text': 'self-built deductive verifier: AST symbolic executor over the real /repo source (generic-lane encoding of numpy code, loop invariants, modular callee summaries, assumed contracts on numpy/scipy/pandas), obligations discharged by z3 + cvc5 (ground-instantiated exp/log/pow axioms), sympy (identities), mpmath.iv branch-and-bound; counterexamples replayed natively'}],
    'checks': checks,
    'notes': 'Exit codes of ./bin/check: 0 all obligations discharged (known findings printed as KNOWN-FINDING lines), 1 violation (VIOLATION line), 2 undecided (never a violation), 3 engine failure. See DESIGN.md.',
    'not_applicable': na,
}
json.dump(m, open(os.path.join(HERE, 'MANIFEST.json'), 'w'), indent=1)
print('claimed:', [c['property_id'] for c in checks])
