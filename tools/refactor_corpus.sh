#!/bin/sh
# tools/refactor_corpus.sh - semantics-preserving edits of /repo on a scratch worktree: no check may report a violation
cd "$(dirname "$0")/.."
WT=$(mktemp -d /tmp/rfwt.XXXXXX); OUT=$(mktemp -d /tmp/rfout.XXXXXX)
git -C /repo worktree add --detach "$WT/repo" HEAD >/dev/null 2>&1
trap 'git -C /repo worktree remove --force "$WT/repo" >/dev/null 2>&1; rm -rf "$WT" "$OUT"' EXIT
run() { name=$1; file=$2; expr=$3; shift 3
  git -C "$WT/repo" checkout -q -- .
  sed -i "$expr" "$WT/repo/$file"
  if git -C "$WT/repo" diff --quiet; then echo "$name: sed did not change anything"; return; fi
  (cd $WT/repo && /venv/bin/python -c "import copulas" ) || { echo "$name: does not import"; return; }
  for C in "$@"; do
    COPULAS_REPO="$WT/repo" VERIF_OUT="$OUT" ./bin/check $C > "$OUT/log" 2>&1; code=$?
    echo "$name vs $C: exit $code  $(tail -1 $OUT/log | cut -c1-130)"
  done
}
run r1_rename_bisect copulas/optimize/__init__.py 's/\bfguess\b/f_mid/g; s/\bguess\b/mid/g' C18 C20
run r2_commute_sets copulas/multivariate/tree.py 's/depend_set = A & B/depend_set = B \& A/; s/left, right = sorted(A ^ B)/left, right = sorted(B ^ A)/' C16 C17
run r3_clayton_locals copulas/bivariate/clayton.py 's/\bcdfs\b/out_values/g' C06 C07
run r4_frank_den copulas/bivariate/frank.py 's/\bden\b/denominator/g; s/\bnum\b/numerator/g' C06 C07 C08
run r5_gm_sample_locals copulas/multivariate/gaussian.py 's/\bsamples\b/normal_draws/g' C01 C12
run r6_vine_locals copulas/multivariate/vine.py 's/\bneighbors\b/adjacent_nodes/g; s/\bexplore\b/frontier/g' C17 C15
run r7_tree_locals copulas/multivariate/tree.py 's/\btau_sorted\b/ranked/g; s/\baux_sorted\b/ranked_aux/g' C16
run r8_kde_locals copulas/univariate/gaussian_kde.py 's/\bstdev\b/bandwidth/g' C03 C04
run r9_select_locals copulas/univariate/selection.py 's/\bbest_ks\b/lowest_ks/g; s/\bbest_model\b/winner/g' C05 C19
