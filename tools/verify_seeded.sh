#!/bin/sh
# tools/verify_seeded.sh <seeded-dir>  - on a scratch worktree of /repo HEAD: demo on the clean tree (must exit 0), apply the
# change, demo again (must exit non-zero), the repository's test suite (must pass). Prints one JSON line. Removes the worktree.
set -u
cd "$(dirname "$0")/.."
V="$PWD"; M="$1"
WT=$(mktemp -d /tmp/seedwt.XXXXXX)
git -C /repo worktree add --detach "$WT/repo" HEAD >/dev/null 2>&1 || exit 9
trap 'git -C /repo worktree remove --force "$WT/repo" >/dev/null 2>&1; rm -rf "$WT"' EXIT INT TERM
cd "$WT/repo"
PYTHONPATH="$WT/repo" timeout 1500 /venv/bin/python "$V/seeded/$M/demo.py" > "$WT/clean.log" 2>&1; clean=$?
if git apply "$V/seeded/$M/patch.diff" 2>/dev/null; then applies=true; else applies=false; fi
PYTHONPATH="$WT/repo" timeout 1500 /venv/bin/python "$V/seeded/$M/demo.py" > "$WT/mut.log" 2>&1; mut=$?
/venv/bin/python -m pytest -q -p no:cacheprovider --timeout=900 > "$WT/suite.log" 2>&1; suite=$?
summary=$(grep -E "passed|failed" "$WT/suite.log" | tail -1 | sed 's/"/ /g')
last=$(tail -1 "$WT/mut.log" | cut -c1-200 | sed 's/"/ /g; s/\\/ /g')
echo "{\"id\": \"$M\", \"applies\": $applies, \"demo_exit_clean\": $clean, \"demo_exit_changed\": $mut, \"suite_exit_changed\": $suite, \"suite_summary\": \"$summary\", \"demo_last_line\": \"$last\"}"
