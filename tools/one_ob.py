"""debug helper: build a check, discharge only the obligations whose name contains the given text (in-process)"""
import sys, os, time, importlib, faulthandler
sys.path.insert(0, os.environ.get('COPULAS_REPO', '/repo'))
sys.path.insert(0, os.path.dirname(os.path.dirname(os.path.abspath(__file__))))
sys.set_int_max_str_digits(0)
from pyvc import report
prop, pat = sys.argv[1], sys.argv[2]
mod = importlib.import_module('contracts.' + prop)
chk = report.Check(prop, os.environ.get('VERIF_TIER', 'quick'), 0)
orig = chk.discharge_all if hasattr(chk, 'discharge_all') else None
mod.build(chk)
for ob in chk.obs:
    if pat in ob.name:
        print('==', ob.name, 'backends', ob.backends)
        if os.environ.get('DUMP_AFTER'):
            faulthandler.dump_traceback_later(int(os.environ['DUMP_AFTER']), exit=True)
        t = time.time()
        out = report._discharge(ob)
        print(out.verdict, out.backend, round(time.time() - t, 2), str(out.detail)[:300])
        faulthandler.cancel_dump_traceback_later()
