#!/bin/sh
# tools/hand_mutants.sh - one-line property-breaking (and two property-neutral) edits of the vine code on a scratch worktree
cd "$(dirname "$0")/.."
WT=$(mktemp -d /tmp/hmwt.XXXXXX); OUT=$(mktemp -d /tmp/hmout.XXXXXX)
git -C /repo worktree add --detach "$WT/repo" HEAD >/dev/null 2>&1
trap 'git -C /repo worktree remove --force "$WT/repo" >/dev/null 2>&1; rm -rf "$WT" "$OUT"' EXIT
T=copulas/multivariate/tree.py; V=copulas/multivariate/vine.py
run() { # name file sed-expr checks...
  name=$1; file=$2; expr=$3; shift 3
  git -C "$WT/repo" checkout -q -- .
  sed -i "$expr" "$WT/repo/$file"
  if git -C "$WT/repo" diff --quiet; then echo "$name: sed did not change anything"; return; fi
  for C in "$@"; do
    COPULAS_REPO="$WT/repo" VERIF_OUT="$OUT" ./bin/check $C > "$OUT/log" 2>&1; code=$?
    echo "$name vs $C: exit $code  $(tail -1 $OUT/log | cut -c1-140)"
  done
}
run m1_union $T 's/depend_set = A & B/depend_set = A | B/' C16
run m2_level $T 's/return len(full_node) == (self.level + 1)/return len(full_node) == (self.level + 2)/' C16
run m3_direct_side $T 's/if valL > valR:/if valL < valR:/' C16
run m4_swap_h $T 's/right_given_left = copula.partial_derivative(X_right_left)/right_given_left = copula.partial_derivative(X_left_right)/' C17
run m5_nolog $T 's/values\[0, i\] = np.log(value)/values[0, i] = value/' C17
run m6_visited $V 's/visited.insert(0, current)/visited.append(current)/' C17
run m7_nocopy $T 's/tau_y = self.tau_matrix\[:, y\].copy()/tau_y = self.tau_matrix[:, y]/' C16 C20
run m8_empty $T 's/tau = np.zeros(\[num_edges, num_edges\])/tau = np.empty([num_edges, num_edges])/' C19
run m9_clamp $V 's/tmp = min(max(tmp, EPSILON), 1 - EPSILON)/tmp = min(max(tmp, EPSILON), 0.95)/' C17
run m10_trunc $V 's/for k in range(1, min(self.n_var - 1, self.truncated)):/for k in range(1, min(self.n_var, self.truncated)):/' C16
