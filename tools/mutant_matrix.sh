#!/bin/sh
# tools/mutant_matrix.sh [<seeded-dir> ...]  - for every seeded change: apply it to a scratch worktree of /repo (outside
# /repo and /verif), run the check of its own property plus the listed cross checks against that copy, record exit codes in
# seeded/<dir>/result.txt, remove the worktree at the end. /repo itself and evidence/ are not touched.
set -u
cd "$(dirname "$0")/.."
V="$PWD"
WT=$(mktemp -d /tmp/mutwt.XXXXXX)
OUT=$(mktemp -d /tmp/mutout.XXXXXX)
git -C /repo worktree add --detach "$WT/repo" HEAD >/dev/null 2>&1 || exit 9
trap 'git -C /repo worktree remove --force "$WT/repo" >/dev/null 2>&1; rm -rf "$WT" "$OUT"' EXIT INT TERM
LIST="${*:-$(ls seeded)}"
for M in $LIST; do
  [ -f "seeded/$M/patch.diff" ] || continue
  git -C "$WT/repo" checkout -q -- . ; git -C "$WT/repo" clean -fdq
  if ! git -C "$WT/repo" apply "$V/seeded/$M/patch.diff" 2>/dev/null; then echo "$M: patch does not apply" | tee "seeded/$M/result.txt"; continue; fi
  P=$(echo "$M" | cut -c1-3)
  CROSS=$(cat "seeded/$M/cross.txt" 2>/dev/null)
  : > "seeded/$M/result.txt"
  for C in $P $CROSS; do
    COPULAS_REPO="$WT/repo" VERIF_OUT="$OUT" ./bin/check "$C" > "$OUT/log.txt" 2>&1; code=$?
    nv=$(grep -c "^VIOLATION" "$OUT/log.txt")
    conf=$(grep "^VIOLATION" "$OUT/log.txt" | grep -vc "no-failing-input-found")
    echo "$C exit=$code violation_lines=$nv replayed=$conf $(tail -1 "$OUT/log.txt" | cut -c1-160)" | tee -a "seeded/$M/result.txt"
  done
done
