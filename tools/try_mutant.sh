#!/bin/sh
# tools/try_mutant.sh <seeded-dir-name> <prop> [<prop> ...]   - apply the seeded change to /repo, run the checks, undo.
set -u
cd "$(dirname "$0")/.."
M="$1"; shift
git -C /repo diff --quiet || { echo "/repo is dirty"; exit 9; }
git -C /repo apply "$PWD/seeded/$M/patch.diff" || { echo "patch does not apply"; exit 9; }
trap 'git -C /repo checkout -- . ' EXIT INT TERM
for P in "$@"; do
  [ -f "evidence/$P.json" ] && cp "evidence/$P.json" "/tmp/evidence_$P.json.bak"
  ./bin/check "$P" --tier "${TIER:-quick}" > "/tmp/mut_${M}_${P}.log" 2>&1; code=$?
  echo "== $M vs $P: exit $code"
  grep -E "^(VIOLATION|KNOWN-FINDING|UNDECIDED|ENGINE-ERROR)" "/tmp/mut_${M}_${P}.log" | cut -c1-260 | head -12
  tail -1 "/tmp/mut_${M}_${P}.log" | cut -c1-200
  [ -f "/tmp/evidence_$P.json.bak" ] && mv "/tmp/evidence_$P.json.bak" "evidence/$P.json"
done
