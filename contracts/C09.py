"""C09 - bivariate copula samples: the code-level premises of Rosenblatt (conditional-inverse) sampling.

Functions under contract: Bivariate.sample as decorated by utils.random_state (the real wrapper is executed), calling
the family's percent_point (inlined: the C08 obligations are re-generated AT THIS CALL SITE with y := the second
uniform draw and v := the first one). The distributional conclusions (uniform margins, Kendall tau, joint law = C)
follow from the proved premises by the cited lemma L5; the statistical band itself is not addressed.
"""
from fractions import Fraction

from pyvc import ir, engine
from pyvc.report import Ob
from pyvc.values import Sym, Lane, Arr2
from . import biv
from .biv import TH, TAU, U, V, N, FAMILIES
from .C07 import returned
from . import C08

LEVEL = 'proof'
TRUSTED = ['L5 (cited, Rosenblatt / probability integral transform): v, c ~ U(0,1) independent and u = h^{-1}(c | v)  '
           '=>  (u, v) ~ C; hence uniform margins, Kendall tau = tau(theta), joint law = cumulative_distribution',
           'numpy.random.uniform: assumed contract (n independent U[0,1) values, function of the global state)',
           'scipy.optimize.brentq: assumed contract']
LO, HI = C08.LO, C08.HI


class P(object):
    """a path of `sample` re-expressed over the lane variables U (= the draw used as probability) and V"""
    def __init__(self, r, m):
        sub = lambda t: ir.substitute(t, m)
        self.outcome, self.trace = r.outcome, r.trace
        self.pc = [sub(p) for p in r.pc]
        self.value = r.value
        self.events = []
        for e in r.events:
            d = e.data
            if isinstance(d, dict):
                d = {k: (sub(v) if isinstance(v, ir.T) else v) for k, v in d.items()}
            ev = type(e)(e.kind, d, [sub(p) for p in e.pc], e.where)
            self.events.append(ev)
        self.obligations = []
        for o in r.obligations:
            o2 = type(o)(o.name, [sub(h) for h in o.hyps], sub(o.goal), o.kind, o.where, o.meta, o.hints)
            self.obligations.append(o2)
        self.state = r.state


def sample_replay(fam):
    def rep(env):
        import numpy as np
        env = biv.model_floats(env)
        th = env.get('theta')
        if th is None:
            return {'confirmed': False, 'detail': 'model lacks theta'}
        tau = {'clayton': lambda t: t / (t + 2), 'gumbel': lambda t: 1 - 1 / t}.get(fam, lambda t: 0.5)(th)
        c = biv.native_copula(fam, th, tau)
        c.set_random_state(0)
        try:
            s = c.sample(2000)
        except Exception as e:
            return {'confirmed': True, 'detail': '%s(theta=%r).sample(2000) raised %s: %s' % (fam, th, type(e).__name__, e)}
        ok = s.shape == (2000, 2) and np.isfinite(s).all() and (s >= 0).all() and (s <= 1).all()
        back = biv.native_copula(fam, th).partial_derivative(s)
        # v column must be the conditioning draw: C(u|v) of the pair must look uniform and independent of v
        from scipy import stats
        ks = stats.kstest(back, 'uniform').statistic
        kt = abs(stats.kendalltau(back, s[:, 1])[0])
        ok = ok and ks < 0.06 and kt < 0.08
        return {'confirmed': not ok, 'detail': '%s(theta=%r).sample(2000): shape %r, KS of h(u|v) vs U(0,1) = %.3f, '
                '|Kendall tau|(h(u|v), v) = %.3f' % (fam, th, s.shape, ks, kt)}
    return rep


def build(chk):
    I0 = engine.new_interp()
    src = I0.source
    chk.under_contract(src, ['copulas.bivariate.base.Bivariate.sample', 'copulas.utils.random_state',
                             'copulas.bivariate.base.Bivariate.percent_point'])
    dom = ir.and_(ir.ge(U, ir.const(LO)), ir.le(U, ir.const(HI)), ir.ge(V, ir.const(LO)), ir.le(V, ir.const(HI)))
    for fam, F in FAMILIES.items():
        cls = F['cls']
        thbox = tuple(float(x) for x in F['box'])
        if fam == 'clayton':
            thbox = (1e-3, 8.0)
        box = {'theta': thbox, 'u@i': (float(LO), float(HI)), 'v@i': (float(LO), float(HI))}
        chk.under_contract(src, [cls + '.percent_point', cls + '.partial_derivative'])
        I = engine.new_interp()
        nsym = Sym(N)

        def body(c, I=I, fam=fam):
            obj = biv.make_copula(I, fam, c)
            obj.attrs['random_state'] = None
            c.assume(FAMILIES[fam]['theta'](TH))
            c.assume(ir.ge(N, 1))
            c.assume(ir.and_(ir.ge(TAU, -1), ir.le(TAU, 1)))
            return I.call_method(obj, 'sample', [nsym])
        res, ctx = engine.run_paths(I, body, safety=True)
        # identify the two uniform draws
        g0 = ir.var('G0', 'U')
        d1 = ir.uf('rng.uniform.elem', [g0, ir.ZERO, ir.ONE, N, ir.var('@i', 'I')])
        g1 = ir.uf('rng.next', [g0, ir.const('uniform'), ir.ZERO, ir.ONE, N], 'U')
        d2 = ir.uf('rng.uniform.elem', [g1, ir.ZERO, ir.ONE, N, ir.var('@i', 'I')])
        fq = cls + '.sample'
        mapped = []
        nret = 0
        for r in res:
            if r.outcome == 'unsupported':
                chk.undecided.append(('C09.%s.sample.exec' % fam, 'executor', str(r.value)))
                continue
            draws = [e for e in r.events if e.kind == 'rng']
            if r.outcome == 'return':
                nret += 1
                v = r.value
                okshape = isinstance(v, Arr2) and len(v.cols) == 2
                chk.add(Ob('C09.%s.sample.shape.%d' % (fam, nret), [], ir.const(bool(okshape)), backends=('syntactic',),
                           function=fq, clause='returns an (n, 2) array'))
                if not okshape:
                    continue
                chk.add(Ob('C09.%s.sample.rows.%d' % (fam, nret), r.pc, ir.eq(values_n(v), N), function=fq,
                           free_ufs_ok=True, clause='exactly n rows'))
                col0, col1 = v.cols[0].t, v.cols[1].t
                kinds = [e.data[0] for e in draws]
                chk.add(Ob('C09.%s.sample.two_uniform_draws.%d' % (fam, nret), [],
                           ir.const(kinds == ['uniform', 'uniform']), backends=('syntactic',), function=fq,
                           clause='exactly two uniform(0,1,n) draws, nothing else consumes the generator [%s]' % kinds))
                # roles: column 1 is one of the draws (v); the other draw (c) only enters through percent_point
                if col1 is d1:
                    vd, cd = d1, d2
                elif col1 is d2:
                    vd, cd = d2, d1
                else:
                    chk.add(Ob('C09.%s.sample.column1_is_a_draw.%d' % (fam, nret), [], ir.FALSE, backends=('syntactic',),
                               function=fq, clause='second column is the conditioning uniform draw v, untouched',
                               replay=sample_replay(fam)))
                    continue
                chk.add(Ob('C09.%s.sample.column1_is_a_draw.%d' % (fam, nret), [], ir.TRUE, backends=('syntactic',),
                           function=fq, clause='second column is the conditioning uniform draw v, untouched'))
                m = {cd: U, vd: V}
            else:
                m = {d2: U, d1: V}
            p = P(r, m)
            if r.outcome == 'return':
                p.value = Lane(ir.substitute(col0, m), nsym)
                leftover = [x for x in ir.subterms(p.value.t) if x.op == 'uf' and x.args[0].startswith('rng.')]
                chk.add(Ob('C09.%s.sample.column0_from_the_two_draws.%d' % (fam, nret), [],
                           ir.const(not leftover), backends=('syntactic',), function=fq,
                           clause='first column is a function of (c, v) only'))
            p.pc = p.pc + [dom]
            for o in p.obligations:
                o.hyps = o.hyps + [dom]
            for e in p.events:
                e.pc = e.pc + [dom]
            if r.outcome == 'raise' and r.value.clsname == 'ValueError' and 'range for correlation' in str(r.value.args[:1]):
                continue
            from pyvc import smt
            if smt.satisfiable(p.pc, timeout_ms=5000)[0] is False:
                continue                     # path needs a draw outside the box (e.g. v == 0): not covered here
            mapped.append(p)
        _, resH, _ = biv.run_method(fam, 'partial_derivative', open_at_one=True, safety=False, havoc=False)
        C08.ppf_obligations(chk, 'C09', fam, F, mapped, returned(resH), box, thbox)
        if nret == 0 and not chk.undecided:
            chk.engine_error('C09.%s: sample has no returning path' % fam)
    for ob in chk.obs:
        if ob.replay is not None and ob.name.startswith('C09.') and '.ppf.' in ob.name:
            fam = ob.name.split('.')[1]
            ob.replay = C08.ppf_replay(fam)
    chk.lemmas += ['L5 (cited)', 'L4 (cited)']
    chk.assumptions += [
        'the two uniform draws are treated as arbitrary values in [1e-4, 1-1e-4] (the box on which percent_point is '
        'specified, C08); draws outside it have probability 2e-4 each and are not covered',
        'reals, not floats; brentq tolerance neglected; random_state None here (the seeded wrapper is C15)',
    ]
    chk.not_addressed += [
        {'clause': 'columns uniformly distributed, Kendall tau equals the model tau, empirical joint CDF matches '
                   'cumulative_distribution (statistical bands)', 'reason': '(S) follows from the proved premises by the '
         'cited lemma L5; no contract can state a distributional fact about a pseudo-random stream'},
    ]


def values_n(v):
    n = v.n
    return n.t if isinstance(n, Sym) else ir.const(n)
