"""C11 - select_copula returns a calibrated candidate.

Functions under contract: copulas.bivariate.select_copula (real body), Frank.fit and Clayton/Gumbel._compute_theta as
called from it, _compute_candidates (real body), Bivariate.select_copula (deprecated alias).
_compute_empirical is replaced by its CONTRACT (four lists, pairwise equal lengths, no effect); that contract is
checked by a bounded native stand-in (its 50-step loop with data-dependent appends is outside the executor's subset).
"""
from fractions import Fraction

from pyvc import ir, engine, smt
from pyvc.report import Ob
from pyvc.values import Sym, Lane, Arr2, GenList
from pyvc.interp import Obj
from . import biv
from .biv import U, V, N
from .C10 import KT, spec_theta, frank_residual

LEVEL = 'proof'
TRUSTED = ['cumulative_distribution of the three families used through its contract (deterministic elementwise function of (theta, u, v) on a fitted model, no side effect) - discharged in C06',
           'contract of copulas.bivariate._compute_empirical (ASSUMED at the call site, checked only by the bounded '
           'stand-in C11._compute_empirical.bounded): returns (z_left, L, z_right, R) with len(z_left) == len(L), '
           'len(z_right) == len(R), values in (0, 1), deterministic in X, no side effect',
           'numpy argmax / pandas rank: assumed contracts (valid index; deterministic)']
SEL = 'copulas.bivariate.select_copula'


def empirical_summary(interp, args, kwargs):
    c = values_ctx()
    X = args[0]
    w = X.whole()
    nl = Sym(ir.uf('emp.nleft', [w], 'I'))
    nr = Sym(ir.uf('emp.nright', [w], 'I'))
    c.assume(ir.and_(ir.ge(nl.t, 0), ir.ge(nr.t, 0)))
    IDX = ir.var('@i', 'I')
    zl = Lane(ir.uf('emp.zleft', [w, IDX]), nl)
    zr = Lane(ir.uf('emp.zright', [w, IDX]), nr)
    c.assume(ir.and_(ir.gt(zl.t, 0), ir.lt(zl.t, 1), ir.gt(zr.t, 0), ir.lt(zr.t, 1)))
    L = Lane(ir.uf('emp.L', [w, IDX]), nl)
    R = Lane(ir.uf('emp.R', [w, IDX]), nr)
    return (GenList(zl), GenList(L), GenList(zr), GenList(R))


def cdf_summary(fam):
    def summ(interp, args, kwargs):
        obj, X = args[0], args[1]
        interp.call_method(obj, 'check_fit', [])
        th = obj.attrs['theta']
        u, v = X.cols[0], X.cols[1]
        return Lane(ir.uf('cdf.' + fam, [th.t, u.t, v.t]), u.n, u.mask)
    return summ


def values_ctx():
    from pyvc.values import State
    return State.ctx


def sel_replay(env):
    import numpy as np
    import warnings
    from copulas.bivariate import select_copula, Frank
    from scipy import stats
    bad = []
    warnings.simplefilter('ignore')
    designs = []
    for m_ in (4, 5, 6, 7, 8, 9):
        g = (np.arange(m_) + 0.5) / m_
        designs.append(('%dx%d product grid (tau = 0)' % (m_, m_), np.array([[a, b] for a in g for b in g])))
    g = (np.arange(6) + 0.5) / 6
    designs.append(('anti-monotone', np.column_stack([g, g[::-1]])))
    rs0 = np.random.RandomState(1)
    for n_ in (8, 9, 12):               # tie-free rank designs with tau exactly 0
        for _try in range(20000):
            p_ = rs0.permutation(n_)
            if stats.kendalltau(np.arange(n_), p_)[0] == 0:
                designs.append(('ranks n=%d, tau = 0' % n_, np.column_stack([(np.arange(n_) + 1.0) / (n_ + 1),
                                                                               (p_ + 1.0) / (n_ + 1)])))
                break
    rs = np.random.RandomState(0)
    z = rs.normal(size=(400, 2))
    z[:, 1] = 0.7 * z[:, 0] + 0.3 * z[:, 1]
    designs.append(('positive dependence', stats.norm.cdf(z)))
    results = []
    for name, X in designs:
        tau = stats.kendalltau(X[:, 0], X[:, 1])[0]
        r = select_copula(X.copy())
        results.append(r)
        if tau <= 0 and not isinstance(r, Frank):
            bad.append('%s: tau = %.3g <= 0 but %s returned' % (name, tau, type(r).__name__))
        if abs(r.tau - tau) > 1e-12:
            bad.append('%s: returned tau %r, data tau %r' % (name, r.tau, tau))
    # history independence: keep earlier results, call again, earlier results must not change / be shared
    from copulas.bivariate import Clayton, Gumbel
    kept = []
    for k_, (cls_, th_) in enumerate([(Clayton, 3.0), (Gumbel, 3.0), (Clayton, 1.0), (Gumbel, 1.8), (Clayton, 5.0)]):
        gen = cls_()
        gen.theta, gen.tau = th_, 0.5
        gen.set_random_state(k_)
        try:
            Xk = gen.sample(400)
        except Exception:
            continue
        rk = select_copula(Xk)
        kept.append((rk, type(rk).__name__, rk.tau, rk.theta))
    for i_, (rk, nm, ta, th) in enumerate(kept):
        if (type(rk).__name__, rk.tau, rk.theta) != (nm, ta, th):
            bad.append('result %d changed after later calls: was (%s, tau=%r, theta=%r), now (tau=%r, theta=%r)' %
                       (i_, nm, ta, th, rk.tau, rk.theta))
    if len({id(k[0]) for k in kept}) != len(kept):
        bad.append('two calls returned the same object')
    return {'confirmed': bool(bad), 'detail': '; '.join(bad) if bad else 'native designs passed'}


def build(chk):
    I = engine.new_interp()
    src = I.source
    chk.under_contract(src, [SEL, 'copulas.bivariate._compute_candidates', 'copulas.bivariate._compute_tail',
                             'copulas.bivariate.base.Bivariate.select_copula', 'copulas.bivariate.base.Bivariate.fit',
                             'copulas.bivariate.base.Bivariate._compute_theta'])
    I.summaries['copulas.bivariate._compute_empirical'] = empirical_summary
    # modular step: the candidates' cumulative_distribution is used through its contract (verified in C06):
    # defined for a fitted model, a deterministic elementwise function of (theta, u, v), no side effect
    for fam, F in biv.FAMILIES.items():
        I.summaries[F['cls'] + '.cumulative_distribution'] = cdf_summary(fam)
    for entry in ('function', 'alias'):
        def body(c, entry=entry):
            n = Sym(N)
            X = Arr2([Lane(U, n), Lane(V, n)], n, owner='X')
            c.assume(ir.ge(N, 2))
            mod = I.module('copulas.bivariate')
            mark = len(I.created)
            if entry == 'function':
                r = I.call_qual(SEL, [X])
            else:
                r = I.call(I.getattr(I.resolve('copulas.bivariate.base.Bivariate'), 'select_copula'), [X], {})
            c.out['fresh'] = any(o is r for o in I.created[mark:])
            c.out['attrs'] = dict(r.attrs) if isinstance(r, Obj) else None
            c.out['cls'] = r.cls.name if isinstance(r, Obj) else None
            return r
        res, ctx = engine.run_paths(I, body, max_paths=3000)
        nret = 0
        seen = set()
        for r in res:
            tag = '%s' % entry
            if r.outcome == 'unsupported':
                if ('exec', str(r.value)) not in seen:
                    seen.add(('exec', str(r.value)))
                    chk.undecided.append(('C11.%s.exec' % tag, 'executor', str(r.value)))
                continue
            for e in r.events:
                if e.kind == 'mutate' and ('frame', e.data) not in seen:
                    seen.add(('frame', e.data))
                    chk.add(Ob('C11.%s.frame.%s' % (tag, e.data), e.pc, ir.FALSE, kind='frame', function=SEL,
                               free_ufs_ok=True, clause='X not modified (shared with C20)'))
                if e.kind in ('rng', 'rng_set', 'rng_foreign') and ('rng', e.kind) not in seen:
                    seen.add(('rng', e.kind))
                    chk.add(Ob('C11.%s.deterministic.no_rng' % tag, e.pc, ir.FALSE, kind='frame', function=SEL,
                               free_ufs_ok=True, clause='the choice is a deterministic function of X (no random draw)'))
            if r.outcome == 'raise':
                if r.value.clsname != 'ValueError' and ('exc', r.value.clsname) not in seen:
                    seen.add(('exc', r.value.clsname))
                    chk.add(Ob('C11.%s.only_ValueError.%s' % (tag, r.value.clsname), r.pc, ir.FALSE, function=SEL,
                               free_ufs_ok=True, clause='only invalid data (ValueError from Frank.fit) is refused [%s]' %
                               str(r.value.args[:1])[:80], replay=sel_replay))
                continue
            if r.outcome != 'return':
                continue
            nret += 1
            hy = list(r.pc)
            clsname, attrs = r.state['cls'], r.state['attrs']
            dom = [ir.gt(KT, -1), ir.lt(KT, 1)]
            okcls = clsname in ('Frank', 'Clayton', 'Gumbel')
            if not okcls or nret <= 3 or not r.state['fresh']:
                chk.add(Ob('C11.%s.returns_candidate_instance.%d' % (tag, nret), [], ir.const(okcls),
                           backends=('syntactic',), function=SEL, clause='returns a Frank, Clayton or Gumbel instance [%s]'
                           % clsname, replay=sel_replay))
                chk.add(Ob('C11.%s.result_is_fresh.%d' % (tag, nret), [], ir.const(bool(r.state['fresh'])),
                           backends=('syntactic',), function=SEL,
                           clause='the returned model is created by this call (not shared with other calls)',
                           replay=sel_replay))
            if not okcls:
                continue
            tau_t = attrs['tau'].t if isinstance(attrs.get('tau'), Sym) else ir.const(attrs.get('tau'))
            th_t = attrs['theta'].t if isinstance(attrs.get('theta'), Sym) else ir.const(attrs.get('theta'))
            chk.add(Ob('C11.%s.tau_is_kendall.%d' % (tag, nret), hy, ir.eq(tau_t, KT), function=SEL, free_ufs_ok=True,
                       clause='tau of the returned model is the Kendall tau of X', replay=sel_replay))
            chk.add(Ob('C11.%s.nonpositive_tau_gives_frank.%d' % (tag, nret), hy + [ir.le(KT, 0)],
                       ir.const(clsname == 'Frank'), function=SEL, free_ufs_ok=True,
                       clause='for non-positive tau it returns Frank', replay=sel_replay))
            fam = clsname.lower()
            if fam in ('clayton', 'gumbel'):
                chk.add(Ob('C11.%s.theta_calibrated.%s.%d' % (tag, fam, nret), hy + dom, ir.eq(th_t, spec_theta(fam, KT)),
                           function=SEL, free_ufs_ok=True, clause='theta is the family\'s calibration of tau',
                           replay=sel_replay))
                adm = ir.gt(th_t, 0) if fam == 'clayton' else ir.ge(th_t, 1)
                chk.add(Ob('C11.%s.theta_admissible.%s.%d' % (tag, fam, nret), hy + dom, adm, function=SEL,
                           free_ufs_ok=True, clause='theta admissible for the returned family'))
            else:
                lsq = [e for e in r.events if e.kind == 'least_squares']
                for e in lsq[:1]:
                    chk.add(Ob('C11.%s.theta_calibrated.frank.%d' % (tag, nret), hy,
                               ir.and_(ir.eq(th_t, e.data['x']), ir.eq(e.data['residual'], frank_residual(e.data['x'], KT)),
                                       ir.ne(th_t, 0)), function=SEL, free_ufs_ok=True,
                               clause='Frank theta is the root of the Debye relation for tau', replay=sel_replay))
                if not lsq:
                    chk.add(Ob('C11.%s.theta_calibrated.frank.%d' % (tag, nret), hy, ir.FALSE, function=SEL,
                               free_ufs_ok=True, clause='Frank theta calibrated'))
            if nret == 1:
                chk.add(Ob('C11.%s.canary.tau_is_zero' % tag, hy, ir.eq(tau_t, 0), free_ufs_ok=True, canary=True))
        if nret == 0 and not chk.undecided:
            chk.engine_error('C11.%s: no returning path' % entry)
        chk.notes.append('%s: %d paths explored, %d returning' % (entry, len(res), nret))
    bounded_empirical(chk)
    chk.assumptions += [
        'kendalltau, least_squares, quad, argmax, rank: assumed contracts; reals not floats',
        'the generic row of X is arbitrary; whole-column reductions adversarial',
    ]
    chk.not_addressed += [
        {'clause': 'recovers the generating family with high probability (>= 70% of seeds)', 'reason': '(S) statistical'},
    ]


def bounded_empirical(chk):
    import numpy as np
    from copulas.bivariate import _compute_empirical
    rs = np.random.RandomState(chk.seed or 0)
    n_cases = 150 if chk.tier == 'quick' else 3000
    evals = 0
    distinct = set()
    for k in range(n_cases):
        n = int(rs.choice([1, 2, 3, 5, 17, 200]))
        kind = k % 5
        if kind == 0:
            X = rs.uniform(0, 1, (n, 2))
        elif kind == 1:
            X = rs.uniform(0, 1, (n, 2)) ** 8            # everything near 0
        elif kind == 2:
            X = 1 - rs.uniform(0, 1, (n, 2)) ** 8        # everything near 1
        elif kind == 3:
            a = rs.uniform(0, 1, n)
            X = np.column_stack([a, 1 - a])              # anti-monotone: empty joint tails
        else:
            X = rs.choice([0.0, 0.5, 1.0], (n, 2))       # boundary values and ties
        X0 = X.copy()
        try:
            zl, L, zr, R = _compute_empirical(X)
            zl2, L2, zr2, R2 = _compute_empirical(X)
            ok = len(zl) == len(L) and len(zr) == len(R) and np.array_equal(X, X0) and \
                list(zl) == list(zl2) and list(L) == list(L2) and list(zr) == list(zr2) and list(R) == list(R2) and \
                all(0 < z < 1 for z in list(zl) + list(zr))
            detail = 'lengths %r' % ((len(zl), len(L), len(zr), len(R)),)
        except Exception as e:
            ok, detail = False, '%s: %s' % (type(e).__name__, e)
        evals += 1
        distinct.add((kind, n, X.tobytes()[:64]))
        if not ok:
            chk.bounded_violation('C11._compute_empirical.bounded', {'kind': kind, 'n': n, 'X': X0[:8].tolist()}, detail)
            break
    # the concentration functions are those of ALL rows, whatever their number and order
    from copulas.bivariate import COMPUTE_EMPIRICAL_STEPS
    from copulas.utils import EPSILON
    base = np.linspace(EPSILON, 1.0 - EPSILON, COMPUTE_EMPIRICAL_STEPS)
    for n, order in ((40, 'drawn'), (3000, 'sorted'), (12000, 'sorted'), (12000, 'drawn')) if chk.tier == 'quick' else \
            ((40, 'drawn'), (3000, 'sorted'), (12000, 'sorted'), (12000, 'drawn'), (30000, 'sorted'), (30000, 'reversed')):
        z = rs.normal(size=(n, 2)) @ np.array([[1.0, 0.8], [0.0, 0.6]])
        X = np.column_stack([(np.argsort(np.argsort(z[:, 0])) + 0.5) / n, (np.argsort(np.argsort(z[:, 1])) + 0.5) / n])
        if order == 'sorted':
            X = X[np.argsort(X[:, 0])]
        elif order == 'reversed':
            X = X[np.argsort(-X[:, 0])]
        zl, L, zr, R = _compute_empirical(X)
        left = np.array([np.mean((X[:, 0] <= b) & (X[:, 1] <= b)) for b in base])
        right = np.array([np.mean((X[:, 0] >= b) & (X[:, 1] >= b)) for b in base])
        want_L = [l / b ** 2 for l, b in zip(left, base) if l > 0]
        want_zl = [b for l, b in zip(left, base) if l > 0]
        evals += 1
        distinct.add(('allrows', n, order))
        if not (len(L) == len(want_L) and np.allclose(L, want_L, rtol=1e-12) and np.allclose(zl, want_zl) and
                len(zr) == int((right > 0).sum())):
            k0 = next((i for i, (a_, b_) in enumerate(zip(L, want_L)) if not np.isclose(a_, b_, rtol=1e-12)), 0)
            chk.bounded_violation('C11._compute_empirical.bounded', {'kind': 'all rows', 'n': n, 'order': order},
                                  'the lower concentration function returned for %d %s rows differs from the one of all rows '
                                  '(first difference at step %d: %r vs %r)' % (n, order, k0, L[k0] if k0 < len(L) else None,
                                                                               want_L[k0] if k0 < len(want_L) else None))
            break
    chk.bounded.append({'name': 'C11._compute_empirical.bounded', 'clause': 'contract of _compute_empirical assumed by '
                        'select_copula', 'bound': '%d generated arrays (uniform, near-0, near-1, anti-monotone, boundary/ties; '
                        'n in {1,2,3,5,17,200}), seed %d' % (n_cases, chk.seed or 0), 'evaluations': evals,
                        'distinct_nontrivial': len(distinct), 'rule': 'one case = one array; distinct by (kind, n, content)'})
