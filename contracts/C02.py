"""C02 - the fitted Gaussian-copula correlation is a valid, correctly computed matrix.

Functions under contract: GaussianMultivariate.fit (as decorated by check_valid_values), _validate_input, _fit_columns,
_get_distribution_for_column, _fit_column, _get_correlation, _transform_to_normal; the per-column marginals are used
through their own contracts (C03/C04). pandas corr / numpy cond are assumed contracts. Unrolled for d = 2, 3
(quick) and up to 5 (thorough) columns, every subset of constant columns.
"""
import itertools
from fractions import Fraction

from pyvc import ir, engine, smt, pdmodel
from pyvc.report import Ob
from pyvc.values import Sym, Lane
from . import gm, uni
from .gm import GM, N, EPS32, EPS64, NAMES, colvar, colwhole, nunique

LEVEL = 'proof'
TRUSTED = ['pandas DataFrame.corr: assumed contract (Pearson correlation matrix: symmetric, entries in [-1,1], unit diagonal, '
           'NaN iff a column is constant, positive semi-definite on the non-constant block)',
           'np.linalg.cond: assumed to be the 2-norm condition number; np.nan_to_num elementwise',
           'L7 (cited): zero-padding a PSD block keeps it PSD; PSD + eps*I is positive definite',
           'assumption: a non-constant training column has non-constant normal scores (the fitted CDF is not flat on the '
           'data after clipping)',
           'lemma (obvious): an array whose generic element equals a lane-independent value is constant']
INV_EPS64 = ir.const(1 / EPS64)


def corr_replay(env, families=None):
    import numpy as np
    import pandas as pd
    import warnings
    warnings.simplefilter('ignore')
    from scipy import stats
    from copulas.multivariate import GaussianMultivariate
    from copulas.univariate import GaussianUnivariate
    from copulas.utils import EPSILON
    rs = np.random.RandomState(1)
    bad = []
    a = rs.normal(size=300)
    tables = {
        'outlier': pd.DataFrame({'p': np.append(a, 40.0), 'q': np.append(0.6 * a + 0.8 * rs.normal(size=300), -35.0)}),
        'affine': pd.DataFrame({'p': a, 'q': 2 * a + 3, 'r': rs.normal(size=300)}),
        'anti': pd.DataFrame({'p': a, 'q': -a}),
        'constant': pd.DataFrame({'p': a, 'k': np.full(300, 2.5), 'q': rs.normal(size=300)}),
        'unsorted labels': pd.DataFrame({'z': a, 'b': a ** 3, 'm': rs.normal(size=300)}),
    }
    cases = list(tables.items()) + [(k + ' (instance prototype)', v) for k, v in tables.items()]
    if families:
        # marginal families whose fitted CDF does not reproduce the shape of the data: the normal scores are then not
        # standardised, which is exactly when a correlation and a covariance of the scores differ
        import copulas.univariate as cu
        cases = [('%s [%s marginals]' % (k, f), v) for f in families for k, v in tables.items() if k in ('outlier', 'constant')]
    for name, X in cases:
        proto = GaussianUnivariate()
        dist = proto if name.endswith('prototype)') else GaussianUnivariate
        if families:
            dist = getattr(cu, name.split('[')[1].split(' ')[0])
        m = GaussianMultivariate(distribution=dist)
        m.fit(X)
        R = m.correlation
        if len({id(u) for u in m.univariates}) != len(m.univariates) or any(u is proto for u in m.univariates):
            bad.append('%s: columns share one marginal object' % name)
        for col, u in zip(X.columns, m.univariates):
            pr = u.to_dict()
            if type(u).__name__ == 'GaussianUnivariate' and 'loc' in pr and X[col].nunique() > 1 and not np.isclose(pr['loc'], X[col].mean(), rtol=1e-9, atol=1e-12):
                bad.append('%s: marginal of column %s has loc %.6g, the column mean is %.6g' % (name, col, pr['loc'], X[col].mean()))
        if list(R.columns) != list(X.columns) or list(R.index) != list(X.columns):
            bad.append('%s: labels %r' % (name, list(R.columns)))
        Z = []
        for col, u in zip(X.columns, m.univariates):
            Z.append(stats.norm.ppf(np.clip(u.cdf(X[col].to_numpy()), EPSILON, 1 - EPSILON)))
        want = np.nan_to_num(pd.DataFrame(np.column_stack(Z)).corr().to_numpy(), nan=0.0)
        got = R.to_numpy()
        ridge = np.linalg.cond(want) > 1.0 / np.finfo(float).eps
        if not np.allclose(got, want + (np.identity(len(want)) * EPSILON if ridge else 0), rtol=0, atol=1e-9):
            bad.append('%s: correlation differs from corr(normal scores): max diff %.3g' % (name, np.abs(got - want).max()))
        if ridge != (not np.allclose(got, want, rtol=0, atol=1e-9)):
            bad.append('%s: ill-conditioned (cond = %.3g) but %s ridge' % (name, np.linalg.cond(want), 'no' if ridge else 'a'))
        try:
            m.sample(3)
            m.probability_density(X.iloc[:3])
            m.cumulative_distribution(X.iloc[:3])
        except Exception as e:
            bad.append('%s: %s after fit: %s' % (name, type(e).__name__, str(e)[:80]))
    return {'confirmed': bool(bad), 'detail': '; '.join(bad) if bad else 'native correlation matches the contract'}


def bounded_marginal_families(chk):
    """BOUNDED native stand-in: the deductive part runs Gaussian and Uniform marginals through their contracts; here the fitted
    matrix is recomputed natively from the model's own marginals for further families, on the replay tables."""
    fams = ('UniformUnivariate', 'GaussianKDE', 'GammaUnivariate') if chk.tier == 'quick' else \
        ('UniformUnivariate', 'GaussianKDE', 'GammaUnivariate', 'BetaUnivariate', 'StudentTUnivariate', 'TruncatedGaussian')
    r = corr_replay({}, families=fams)
    if r['confirmed']:
        chk.bounded_violation('C02.correlation.marginal_families.bounded', {'families': list(fams)}, r['detail'])
    chk.bounded.append({'name': 'C02.correlation.marginal_families.bounded', 'clause': 'labels, entries = Pearson correlation of the '
                        'normal scores (unit diagonal), ridge iff ill-conditioned, usable for sample / pdf / cdf',
                        'bound': 'marginal families %r x tables (outlier, constant column), 300 rows' % (fams,),
                        'evaluations': 2 * len(fams), 'distinct_nontrivial': 2 * len(fams), 'rule': 'one case = (family, table)'})


def build(chk):
    bounded_marginal_families(chk)
    I0 = engine.new_interp()
    src = I0.source
    chk.under_contract(src, [GM + '.' + f for f in ('fit', '_validate_input', '_fit_columns', '_get_distribution_for_column',
                                                     '_fit_column', '_get_correlation', '_transform_to_normal')] +
                       ['copulas.utils.check_valid_values'])
    dims = (2, 3) if chk.tier == 'quick' else (2, 3, 4, 5)
    for d in dims:
        labels = NAMES[:d]
        consts = [()] + [(l,) for l in labels[:2]] + ([tuple(labels[:2])] if d >= 3 else [])
        if chk.tier == 'thorough':
            consts = [c for r in range(0, d) for c in itertools.combinations(labels, r)]
        for const in consts + (['partial_dict'] if d == 3 else []) + ['instance']:
            partial = const == 'partial_dict'
            shared = const == 'instance'
            if partial or shared:
                const = ()
            tag = 'd%d.const_%s%s' % (d, ''.join(const) or 'none', '.partial_dict' if partial else '.instance' if shared else '')
            I = engine.new_interp()
            gm.install_rootfinders(I)
            G = I.resolve(uni.CLASSES['GaussianUnivariate'][0])
            Bc = I.resolve(uni.CLASSES['UniformUnivariate'][0])
            # every column configured explicitly (an unnamed column would go through the selecting Univariate: C05)
            dist = {l: (G if i % 2 == 0 else Bc) for i, l in enumerate(labels)} if d >= 3 else G
            if partial:
                # a dict that names only the LAST column: the others fall back to the selecting Univariate, whose choice is
                # taken from its contract (C05) - here a Gaussian; layout and labels must still follow the training order
                dist = {labels[-1]: Bc}
                I.summaries['copulas.univariate.selection.select_univariate'] = \
                    lambda interp, args, kwargs: uni.new_model(interp, 'GaussianUnivariate')

            def body(c, I=I, labels=labels, const=const, dist=dist, shared=shared, G=G):
                if shared:
                    # ONE configured instance given for every column: it is a prototype, each column gets its own copy
                    dist = I.call(G, [], {})
                m = gm.fit_model(I, c, labels, dist if not isinstance(dist, dict) else dict(dist), constant=const)
                us = m.attrs['univariates']
                c.out['distinct'] = len({id(u) for u in us}) == len(us) and all(u is not dist for u in us)
                c.out['params'] = [dict(getattr(u, 'attrs', {}).get('_params') or {}) for u in us]
                c.out['m'] = m
                c.out['R'] = m.attrs['correlation']
                c.out['Z'] = gm.spec_scores(I, m, labels)
                c.out['columns'] = m.attrs['columns']
                c.out['classes'] = [u.cls.name for u in m.attrs['univariates']]
                return None
            res, ctx = engine.run_paths(I, body)
            kr = 0
            for r in res:
                if r.outcome == 'unsupported':
                    chk.undecided.append(('C02.%s.exec' % tag, 'executor', str(r.value)))
                    continue
                for e in r.events:
                    if e.kind == 'mutate':
                        chk.add(Ob('C02.%s.frame.%s' % (tag, e.data), e.pc, ir.FALSE, kind='frame', function=GM + '.fit',
                                   free_ufs_ok=True, clause='training table not modified (shared with C20)'))
                if r.outcome != 'return':
                    chk.add(Ob('C02.%s.fit.no_exception.%s' % (tag, getattr(r.value, 'clsname', '?')), r.pc, ir.FALSE,
                               function=GM + '.fit', free_ufs_ok=True, replay=corr_replay,
                               clause='fit succeeds on every numeric table (constant / duplicated columns included) [%s]'
                               % str(getattr(r.value, 'args', ''))[:70]))
                    continue
                kr += 1
                R, Z = r.state['R'], r.state['Z']
                fq = GM + '._get_correlation'
                ok_lab = isinstance(R, pdmodel.LabeledMat) and R.index == labels and R.columns == labels and \
                    list(r.state['columns']) == labels
                chk.add(Ob('C02.%s.labels.%d' % (tag, kr), [], ir.const(bool(ok_lab)), backends=('syntactic',), function=fq,
                           clause='correlation is labelled by the training columns in order', replay=corr_replay))
                if not ok_lab:
                    continue
                chk.add(Ob('C02.%s.own_marginal.%d' % (tag, kr), [], ir.const(bool(r.state['distinct'])),
                           backends=('syntactic',), function=GM + '._fit_column', replay=corr_replay,
                           clause='each column is mapped through a marginal object of its own (never the caller\'s prototype, '
                                  'never one shared between columns)'))
                for i, l in enumerate(labels):
                    pr, w = r.state['params'][i], colwhole(l)
                    sp = {'GaussianUnivariate': {'loc': ir.uf('np.mean', [w]), 'scale': ir.uf('np.std', [w, ir.ZERO])},
                          'UniformUnivariate': {'loc': ir.uf('np.min', [w]),
                                                'scale': ir.sub(ir.uf('np.max', [w]), ir.uf('np.min', [w]))}
                          }.get(r.state['classes'][i])
                    if sp and pr and l not in const:
                        goal = ir.and_(*[ir.eq(uni.term(pr[k_]), sp[k_]) if k_ in pr else ir.FALSE for k_ in sp])
                        chk.add(Ob('C02.%s.marginal_of_its_column.%s.%d' % (tag, l, kr), list(r.pc), goal,
                                   function=GM + '._fit_column', free_ufs_ok=True, replay=corr_replay,
                                   clause='the CDF that column %s is mapped through was estimated from column %s' % (l, l)))
                # non-constant columns have non-constant scores (stated assumption); constant ones constant scores
                hy = list(r.pc)
                for i, l in enumerate(labels):
                    zi = ir.uf('n_unique', [gm.arr_of(Z[i])], 'I')
                    if l not in const:
                        hy.append(ir.gt(zi, 1))
                    else:
                        # a constant column has lane-independent normal scores (obligation), hence a constant score array
                        zc = ir.substitute(Z[i], {colvar(l): ir.uf('unique0', [colwhole(l)])})
                        chk.add(Ob('C02.%s.constant_scores.%s.%d' % (tag, l, kr), list(r.pc), ir.eq(Z[i], zc), function=fq,
                                   free_ufs_ok=True, clause='every normal score of a constant column is the same value'))
                        hy.append(ir.eq(zi, 1))
                cvals = [[pdmodel.corr_term('pearson', gm.arr_of(Z[i]), gm.arr_of(Z[j])) for j in range(d)] for i in range(d)]
                raw = [[ir.ite(ir.uf('isnan', [cvals[i][j]], 'B'), 0, cvals[i][j]) for j in range(d)] for i in range(d)]
                cond = ir.uf('cond', [raw[i][j] for i in range(d) for j in range(d)])
                ridge = ir.gt(cond, INV_EPS64)
                for i in range(d):
                    for j in range(d):
                        got = R.data[i][j].t
                        want = ir.add(raw[i][j], ir.ite(ridge, ir.const(EPS32), 0)) if i == j else raw[i][j]
                        chk.add(Ob('C02.%s.entry.%d_%d.%d' % (tag, i, j, kr), hy, ir.eq(got, want), function=fq,
                                   free_ufs_ok=True, replay=corr_replay,
                                   clause='entry (%s,%s) = Pearson correlation of the normal scores Phi^-1(clip(F(x), EPS, '
                                          '1-EPS)) of the two columns (NaN -> 0; + EPSILON on the diagonal iff the matrix is '
                                          'ill-conditioned)' % (labels[i], labels[j])))
                        chk.add(Ob('C02.%s.symmetric.%d_%d.%d' % (tag, i, j, kr), hy, ir.eq(got, R.data[j][i].t),
                                   function=fq, free_ufs_ok=True, clause='symmetric'))
                        up = ir.add(1, ir.const(EPS32)) if i == j else ir.ONE
                        chk.add(Ob('C02.%s.range.%d_%d.%d' % (tag, i, j, kr), hy,
                                   ir.and_(ir.ge(got, -1), ir.le(got, up), ir.not_(values_isnan(got))), function=fq,
                                   free_ufs_ok=True, clause='finite, in [-1, 1] (diagonal <= 1 + ridge)'))
                        if labels[i] in const or labels[j] in const:
                            z0 = ir.ite(ridge, ir.const(EPS32), 0) if i == j else ir.ZERO
                            chk.add(Ob('C02.%s.constant_zero.%d_%d.%d' % (tag, i, j, kr), hy, ir.eq(got, z0),
                                       function=fq, free_ufs_ok=True, replay=corr_replay,
                                       clause='a constant column has zero correlation with everything'))
                    if labels[i] not in const:
                        chk.add(Ob('C02.%s.unit_diagonal.%d.%d' % (tag, i, kr), hy,
                                   ir.eq(R.data[i][i].t, ir.add(1, ir.ite(ridge, ir.const(EPS32), 0))), function=fq,
                                   free_ufs_ok=True, clause='unit diagonal for a non-constant column (up to the ridge)'))
                if kr == 1 and d == 2 and not const:
                    chk.add(Ob('C02.canary.offdiag_is_one', hy, ir.eq(R.data[0][1].t, 1), free_ufs_ok=True, canary=True))
            if kr == 0 and not chk.undecided:
                chk.engine_error('C02.%s: no returning path' % tag)
    chk.lemmas += ['L7 (cited)']
    chk.assumptions += [
        'columns modelled by GaussianUnivariate / UniformUnivariate (the other configurations differ only in which verified '
        'univariate contract supplies F_i); reals, not floats',
        'tables with d = %s columns, any subset of constant columns, n >= 2 rows' % (dims,),
    ]
    chk.not_addressed += [
        {'clause': 'positive semi-definite', 'reason': 'property of the Pearson matrix (assumed contract of corr) carried over by '
         'the cited L7 to the zero-padded and ridged matrix; no separate obligation'},
    ]


def values_isnan(t):
    from pyvc import values
    return values._fn1('isnan', t)
