"""C18 - vectorised root finders return a bracketed root for every lane.

Functions under contract: copulas.optimize.bisect (inductive loop invariant, ghost width bound), copulas.optimize.
chandrupatla (inductive invariant of the while loop; scalar branch == array branch). `f` is an uninterpreted,
lane-specific, non-decreasing real function: F(i, x). Chandrupatla's convergence RATE is a bounded stand-in.
"""
import itertools
from fractions import Fraction

from pyvc import ir, engine, smt
from pyvc.interp import LoopInv
from pyvc.report import Ob
from pyvc.values import Sym, Lane, UFun, IDX, State

LEVEL = 'proof'
TRUSTED = ['L4 (cited, intermediate value theorem): continuous f with f(lo) <= 0 <= f(hi) has a root in [lo, hi]',
           'the halving recurrence Wb(k+1) = Wb(k)/2, Wb(0) = W0 unfolded 50 times (ground instances)']
N = ir.var('n', 'I')
XMIN, XMAX = ir.var('xmin@i'), ir.var('xmax@i')
TOL = ir.const(1e-8)


def wb(k):
    return ir.uf('Wb', [IDX, k])


def wb_axioms(terms, maxiter=50):
    """ground instances of the halving recurrence on the Wb applications that occur (+ the closed form at maxiter)"""
    ax = [ir.eq(wb(ir.ZERO), ir.sub(XMAX, XMIN))]
    ks = set()
    for t in terms:
        for s in ir.subterms(t):
            if s.op == 'uf' and s.args[0] == 'Wb':
                ks.add(s.args[2])
    for k in ks:
        ax.append(ir.eq(wb(ir.add(k, 1)), ir.div(wb(k), 2)))
        ax.append(ir.implies(ir.ge(k, 0), ir.ge(wb(k), 0)))
        if ir._num(k) == maxiter:
            ax.append(ir.eq(wb(k), ir.div(ir.sub(XMAX, XMIN), ir.const(2 ** maxiter))))   # 50-fold unfolding
    return ax


def bisect_inv(F):
    def inv(view):
        xmin, xmax = view.cur['xmin'], view.cur['xmax']
        it = view.ghost['it']
        return [ir.le(XMIN, xmin.t), ir.le(xmin.t, xmax.t), ir.le(xmax.t, XMAX),
                ir.le(F.apply_term(xmin.t), 0), ir.ge(F.apply_term(xmax.t), 0),
                ir.le(ir.sub(xmax.t, xmin.t), wb(it))]
    return inv


def run_bisect(I, F, scenario='valid'):
    I.loop_invs[('copulas.optimize.bisect', 0)] = LoopInv('C18.bisect.inv', bisect_inv(F))

    def body(c):
        n = Sym(N)
        xmin, xmax = Lane(XMIN, n, owner='xmin'), Lane(XMAX, n, owner='xmax')
        c.assume(ir.ge(N, 1))
        c.assume(ir.le(XMIN, XMAX))
        fin = {}
        I.return_hooks['copulas.optimize.bisect'] = lambda loc, rv: fin.update(loc)
        r = I.call_qual('copulas.optimize.bisect', [F, xmin, xmax])
        c.out['final'] = {k: (v.t if isinstance(v, (Lane, Sym)) else v) for k, v in fin.items()
                          if k in ('xmin', 'xmax') or k.startswith('__ghost__')}
        c.out['args_after'] = (xmin.t, xmax.t)
        return r
    return engine.run_paths(I, body)


def native_bisect_suite():
    """native replay / bounded search around a refutation: adversarial batches on the real bisect"""
    import numpy as np
    from copulas.optimize import bisect
    bad = []
    rng = np.random.RandomState(0)
    roots = np.concatenate([rng.uniform(-1, 1, 995), rng.uniform(-300, 300, 5)])
    lo = np.concatenate([roots[:995] - 1e-6, roots[995:] - 400])
    hi = np.concatenate([roots[:995] + 1e-6, roots[995:] + 400])
    for name, f, rt in (('linear', lambda x: (x - roots), roots),
                        ('cubic', lambda x: (x - roots) ** 3, roots),
                        ('steep', lambda x: 1e6 * (x - roots), roots)):
        lo0, hi0 = lo.copy(), hi.copy()
        out = bisect(f, lo, hi)
        if not (np.array_equal(lo, lo0) and np.array_equal(hi, hi0)):
            bad.append('%s: bisect modified its bracket arguments' % name)
            lo, hi = lo0.copy(), hi0.copy()
        err = np.abs(out - rt)
        lim = np.maximum(1e-8, (hi0 - lo0) / 2.0 ** 50)
        if (err > lim).any():
            i = int(np.argmax(err - lim))
            bad.append('%s: lane %d returned %r, root %r, error %.3g > %.3g (bracket width %.3g in a batch of mixed '
                       'widths)' % (name, i, float(out[i]), float(rt[i]), float(err[i]), float(lim[i]),
                                    float(hi0[i] - lo0[i])))
        if ((out < lo0) | (out > hi0)).any():
            bad.append('%s: result outside its bracket' % name)
    # invalid bracket must be rejected
    try:
        bisect(lambda x: x, np.array([1.0, -1.0]), np.array([2.0, 1.0]))
        bad.append('invalid bracket f(xmin) > 0 accepted')
    except AssertionError:
        pass
    try:
        bisect(lambda x: x, np.array([-2.0, -1.0]), np.array([-1.0, 1.0]))
        bad.append('invalid bracket f(xmax) < 0 accepted')
    except AssertionError:
        pass
    return bad


def replay_bisect(env):
    bad = native_bisect_suite()
    return {'confirmed': bool(bad), 'detail': '; '.join(bad) if bad else 'native adversarial suite passed',
            'model': env}


def build(chk):
    I = engine.new_interp()
    src = I.source
    chk.under_contract(src, ['copulas.optimize.bisect', 'copulas.optimize.chandrupatla'])
    F = UFun('f')
    res, ctx = run_bisect(I, F)
    fq = 'copulas.optimize.bisect'
    n_ret = 0
    for r in res:
        if r.outcome == 'unsupported':
            chk.undecided.append(('C18.bisect.exec', 'executor', str(r.value)))
            continue
        allt = list(r.pc) + [o.goal for o in r.obligations]
        for o in r.obligations:          # invariant legs
            terms = o.hyps + [o.goal]
            chk.add(Ob(o.name, o.hyps, o.goal, kind='invariant', function=fq, free_ufs_ok=True,
                       extra_axioms=F.monotone_axioms(terms) + wb_axioms(terms),
                       clause='loop invariant: bracket nested in the original one, sign change kept, width halves',
                       replay=replay_bisect))
        for e in r.events:
            if e.kind == 'mutate':
                chk.add(Ob('C18.bisect.frame.%s' % e.data, e.pc, ir.FALSE, kind='frame', function=fq, free_ufs_ok=True,
                           clause='arguments not modified (shared with C20)', replay=replay_bisect))
        if r.outcome == 'raise':
            # rejection: an AssertionError path is fine (invalid bracket in SOME lane); anything else is not
            if r.value.clsname != 'AssertionError':
                chk.add(Ob('C18.bisect.no_exception.%s' % r.value.clsname, r.pc, ir.FALSE, function=fq,
                           clause='no exception other than the bracket rejection'))
            continue
        if r.outcome != 'return':
            continue
        n_ret += 1
        rt = r.value.t
        fin = r.state['final']
        xmin_f, xmax_f = fin['xmin'], fin['xmax']
        ghost = fin.get('__ghost__C18.bisect.inv', {})
        hy = list(r.pc)
        tag = 'break' if any(ev.kind == 'loop_break' for ev in r.events) else str(n_ret)
        terms = hy + [rt, xmin_f, xmax_f]
        ax = lambda extra: F.monotone_axioms(terms + extra) + wb_axioms(terms + extra)
        # returning => the generic lane had a valid bracket (an invalid bracket is rejected)
        g = ir.and_(ir.le(F.apply_term(XMIN), 0), ir.ge(F.apply_term(XMAX), 0))
        chk.add(Ob('C18.bisect.reject.%d' % n_ret, hy, g, function=fq, free_ufs_ok=True, extra_axioms=ax([g]),
                   clause='an invalid bracket is rejected instead of returning a value', replay=replay_bisect))
        g = ir.and_(ir.le(XMIN, rt), ir.le(rt, XMAX))
        chk.add(Ob('C18.bisect.in_bracket.%d' % n_ret, hy, g, function=fq, free_ufs_ok=True, extra_axioms=ax([g]),
                   clause='result inside the caller bracket', replay=replay_bisect))
        g = ir.and_(ir.le(F.apply_term(xmin_f), 0), ir.ge(F.apply_term(xmax_f), 0), ir.le(xmin_f, rt), ir.le(rt, xmax_f),
                    ir.eq(rt, ir.div(ir.add(xmin_f, xmax_f), 2)))
        chk.add(Ob('C18.bisect.sign_change.%d' % n_ret, hy, g, function=fq, free_ufs_ok=True, extra_axioms=ax([g]),
                   clause='final bracket [xmin_f, xmax_f] keeps a sign change and the result is its midpoint '
                          '(so a root x* lies within half its width, L4)', replay=replay_bisect))
        w = ir.sub(xmax_f, xmin_f)
        g = ir.or_(ir.lt(w, TOL), ir.le(w, ir.div(ir.sub(XMAX, XMIN), ir.const(2 ** 50))))
        chk.add(Ob('C18.bisect.tolerance.%d' % n_ret, hy, g, function=fq, free_ufs_ok=True, extra_axioms=ax([g, wb(ir.const(50))]),
                   clause='final width < 1e-8, or = initial width / 2^50 when the 50 iterations are exhausted '
                          '(every lane, whatever the other lanes do)', replay=replay_bisect))
        if n_ret == 1:
            chk.add(Ob('C18.bisect.canary.result_is_xmin', hy, ir.eq(rt, XMIN), free_ufs_ok=True, canary=True,
                       extra_axioms=ax([])))
            chk.add(Ob('C18.bisect.canary.width_lt_tol_always', hy, ir.lt(w, ir.const(1e-12)), free_ufs_ok=True,
                       canary=True, extra_axioms=ax([])))
    if n_ret == 0 and not chk.undecided:
        chk.engine_error('C18.bisect: no returning path')
    build_chandrupatla(chk, I)
    bounded_chandrupatla(chk)
    bounded_integer_brackets(chk)
    chk.lemmas += ['L4 (cited)']
    chk.assumptions += [
        'reals, not floats (the midpoint is exact; IEEE rounding of (xmin+xmax)/2 is not modelled)',
        'the dtype of the bracket arrays is not modelled (every array of the executor is real-valued): brackets given as '
        'integer-typed ndarrays are covered by the BOUNDED stand-in C18.integer_brackets.bounded only',
        'f is an arbitrary lane-specific non-decreasing function F(i, x) (uninterpreted; monotonicity instantiated on '
        'the occurring applications); continuity enters only through the cited L4',
        'whole-batch reductions (.all(), .max()) are adversarial: each lane is verified for every behaviour of the others',
        'tolerance clause: |result - root| <= width/2 with width < 1e-8 or width = W0/2^50, i.e. 1e-8 in x whenever the '
        'initial bracket width is <= 2^50 * 1e-8 ~ 1.1e7 (stated precondition of the 1e-8 reading)',
    ]
    chk.not_addressed += [
        {'clause': 'chandrupatla: within 1e-9 of the bracket width (or an exact zero) in <= 50 iterations',
         'reason': '(T) convergence rate of the IQI/bisection switch: BOUNDED native stand-in on the generated family'},
        {'clause': 'KDE call site satisfies the bracket precondition', 'reason': 'belongs to C03 (GaussianKDE.percent_point)'},
        {'clause': 'integer-typed bracket arrays', 'reason': 'dtype is outside the real-valued encoding: BOUNDED native stand-in '
         '(both solvers, int64 / int32); it found the truncating in-place narrowing of bisect, repaired in /repo (42bf326)'},
    ]


# ------------------------------------------------------------------------------------------------
# chandrupatla
# ------------------------------------------------------------------------------------------------

def chand_inv(F, scalar):
    lo, hi = (ir.var('xmin'), ir.var('xmax')) if scalar else (XMIN, XMAX)

    def ap(t):
        return F.apply_term(t, scalar=scalar)

    def inv(view):
        c = view.cur
        a, b, cc, fa, fb, fc = [c[k].t for k in ('a', 'b', 'c', 'fa', 'fb', 'fc')]
        out = [ir.le(lo, a), ir.le(a, hi), ir.le(lo, b), ir.le(b, hi), ir.le(lo, cc), ir.le(cc, hi),
               ir.eq(fa, ap(a)), ir.eq(fb, ap(b)), ir.eq(fc, ap(cc)),
               ir.le(ir.mul(ir.sign(fa), ir.sign(fb)), 0),
               ir.le(c['maxiter'].t if isinstance(c['maxiter'], Sym) else ir.const(c['maxiter']), 50)]
        mi = c['maxiter'].t if isinstance(c['maxiter'], Sym) else ir.const(c['maxiter'])
        if 'xm' in c:
            xm = c['xm'].t
            out.append(ir.implies(ir.lt(mi, 50), ir.or_(ir.eq(xm, a), ir.eq(xm, b))))
        return out
    return inv


def chand_observe(view):
    c = view.cur
    return {k: (c[k].t if isinstance(c[k], (Sym, Lane)) else c[k]) for k in ('t', 'a', 'b', 'c', 'fa', 'fb', 'fc', 'xm')
            if k in c}


def run_chand(I, F, scalar):
    shapes = {k: ('real' if scalar else 'lane') for k in ('xt', 'ft', 'xm', 'fm', 'tol', 'tlim', 'xi', 'phi', 'eq1', 'eq2',
                                                           'a2', 'b2', 'c2', 'fa2', 'fb2', 'fc2')}
    shapes.update({'samesign': 'bool' if scalar else 'lanebool', 'fa_is_smaller': 'bool' if scalar else 'lanebool',
                   'iqi': 'bool' if scalar else 'lanebool', 'terminate': 'bool' if scalar else 'lanebool',
                   't': 'real' if scalar else 'lane', '__lane_ref__': 'xmin'})
    I.loop_invs[('copulas.optimize.chandrupatla', 0)] = LoopInv(
        'C18.chandrupatla.inv.%s' % ('scalar' if scalar else 'vector'), chand_inv(F, scalar), shapes=shapes,
        observe=chand_observe)

    def body(c):
        if scalar:
            xmin, xmax = Sym(ir.var('xmin')), Sym(ir.var('xmax'))
            c.assume(ir.le(xmin.t, xmax.t))
        else:
            n = Sym(N)
            xmin, xmax = Lane(XMIN, n, owner='xmin'), Lane(XMAX, n, owner='xmax')
            c.assume(ir.ge(N, 1))
            c.assume(ir.le(XMIN, XMAX))
        fin = {}
        I.return_hooks['copulas.optimize.chandrupatla'] = lambda loc, rv: fin.update(loc)
        r = I.call_qual('copulas.optimize.chandrupatla', [F, xmin, xmax])
        c.out['final'] = {k: (v.t if isinstance(v, (Lane, Sym)) else v) for k, v in fin.items()}
        return r
    return engine.run_paths(I, body, max_paths=400)


def build_chandrupatla(chk, I):
    F = UFun('f')
    fq = 'copulas.optimize.chandrupatla'
    observed = {}
    for scalar in (False, True):
        tag = 'scalar' if scalar else 'vector'
        # the havoc of loop-local lanes needs a reference lane: expose xmin under a stable local name
        res, ctx = run_chand_safe(I, F, scalar)
        lo, hi = (ir.var('xmin'), ir.var('xmax')) if scalar else (XMIN, XMAX)
        nret = 0
        observed[tag] = []
        for r in res:
            if r.outcome == 'unsupported':
                chk.undecided.append(('C18.chandrupatla.%s.exec' % tag, 'executor', str(r.value)))
                continue
            for o in r.obligations:
                chk.add(Ob(o.name + '.' + tag if not o.name.endswith(tag) else o.name, o.hyps, o.goal, kind='invariant',
                           function=fq, free_ufs_ok=True, timeout_ms=30000,
                           clause='while-loop invariant: a, b, c inside the caller bracket, fa=f(a), fb=f(b), fc=f(c), '
                                  'sign(fa)*sign(fb) <= 0, xm in {a, b}'))
            for e in r.events:
                if e.kind == 'mutate':
                    chk.add(Ob('C18.chandrupatla.frame.%s.%s' % (e.data, tag), e.pc, ir.FALSE, kind='frame', function=fq, free_ufs_ok=True,
                               clause='arguments not modified (shared with C20)'))
                if e.kind in ('loop_body_end',):
                    observed[tag].append((e.pc, e.data))
            if r.outcome == 'raise':
                if r.value.clsname != 'AssertionError':
                    chk.add(Ob('C18.chandrupatla.no_exception.%s.%s' % (r.value.clsname, tag), r.pc, ir.FALSE,
                               function=fq, clause='no exception other than the bracket rejection'))
                continue
            if r.outcome != 'return':
                continue
            nret += 1
            rt = r.value.t
            fin = r.state['final']
            hy = list(r.pc)
            ap = lambda t: F.apply_term(t, scalar=scalar)
            g = ir.le(ir.mul(ir.sign(ap(hi)), ir.sign(ap(lo))), 0)
            chk.add(Ob('C18.chandrupatla.reject.%s.%d' % (tag, nret), hy, g, function=fq, free_ufs_ok=True,
                       clause='an invalid bracket (same strict sign at both ends) is rejected'))
            g = ir.and_(ir.le(lo, rt), ir.le(rt, hi))
            chk.add(Ob('C18.chandrupatla.in_bracket.%s.%d' % (tag, nret), hy, g, function=fq, free_ufs_ok=True,
                       clause='result inside the caller bracket'))
            a, b = fin['a'], fin['b']
            g = ir.and_(ir.or_(ir.eq(rt, a), ir.eq(rt, b)), ir.le(ir.mul(ir.sign(ap(a)), ir.sign(ap(b))), 0))
            chk.add(Ob('C18.chandrupatla.result_is_bracket_end.%s.%d' % (tag, nret), hy, g, function=fq, free_ufs_ok=True,
                       clause='result is an end point of a sub-bracket [a,b] of the caller bracket that still has a '
                              'sign change (a root lies between a and b, L4)'))
            if nret == 1:
                chk.add(Ob('C18.chandrupatla.canary.%s.result_is_lo' % tag, hy, ir.eq(rt, lo), free_ufs_ok=True,
                           canary=True))
        if nret == 0 and not chk.undecided:
            chk.engine_error('C18.chandrupatla.%s: no returning path' % tag)
    # scalar input behaves like a one-element vector: the step t chosen at the end of an iteration is the same term
    ren = {}

    def to_lane(t):
        m = {}
        for v in ir.free_vars(t):
            nm = v.args[0]
            if nm.endswith('@i') or nm in ('n',) or nm.startswith('h_maxiter') or nm.startswith('all!') \
                    or nm.startswith('any!'):
                continue
            m[v] = ir.var(nm + '@i', v.sort)
        for x in ir.subterms(t):
            if x.op == 'uf' and x.args[0] == F.name and x.args[1] is ir.ZERO:
                pass
        t2 = ir.substitute(t, m)
        # F(0, x) (scalar call) -> F(i, x) (lane i of the one-element vector)
        cache = {}

        def rw(x):
            if x in cache:
                return cache[x]
            if x.op in ('const', 'var'):
                return x
            args = [rw(a) if isinstance(a, ir.T) else a for a in x.args]
            if x.op == 'uf' and x.args[0] == F.name:
                args[1] = IDX
            r = ir.rebuild(x.op, args, x.sort)
            cache[x] = r
            return r
        return rw(t2)
    k = 0
    for (pcs, ds), (pcv, dv) in itertools.product(observed.get('scalar', []), observed.get('vector', [])):
        if 't' not in ds or 't' not in dv:
            continue
        pcs2 = [to_lane(p) for p in pcs]
        ts = to_lane(ds['t'] if isinstance(ds['t'], ir.T) else ir.const(ds['t']))
        tv = dv['t'] if isinstance(dv['t'], ir.T) else ir.const(dv['t'])
        sat, _ = smt.satisfiable(pcs2 + list(pcv), timeout_ms=5000)
        if sat is False:
            continue
        chk.add(Ob('C18.chandrupatla.scalar_equals_vector.step.%d' % k, pcs2 + list(pcv), ir.eq(ts, tv), function=fq,
                   free_ufs_ok=True, timeout_ms=30000,
                   clause='scalar input behaves like a one-element vector (same interpolation step from the same state)',
                   replay=replay_chand_scalar))
        k += 1
    if k == 0 and not chk.undecided:
        chk.engine_error('C18.chandrupatla: scalar/vector comparison generated no obligation')


def run_chand_safe(I, F, scalar):
    return run_chand(I, F, scalar)


def replay_chand_scalar(env):
    import numpy as np
    from copulas.optimize import chandrupatla
    bad = []
    for name, f, lo, hi in (('cubic', lambda x: (x - 0.3) ** 3, -1.0, 2.0), ('quintic', lambda x: (x + 0.2) ** 5, -1.0, 1.0),
                            ('sinh', lambda x: np.sinh(30 * (x - 0.1)), -1.0, 1.0), ('linear', lambda x: 3 * x - 1, -2.0, 2.0)):
        s = float(chandrupatla(f, lo, hi))
        v = float(chandrupatla(f, np.array([lo]), np.array([hi]))[0])
        if abs(s - v) > 1e-9 * (hi - lo):
            bad.append('%s: scalar call returns %r, one-element vector call returns %r' % (name, s, v))
    return {'confirmed': bool(bad), 'detail': '; '.join(bad) if bad else 'scalar and vector calls agree on the native suite'}


def bounded_integer_brackets(chk):
    """BOUNDED stand-in for the one dimension of the input space the deductive part abstracts away: the dtype of the bracket
    arrays. The executor's arrays are real-valued; a bracket handed over as an INTEGER-typed ndarray (np.arange, np.full(n, 0),
    np.array([0])) is an ordinary element-wise bracket, and a store of a midpoint into such an array truncates."""
    import numpy as np
    from copulas.optimize import bisect, chandrupatla
    rng = np.random.RandomState(chk.seed or 0)
    nfun = 12 if chk.tier == 'quick' else 300
    evals = 0
    reported = set()
    for k in range(nfun):
        n = int(rng.choice([1, 2, 7, 100, 1000]))
        lo = rng.randint(-5, 3, n)
        hi = lo + rng.randint(1, 12, n)
        roots = lo + rng.uniform(0.02, 0.98, n) * (hi - lo)
        slopes = 10.0 ** rng.uniform(-3, 3, n)
        kind = str(rng.choice(['linear', 'cubic', 'tanh']))
        f = {'linear': lambda x: slopes * (x - roots), 'cubic': lambda x: slopes * (x - roots) ** 3,
             'tanh': lambda x: np.tanh(slopes * (x - roots))}[kind]
        for solver, name in ((bisect, 'bisect'), (chandrupatla, 'chandrupatla')):
            for dt in ('int64', 'int32'):
                a, b = lo.astype(dt), hi.astype(dt)
                with np.errstate(all='ignore'):
                    out = np.asarray(solver(f, a.copy(), b.copy()), dtype=float)
                    fo = f(out)
                evals += n
                width = (hi - lo).astype(float)
                if name == 'bisect':
                    ok = np.abs(out - roots) <= 1e-8
                else:
                    ok = (np.abs(out - roots) <= 1e-9 * width) | (fo == 0)
                ok &= (out >= lo) & (out <= hi)
                if not ok.all() and name not in reported:
                    reported.add(name)
                    i = int(np.where(~ok)[0][0])
                    chk.bounded_violation('C18.%s.integer_brackets.bounded' % name,
                                          {'solver': name, 'dtype': dt, 'kind': kind, 'n': n, 'lane': i, 'lo': int(lo[i]),
                                           'hi': int(hi[i]), 'root': float(roots[i]), 'slope': float(slopes[i])},
                                          '%s(f, xmin, xmax) with %s brackets [%d, %d] returned %r; the root is %r (error '
                                          '%.3g)' % (name, dt, lo[i], hi[i], float(out[i]), float(roots[i]),
                                                     abs(float(out[i] - roots[i]))))
    chk.bounded.append({'name': 'C18.integer_brackets.bounded', 'clause': 'a root within tolerance, inside the bracket, for '
                        'brackets given as integer-typed arrays', 'bound': '%d generated vector functions (linear/cubic/'
                        'tanh, slopes 1e-3..1e3, lengths 1..1000) x {bisect, chandrupatla} x {int64, int32} brackets, seed %d'
                        % (nfun, chk.seed or 0), 'evaluations': evals, 'distinct_nontrivial': nfun * 4,
                        'rule': 'one case = one generated vector function with one solver and one dtype; evaluations counts '
                                'lanes'})


def bounded_chandrupatla(chk):
    """BOUNDED stand-in for the convergence-rate clause: the generated family of the quantifier, natively."""
    import numpy as np
    from copulas.optimize import chandrupatla
    rng = np.random.RandomState(chk.seed or 0)
    nfun = 40 if chk.tier == 'quick' else 2000
    evals = 0
    distinct = set()
    reported = False
    for k in range(nfun):
        n = int(rng.choice([1, 2, 7, 100, 1000]))
        roots = rng.uniform(-3, 3, n)
        slopes = 10.0 ** rng.uniform(-6, 6, n)
        kind = rng.choice(['linear', 'cubic', 'tanh', 'exp', 'end'])
        lo = roots - rng.uniform(0.1, 5, n)
        hi = roots + rng.uniform(0.1, 5, n)
        if kind == 'linear':
            f = lambda x: slopes * (x - roots)
        elif kind == 'cubic':
            f = lambda x: slopes * (x - roots) ** 3
        elif kind == 'tanh':
            f = lambda x: np.tanh(slopes * (x - roots))
        elif kind == 'exp':
            f = lambda x: np.expm1(np.clip(x - roots, -50, 50))
        else:
            f = lambda x: slopes * (x - roots)
            lo = roots.copy()
        with np.errstate(all='ignore'):
            out = chandrupatla(f, lo.copy(), hi.copy())
            fo = f(out)
        evals += n
        distinct.add((kind, n, k))
        width = hi - lo
        ok = ((np.abs(out - roots) <= 1e-9 * width) | (fo == 0)) & (out >= lo) & (out <= hi)
        if not ok.all() and not reported:
            i = int(np.where(~ok)[0][0])
            reported = True
            chk.bounded_violation('C18.chandrupatla.rate.bounded', {'kind': str(kind), 'n': n, 'lane': i, 'root': float(roots[i]),
                                  'lo': float(lo[i]), 'hi': float(hi[i]), 'slope': float(slopes[i])},
                                  'returned %r: |x - root| = %.3g > 1e-9 * width %.3g and f(x) = %r != 0' %
                                  (float(out[i]), abs(float(out[i] - roots[i])), float(width[i]), float(fo[i])))
    chk.bounded.append({'name': 'C18.chandrupatla.rate.bounded', 'clause': 'within 1e-9 of the bracket width or an exact '
                        'zero, inside the bracket', 'bound': '%d generated vector functions (linear/cubic/tanh/exp/root at '
                        'bracket end, slopes 1e-6..1e6, lengths 1..1000), seed %d' % (nfun, chk.seed or 0),
                        'evaluations': evals, 'distinct_nontrivial': len(distinct),
                        'rule': 'one case = one generated vector function (kind, length, index); evaluations counts lanes'})
