"""entry point of every registered check:  python -m contracts.run Cxx [--tier quick|thorough] [--replay FILE]"""
import argparse
import importlib
import json
import os
import sys
import traceback

sys.path.insert(0, os.environ.get('COPULAS_REPO', '/repo'))
sys.set_int_max_str_digits(0)


def main():
    ap = argparse.ArgumentParser()
    ap.add_argument('prop')
    ap.add_argument('--tier', default=os.environ.get('VERIF_TIER', 'quick'))
    ap.add_argument('--replay')
    a = ap.parse_args()
    seed = int(os.environ.get('VERIF_SEED', '0') or 0)
    from pyvc import report
    mod = importlib.import_module('contracts.' + a.prop)
    if a.replay:
        sys.exit(replay(mod, a.replay))
    chk = report.Check(a.prop, a.tier if a.tier in ('quick', 'thorough') else 'quick', seed)
    try:
        mod.build(chk)
        cmd = './bin/check %s --tier %s' % (a.prop, chk.tier)
        code = chk.finish(cmd, level=getattr(mod, 'LEVEL', 'proof'), trusted=getattr(mod, 'TRUSTED', []))
    except Exception:
        print('ENGINE-ERROR ' + traceback.format_exc()[-3000:])
        code = 3
    sys.exit(code)


def replay(mod, path):
    """re-run the native replay recorded in a replay file against the current /repo"""
    with open(path) as f:
        rep = json.load(f)
    fn = getattr(mod, 'replay', None)
    if fn is None:
        print('no native replay defined for this property; recorded result:', json.dumps(rep.get('native_replay')))
        return 0
    res = fn(rep)
    print(json.dumps(res, indent=1, default=str))
    if res.get('confirmed'):
        print('VIOLATION property=%s replay=%s' % (rep['property'], path))
        return 1
    return 0


if __name__ == '__main__':
    main()
