"""entry point of every registered check:  python -m contracts.run Cxx [--tier quick|thorough] [--replay FILE]"""
import argparse
import importlib
import json
import os
import sys
import traceback

sys.path.insert(0, os.environ.get('COPULAS_REPO', '/repo'))
sys.set_int_max_str_digits(0)


def main():
    ap = argparse.ArgumentParser()
    ap.add_argument('prop')
    ap.add_argument('--tier', default=os.environ.get('VERIF_TIER', 'quick'))
    ap.add_argument('--replay')
    a = ap.parse_args()
    seed = int(os.environ.get('VERIF_SEED', '0') or 0)
    from pyvc import report
    mod = importlib.import_module('contracts.' + a.prop)
    if a.replay:
        sys.exit(replay(mod, a.replay))
    chk = report.Check(a.prop, a.tier if a.tier in ('quick', 'thorough') else 'quick', seed)
    try:
        mod.build(chk)
        cmd = './bin/check %s --tier %s' % (a.prop, chk.tier)
        code = chk.finish(cmd, level=getattr(mod, 'LEVEL', 'proof'), trusted=getattr(mod, 'TRUSTED', []))
    except Exception:
        print('ENGINE-ERROR ' + traceback.format_exc()[-3000:])
        code = 3
    sys.exit(code)


def replay(mod, path):
    """re-run the native replay of the obligation named in a replay file against the current /repo: the obligations are
    regenerated from the current source, the one with the recorded name is looked up and its native driver is run on the
    recorded counter-model"""
    from pyvc import report
    with open(path) as f:
        rep = json.load(f)
    if rep.get('kind') == 'bounded' or 'obligation' not in rep:
        print('bounded stand-in / recorded finding; recorded result:', json.dumps(rep.get('native_replay') or rep, default=str)[:2000])
        return 1 if (rep.get('native_replay') or {}).get('confirmed') else 0
    chk = report.Check(rep.get('property', 'C00'), 'quick', 0)
    mod.build(chk)
    want = rep['obligation']
    ob = next((o for o in chk.obs if o.name == want), None)
    if ob is None:
        import fnmatch
        ob = next((o for o in chk.obs if fnmatch.fnmatch(o.name, want)), None)
    if ob is None or ob.replay is None:
        print('obligation %s %s; recorded result: %s' % (want, 'is not generated from the current source' if ob is None else
                                                       'has no native driver', json.dumps(rep.get('native_replay'), default=str)))
        return 0
    model = rep.get('model') or {}
    res = ob.replay(model.get('env', model) if isinstance(model, dict) else {})
    print(json.dumps(res, indent=1, default=str))
    if res.get('confirmed'):
        print('VIOLATION property=%s replay=%s' % (rep['property'], path))
        return 1
    return 0


if __name__ == '__main__':
    main()
