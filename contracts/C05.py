"""C05 - marginal model choice: best-KS candidate, filters, per-column configuration, Gaussian fallback.

Functions under contract: univariate.selection.select_univariate (inductive loop invariant over a candidate list of
ARBITRARY length with arbitrary fit failures and KS values), Univariate._select_candidates / __init__ (exhaustive over
the finite filter space, against the tags parsed from the class table), GaussianMultivariate._get_distribution_for_
column / _fit_column / _fit_with_fallback_distribution, utils.get_instance (every prototype form).
"""
import itertools
from fractions import Fraction

from pyvc import ir, engine, smt, libmodel
from pyvc.interp import LoopInv, Obj, ClassVal, PyRaise, make_exc, PyList
from pyvc.report import Ob
from pyvc.values import Sym, Lane, Opaque, State
from . import uni
from .uni import CLASSES, term

LEVEL = 'proof'
TRUSTED = ['scipy.stats.kstest: assumed contract (deterministic KS distance >= 0 of the fitted cdf on the data)',
           'a candidate is abstract: get_instance(candidate j) / fit / cdf have uninterpreted outcomes ok(j), ks(j)']
SEL = 'copulas.univariate.selection.select_univariate'
NC = ir.var('ncand', 'I')
JSTAR = ir.var('jstar', 'I')


def ok(j):
    return ir.uf('fit_ok', [j], 'B')


def ks(j):
    return ir.uf('ks', [j])


class CandRef(object):
    """candidate number idx of the abstract candidate list (idx == -1 stands for None)"""
    def __init__(self, idx):
        self.idx = idx

    def __repr__(self):
        return 'CandRef(%s)' % ir.show(self.idx)


class CandInstance(object):
    def __init__(self, idx, fitted=False):
        self.idx, self.fitted = idx, fitted

    def sym_getattr(self, interp, name):
        if name == 'fit':
            def fit(X):
                if not State.ctx.branch(ok(self.idx)):
                    raise PyRaise(make_exc('RuntimeError', 'candidate cannot be fitted'))
                self.fitted = True
            return fit
        if name in ('cdf', 'cumulative_distribution'):
            return CandCdf(self.idx)
        raise engine.paths.Unsupported('abstract candidate instance .' + name)


class CandCdf(object):
    def __init__(self, idx):
        self.idx = idx


class CandList(object):
    def sym_seq_len(self):
        return Sym(NC)

    def sym_seq_elem(self, k):
        return CandRef(k.t)


def get_instance_summary(real):
    def summ(interp, args, kwargs):
        obj = args[0]
        if isinstance(obj, CandRef):
            interp.ctx_out = getattr(interp, 'ctx_out', None)
            return CandInstance(obj.idx)
        if obj is None:
            return None
        return real(interp, args, kwargs)
    return summ


def build(chk):
    I = engine.new_interp()
    src = I.source
    chk.under_contract(src, [SEL, uni.BASE + 'Univariate._select_candidates', uni.BASE + 'Univariate.__init__',
                             'copulas.multivariate.gaussian.GaussianMultivariate._get_distribution_for_column',
                             'copulas.multivariate.gaussian.GaussianMultivariate._fit_column',
                             'copulas.multivariate.gaussian.GaussianMultivariate._fit_with_fallback_distribution',
                             'copulas.utils.get_instance', 'copulas.utils.store_args'])
    build_select(chk)
    build_wrapper_fit(chk)
    build_candidates(chk)
    build_get_instance(chk)
    build_fit_column(chk)
    chk.assumptions += [
        'candidates are abstract: fitting candidate j succeeds iff ok(j), its KS distance is ks(j) (both arbitrary)',
        'reals not floats; np.inf compares above every finite KS value',
    ]


def build_select(chk):
    I = engine.new_interp()
    mod = I.module('copulas.univariate.selection')

    def real_get_instance(interp, args, kwargs):
        f = interp.module('copulas.utils').env.vars['get_instance']
        saved = interp.summaries.pop('copulas.utils.get_instance')
        try:
            return interp.call(f, args, kwargs)
        finally:
            interp.summaries['copulas.utils.get_instance'] = saved
    I.summaries['copulas.utils.get_instance'] = get_instance_summary(real_get_instance)
    # kstest on an abstract candidate's cdf
    st = libmodel.SCIPY_STATS._table
    orig_ks = st['kstest']

    def kstest(X, cdf, *a, **k):
        if isinstance(cdf, CandCdf):
            return libmodel.TupleLike([Sym(ks(cdf.idx)), Sym(ir.uf('ks.p', [cdf.idx]))])
        return orig_ks(X, cdf, *a, **k)
    mod.env.vars['kstest'] = kstest

    # the invariant talks about two loop-carried locals by ROLE, not by name: in the loop body, the `if a < b:` whose body
    # assigns `b = a` identifies the running minimum b (and a); the other assignment in that `if` is the running argmin
    import ast as _ast
    fnode = I.resolve(SEL).node
    names = {'best_ks': 'best_ks', 'best_model': 'best_model', 'ks': 'ks', 'instance': 'instance'}
    for n_ in _ast.walk(fnode):
        if isinstance(n_, _ast.If) and isinstance(n_.test, _ast.Compare) and len(n_.test.ops) == 1 and \
                isinstance(n_.test.ops[0], _ast.Lt) and isinstance(n_.test.left, _ast.Name) and \
                isinstance(n_.test.comparators[0], _ast.Name):
            a_, b_ = n_.test.left.id, n_.test.comparators[0].id
            asg = [x for x in n_.body if isinstance(x, _ast.Assign) and len(x.targets) == 1 and isinstance(x.targets[0], _ast.Name)]
            if any(x.targets[0].id == b_ and isinstance(x.value, _ast.Name) and x.value.id == a_ for x in asg):
                other = [x for x in asg if x.targets[0].id != b_]
                names.update({'best_ks': b_, 'ks': a_})
                if other:
                    names['best_model'] = other[0].targets[0].id
    for n_ in _ast.walk(fnode):
        if isinstance(n_, _ast.Assign) and isinstance(n_.value, _ast.Call) and isinstance(n_.value.func, _ast.Name) and \
                n_.value.func.id == 'get_instance' and isinstance(n_.targets[0], _ast.Name) and \
                any(isinstance(p_, _ast.For) and n_ in _ast.walk(p_) for p_ in _ast.walk(fnode)):
            names['instance'] = n_.targets[0].id
    BK, BM = names['best_ks'], names['best_model']

    def inv(view):
        c = view.cur
        it, bk = view.ghost['it'], view.ghost['bk']
        bks = c[BK].t if isinstance(c[BK], Sym) else ir.const(c[BK])
        bm = c[BM]
        bm_idx = bm.idx if isinstance(bm, CandRef) else ir.const(-1)
        return [ir.ge(bk, -1), ir.lt(bk, it), ir.eq(bm_idx, bk),
                ir.implies(ir.eq(bk, -1), ir.eq(bks, ir.INF)),
                ir.implies(ir.ge(bk, 0), ir.and_(ok(bk), ir.eq(bks, ks(bk)))),
                ir.implies(ir.and_(ir.ge(JSTAR, 0), ir.lt(JSTAR, it), ok(JSTAR)), ir.le(bks, ks(JSTAR)))]

    def ghost_init(view):
        return {'bk': ir.const(-1)}

    def ghost_step(view):
        return [{'bk': view.ghost['bk']}, {'bk': view.ghost['it']}]
    I.loop_invs[(SEL, 0)] = LoopInv('C05.select_univariate.inv', inv, ghost_init=ghost_init, ghost_step=ghost_step,
                                    ghost_sorts={'bk': 'I'},
                                    havoc={BM: lambda c: CandRef(c.fresh('h_best_model', 'I')),
                                           BK: lambda c: Sym(c.fresh('h_best_ks')),
                                           names['instance']: lambda c: None, names['ks']: lambda c: Sym(c.fresh('h_ks')),
                                           '_': lambda c: None})

    def body(c):
        c.assume(ir.ge(NC, 0))
        X = uni.data_lane()
        fin = {}
        I.return_hooks[SEL] = lambda loc, rv: fin.update(loc)
        r = I.call_qual(SEL, [X, CandList()])
        c.out['fin'] = dict(fin)
        return r
    try:
        res, ctx = engine.run_paths(I, body)
    except KeyError as e:
        # the invariant names locals of the loop (best_ks, best_model): a refactoring that renames them needs the
        # contract updated; nothing is concluded from the invariant then (the unrolled check below still runs)
        chk.undecided.append(('C05.select_univariate.inv', 'contract', 'loop invariant refers to a local that no longer '
                              'exists: %s' % e))
        res = []
    # independent of local names: the same postconditions on unrolled candidate lists of length 0..3 (bounded)
    I.loop_invs.pop((SEL, 0), None)
    for klen in range(0, 4):
        def body_k(c, klen=klen):
            X = uni.data_lane()
            return I.call_qual(SEL, [X, PyList([CandRef(ir.const(j)) for j in range(klen)])])
        resk, _ = engine.run_paths(I, body_k)
        for q, r in enumerate(resk):
            nm = 'C05.select_univariate.unrolled.len%d.path%d' % (klen, q)
            if r.outcome == 'unsupported':
                chk.undecided.append((nm, 'executor', str(r.value)))
                continue
            if r.outcome != 'return':
                chk.add(Ob(nm + '.no_exception', r.pc, ir.FALSE, function=SEL, free_ufs_ok=True,
                           clause='failures of individual candidates are skipped, never propagated',
                           replay=select_replay))
                continue
            v = r.value
            fits = [ok(ir.const(j)) for j in range(klen)]
            if isinstance(v, CandInstance):
                goal = ir.and_(ir.const(v.fitted is False), ir.ge(v.idx, 0), ir.lt(v.idx, klen), ok(v.idx),
                               *[ir.implies(ok(ir.const(j)), ir.le(ks(v.idx), ks(ir.const(j)))) for j in range(klen)])
            elif v is None:
                goal = ir.and_(*[ir.not_(f) for f in fits]) if fits else ir.TRUE
            else:
                goal = ir.FALSE
            chk.add(Ob(nm + '.best_ks_fresh_instance', r.pc, goal, function=SEL, free_ufs_ok=True,
                       clause='(lists of length %d) returns a new unfitted instance of a fittable candidate with minimal KS '
                              'distance; None only if nothing can be fitted' % klen, replay=select_replay))
    mod.env.vars['kstest'] = orig_ks
    nret = 0
    for r in res:
        if r.outcome == 'unsupported':
            chk.undecided.append(('C05.select_univariate.exec', 'executor', str(r.value)))
            continue
        for o in r.obligations:
            chk.add(Ob(o.name, o.hyps, o.goal, kind='invariant', function=SEL, free_ufs_ok=True,
                       clause='loop invariant: best_ks is the minimum KS over the candidates fitted so far, best_model the '
                              'candidate attaining it (None if none could be fitted)'))
        if r.outcome == 'raise':
            chk.add(Ob('C05.select_univariate.no_exception.%s' % r.value.clsname, r.pc, ir.FALSE, function=SEL,
                       free_ufs_ok=True, clause='failures of individual candidates are skipped, never propagated'))
            continue
        if r.outcome != 'return':
            continue
        nret += 1
        ghost = r.state['fin'].get('__ghost__C05.select_univariate.inv', {})
        bk = ghost.get('bk')
        v = r.value
        hy = list(r.pc)
        if isinstance(v, CandInstance):
            chk.add(Ob('C05.select_univariate.returns_fresh_best.%d' % nret, hy,
                       ir.and_(ir.eq(v.idx, bk), ir.const(v.fitted is False)), function=SEL, free_ufs_ok=True,
                       clause='returns a NEW, unfitted instance of the best candidate (not the instance used for scoring)'))
            chk.add(Ob('C05.select_univariate.best_is_fitted_candidate.%d' % nret, hy,
                       ir.and_(ir.ge(v.idx, 0), ir.lt(v.idx, NC), ok(v.idx)), function=SEL, free_ufs_ok=True,
                       clause='the selected family is one of the candidates and could be fitted'))
            chk.add(Ob('C05.select_univariate.minimal_ks.%d' % nret,
                       hy + [ir.ge(JSTAR, 0), ir.lt(JSTAR, NC), ok(JSTAR)], ir.le(ks(v.idx), ks(JSTAR)), function=SEL,
                       free_ufs_ok=True, clause='no candidate that can be fitted has a strictly smaller KS distance',
                       replay=select_replay))
            if nret == 1 or True:
                chk.add(Ob('C05.select_univariate.canary.is_first_candidate.%d' % nret, hy + [ir.gt(NC, 1)],
                           ir.eq(v.idx, 0), free_ufs_ok=True, canary=True))
        elif v is None:
            chk.add(Ob('C05.select_univariate.none_only_if_nothing_fits.%d' % nret,
                       hy + [ir.ge(JSTAR, 0), ir.lt(JSTAR, NC)], ir.not_(ok(JSTAR)), function=SEL, free_ufs_ok=True,
                       clause='no model is returned only when no candidate could be fitted'))
        else:
            chk.add(Ob('C05.select_univariate.result_kind.%d' % nret, [], ir.FALSE, backends=('syntactic',), function=SEL,
                       clause='returns an instance obtained from get_instance(best candidate) [%r]' % (v,)))
    if nret == 0 and not chk.undecided:
        chk.engine_error('C05.select_univariate: no returning path')


def select_replay(env):
    import numpy as np
    import warnings
    warnings.simplefilter('ignore')
    from scipy.stats import kstest
    from copulas.univariate.selection import select_univariate
    from copulas.univariate import GaussianUnivariate, UniformUnivariate, StudentTUnivariate, BetaUnivariate, \
        TruncatedGaussian, GaussianKDE
    rs = np.random.RandomState(0)
    bad = []
    cases = [('exponential n=20000', rs.exponential(size=20000), [UniformUnivariate, GaussianUnivariate, StudentTUnivariate]),
             ('two clusters', np.concatenate([rs.normal(0, .3, 3000), rs.normal(8, .3, 3000)]),
              [BetaUnivariate, TruncatedGaussian]),
             ('bimodal small', np.concatenate([rs.normal(0, 1, 150), rs.normal(10, 1, 150)]),
              [GaussianUnivariate, GaussianKDE])]
    for name, X, cands in cases:
        sel = select_univariate(X, cands)
        if getattr(sel, 'fitted', False):
            bad.append('%s: the returned instance is already fitted (not a new instance)' % name)
        score = {}
        for c in cands:
            try:
                m = c()
                m.fit(X)
                score[c.__name__] = kstest(X, m.cdf)[0]
            except Exception:
                pass
        best = min(score.values())
        if score.get(type(sel).__name__, 9) > best + 1e-12:
            bad.append('%s: selected %s with KS %.4f, but %r' % (name, type(sel).__name__, score.get(type(sel).__name__, -1),
                                                                 score))
    return {'confirmed': bool(bad), 'detail': '; '.join(bad) if bad else 'native selection picks the minimal-KS candidate'}


def build_wrapper_fit(chk):
    """Univariate.fit: EVERY call hands its own data and the candidate list to select_univariate (whose contract is
    verified above) and installs the instance it returns, fitted on that data - also the second fit of the same object"""
    I = engine.new_interp()
    UNIV = uni.BASE + 'Univariate'
    calls = []

    def select_summary(interp, args, kwargs):
        inst = uni.new_model(interp, 'GaussianUnivariate')
        calls.append((args[0], args[1] if len(args) > 1 else kwargs.get('candidates'), inst))
        return inst
    I.summaries[SEL] = select_summary

    def body(c):
        del calls[:]
        c.assume(ir.ge(uni.N, 2))
        c.assume(ir.gt(ir.uf('n_unique', [uni.XW], 'I'), 1))
        ny = Sym(ir.var('ny', 'I'))
        c.assume(ir.ge(ny.t, 2))
        c.assume(ir.gt(ir.uf('n_unique', [ir.var('y', 'U')], 'I'), 1))
        m = I.call_qual(UNIV, [], {})
        Y, X = Lane(ir.var('y@i'), ny), uni.data_lane()
        I.call_method(m, 'fit', [Y])
        first = list(calls)
        I.call_method(m, 'fit', [X])
        c.out['calls'] = list(calls)
        c.out['first'] = first
        c.out['X'], c.out['Y'] = X, Y
        c.out['inst'] = m.attrs.get('_instance')
        c.out['cands'] = I.call_method(m, '_select_candidates', [])
        return None
    res, _ = engine.run_paths(I, body)
    k = 0
    for r in res:
        if r.outcome == 'unsupported':
            chk.undecided.append(('C05.wrapper.refit.exec', 'executor', str(r.value)))
            continue
        if r.outcome != 'return':
            chk.add(Ob('C05.wrapper.refit.no_exception.%s' % getattr(r.value, 'clsname', '?'), r.pc, ir.FALSE, function=UNIV + '.fit',
                       free_ufs_ok=True, clause='fitting twice succeeds'))
            continue
        k += 1
        st = r.state
        cs = st['calls']

        def same_data(a, b):
            return isinstance(a, Lane) and isinstance(b, Lane) and a.t is b.t
        ok = len(cs) == 2 and same_data(cs[0][0], st['Y']) and same_data(cs[1][0], st['X']) and st['inst'] is cs[1][2]
        chk.add(Ob('C05.wrapper.refit.selects_again.%d' % k, [], ir.const(bool(ok)), backends=('syntactic',),
                   function=UNIV + '.fit', replay=select_replay if 'select_replay' in globals() else None,
                   clause='each of two successive fit calls on one Univariate runs select_univariate on ITS data and installs the '
                          'instance that call returned [%d selection calls]' % len(cs)))
        inst = st['inst']
        fitted_on_x = isinstance(inst, Obj) and inst.attrs.get('fitted') is True
        chk.add(Ob('C05.wrapper.refit.instance_fitted.%d' % k, [], ir.const(bool(fitted_on_x)), backends=('syntactic',),
                   function=UNIV + '.fit', clause='the installed instance is fitted'))
    if k == 0 and not chk.undecided:
        chk.engine_error('C05.wrapper.refit: no returning path')


def build_candidates(chk):
    """_select_candidates / __init__ against the class tags, exhaustively over the filter space"""
    I = engine.new_interp()
    umod = I.module('copulas.univariate')
    base = I.module('copulas.univariate.base')
    Univ = base.env.vars['Univariate']
    PT, BT = base.env.vars['ParametricType'], base.env.vars['BoundedType']
    fams = {name: I.resolve(q) for name, (q, d) in CLASSES.items()}
    tags = {name: (c.lookup('PARAMETRIC')[0], c.lookup('BOUNDED')[0]) for name, c in fams.items()}
    n = 0
    for par, bnd in itertools.product([None] + list(PT), [None] + list(BT)):
        want = sorted(name for name, (p, b) in tags.items() if (par is None or p == par) and (bnd is None or b == bnd))

        def body(c, par=par, bnd=bnd):
            got = I.call(I.getattr(Univ, '_select_candidates'), [par, bnd], {})
            return [g.name for g in got]
        res, ctx = engine.run_paths(I, body)
        n += 1
        for r in res:
            okk = r.outcome == 'return' and sorted(r.value) == want and len(set(r.value)) == len(r.value)
            chk.add(Ob('C05._select_candidates.%s.%s' % (getattr(par, 'name', 'None'), getattr(bnd, 'name', 'None')), [],
                       ir.const(bool(okk)), backends=('syntactic',), function=uni.BASE + 'Univariate._select_candidates',
                       clause='candidate set = the concrete families whose PARAMETRIC/BOUNDED tags match the filters '
                              '[got %s, tags give %s]' % (r.value if r.outcome == 'return' else r.outcome, want)))
    # explicit list wins; filters used otherwise
    G, B = fams['GaussianUnivariate'], fams['BetaUnivariate']

    def body2(c):
        u1 = I.call(Univ, [], {'candidates': PyList([G, B]), 'parametric': list(PT)[0]})
        u2 = I.call(Univ, [], {'bounded': [b for b in BT if b.name == 'BOUNDED'][0]})
        return ([x.name for x in u1.attrs['candidates']], sorted(x.name for x in u2.attrs['candidates']))
    res, ctx = engine.run_paths(I, body2)
    for r in res:
        want2 = sorted(nm for nm, (p, b) in tags.items() if b.name == 'BOUNDED')
        okk = r.outcome == 'return' and r.value[0] == ['GaussianUnivariate', 'BetaUnivariate'] and r.value[1] == want2
        chk.add(Ob('C05.Univariate.init.candidates', [], ir.const(bool(okk)), backends=('syntactic',),
                   function=uni.BASE + 'Univariate.__init__',
                   clause='an explicit candidate list is honoured as given; otherwise the filters select the set '
                          '[%r]' % (r.value if r.outcome == 'return' else r.outcome,)))


def build_get_instance(chk):
    """get_instance: name / class / instance prototypes (positional, keyword and mixed constructor arguments)"""
    I = engine.new_interp()
    I.module('copulas.univariate')
    GI = 'copulas.utils.get_instance'
    A, Bv, S = ir.var('proto_min'), ir.var('proto_max'), ir.var('proto_ss', 'I')
    TG, KDE, UNIVq = CLASSES['TruncatedGaussian'][0], CLASSES['GaussianKDE'][0], uni.BASE + 'Univariate'
    G = None

    def protos(I):
        Gc = I.resolve(CLASSES['GaussianUnivariate'][0])
        Bc = I.resolve(CLASSES['BetaUnivariate'][0])
        base = I.module('copulas.univariate.base')
        PT = base.env.vars['ParametricType']
        return [
            ('name', lambda: 'copulas.univariate.gaussian_kde.GaussianKDE', 'GaussianKDE', {}),
            ('class', lambda: I.resolve(TG), 'TruncatedGaussian', {'min': None, 'max': None}),
            ('instance_kw', lambda: I.call_qual(TG, [], {'minimum': Sym(A), 'maximum': Sym(Bv)}), 'TruncatedGaussian',
             {'min': A, 'max': Bv}),
            ('instance_pos', lambda: I.call_qual(TG, [Sym(A), Sym(Bv)]), 'TruncatedGaussian', {'min': A, 'max': Bv}),
            ('instance_mixed', lambda: I.call_qual(TG, [Sym(A)], {'maximum': Sym(Bv)}), 'TruncatedGaussian',
             {'min': A, 'max': Bv}),
            ('kde_mixed', lambda: I.call_qual(KDE, [Sym(S)], {'bw_method': 'silverman'}), 'GaussianKDE',
             {'_sample_size': S, 'bw_method': 'silverman'}),
            ('univariate_mixed', lambda: I.call_qual(UNIVq, [PyList([Gc, Bc])], {'parametric': list(PT)[1]}), 'Univariate',
             {'candidates': ['GaussianUnivariate', 'BetaUnivariate']}),
            ('no_store_args', lambda: I.call_qual(CLASSES['GaussianUnivariate'][0], []), 'GaussianUnivariate', {}),
        ]
    for idx in range(8):
        for fitted in (False, True):
            def body(c, idx=idx, fitted=fitted):
                tag, mk, cname, want = protos(I)[idx]
                proto = mk()
                if fitted and isinstance(proto, Obj):
                    proto.attrs['fitted'] = True
                    proto.attrs['_params'] = {'loc': Sym(ir.var('stale_loc')), 'scale': Sym(ir.var('stale_scale'))}
                    proto.attrs['_instance'] = 'stale'
                new = I.call_qual(GI, [proto])
                c.out['tag'], c.out['cname'], c.out['want'] = tag, cname, want
                c.out['same'] = new is proto
                c.out['cls'] = new.cls.name if isinstance(new, Obj) else repr(new)
                c.out['fitted'] = I.getattr(new, 'fitted') if isinstance(new, Obj) else None
                c.out['attrs'] = dict(new.attrs) if isinstance(new, Obj) else {}
                c.out['shares'] = isinstance(new, Obj) and isinstance(proto, Obj) and any(
                    isinstance(v, (list, dict)) and any(v is w for w in proto.attrs.values()) for v in new.attrs.values())
                return new
            res, ctx = engine.run_paths(I, body)
            for r in res:
                st = r.state or {}
                tag = st.get('tag', 'proto%d' % idx) + ('.fitted' if fitted else '')
                if r.outcome == 'unsupported':
                    chk.undecided.append(('C05.get_instance.%s.exec' % tag, 'executor', str(r.value)))
                    continue
                if r.outcome != 'return':
                    chk.add(Ob('C05.get_instance.%s.no_exception' % tag, r.pc, ir.FALSE, function=GI, free_ufs_ok=True,
                               clause='get_instance succeeds for this prototype form [%s]' % (r.value,)))
                    continue
                good = (not st['same']) and st['cls'] == st['cname'] and st['fitted'] is False and \
                    '_params' not in st['attrs'] and st['attrs'].get('_instance') != 'stale' and not st['shares']
                chk.add(Ob('C05.get_instance.%s.new_unfitted_same_class' % tag, [], ir.const(bool(good)),
                           backends=('syntactic',), function=GI,
                           clause='returns a NEW unfitted object of the prototype\'s class sharing no mutable state '
                                  '[class %s, fitted %r, same object %r]' % (st['cls'], st['fitted'], st['same']),
                           replay=get_instance_replay))
                for k, wv in st['want'].items():
                    gv = st['attrs'].get(k, '<missing>')
                    if isinstance(wv, ir.T):
                        goal = ir.eq(term(gv), wv) if isinstance(gv, (Sym, int, float)) else ir.FALSE
                        chk.add(Ob('C05.get_instance.%s.config.%s' % (tag, k), r.pc, goal, function=GI, free_ufs_ok=True,
                                   clause='configured like the prototype: %s' % k, replay=get_instance_replay))
                    else:
                        if isinstance(gv, list):
                            gv = [getattr(x, 'name', x) for x in gv]
                        chk.add(Ob('C05.get_instance.%s.config.%s' % (tag, k), [], ir.const(gv == wv),
                                   backends=('syntactic',), function=GI,
                                   clause='configured like the prototype: %s [%r vs %r]' % (k, gv, wv),
                                   replay=get_instance_replay))


def get_instance_replay(env):
    import warnings
    warnings.simplefilter('ignore')
    from copulas.utils import get_instance
    from copulas.univariate import TruncatedGaussian, GaussianKDE, Univariate, GaussianUnivariate, BetaUnivariate
    bad = []
    t = get_instance(TruncatedGaussian(0.5, maximum=10.0))
    if (t.min, t.max) != (0.5, 10.0):
        bad.append('TruncatedGaussian(0.5, maximum=10.0) cloned with bounds %r' % ((t.min, t.max),))
    t = get_instance(TruncatedGaussian(0.5, 10.0))
    if (t.min, t.max) != (0.5, 10.0):
        bad.append('TruncatedGaussian(0.5, 10.0) cloned with bounds %r' % ((t.min, t.max),))
    k = get_instance(GaussianKDE(40, bw_method='silverman'))
    if (k._sample_size, k.bw_method) != (40, 'silverman'):
        bad.append('GaussianKDE(40, bw_method=silverman) cloned with %r' % ((k._sample_size, k.bw_method),))
    u = get_instance(Univariate([GaussianUnivariate, BetaUnivariate], random_state=3))
    if u.candidates != [GaussianUnivariate, BetaUnivariate]:
        bad.append('Univariate([Gaussian, Beta], random_state=3) cloned with candidates %r' % (u.candidates,))
    g0 = GaussianUnivariate()
    if get_instance(g0) is g0:
        bad.append('get_instance(instance) returned the prototype itself')
    return {'confirmed': bool(bad), 'detail': '; '.join(bad) if bad else 'native prototype forms clone correctly'}


def build_fit_column(chk):
    """GaussianMultivariate: per-column distribution lookup and Gaussian fallback"""
    I = engine.new_interp()
    GM = 'copulas.multivariate.gaussian.GaussianMultivariate'
    try:
        I.module('copulas.multivariate.gaussian')
    except engine.paths.Unsupported as e:
        chk.undecided.append(('C05.gaussian.module', 'executor', str(e)))
        return
    G = I.resolve(CLASSES['GaussianUnivariate'][0])
    Bc = I.resolve(CLASSES['BetaUnivariate'][0])
    Univ = I.resolve(uni.BASE + 'Univariate')

    def body(c):
        m1 = I.call_qual(GM, [], {'distribution': {'a': Bc, 'b': 'copulas.univariate.gamma.GammaUnivariate'}})
        m2 = I.call_qual(GM, [], {'distribution': G})
        m3 = I.call_qual(GM, [])
        f = lambda m, col: I.call_method(m, '_get_distribution_for_column', [col])
        return (f(m1, 'a'), f(m1, 'b'), f(m1, 'zzz'), f(m2, 'a'), f(m3, 'q'))
    res, ctx = engine.run_paths(I, body)
    for r in res:
        okk = r.outcome == 'return' and r.value[0] is Bc and r.value[1] == 'copulas.univariate.gamma.GammaUnivariate' and \
            r.value[2] is Univ and r.value[3] is G and r.value[4] is Univ
        chk.add(Ob('C05.gaussian.distribution_for_column', [], ir.const(bool(okk)), backends=('syntactic',),
                   function=GM + '._get_distribution_for_column',
                   clause='a per-column dict gives each named column its own distribution and the default (selecting '
                          'Univariate) to unnamed ones; a single configured distribution applies to every column'))
    # fallback: a distribution whose fit raises -> the column is modelled by a fitted GaussianUnivariate
    def fallback_replay(env):
        import numpy as np
        import pandas as pd
        import warnings
        warnings.simplefilter('ignore')
        from copulas.multivariate import GaussianMultivariate
        from copulas.univariate import GaussianUnivariate, GaussianKDE, BetaUnivariate

        class Refusing(GaussianUnivariate):
            def _fit(self, X):
                raise RuntimeError('cannot be fitted')
        rs = np.random.RandomState(8)
        X = pd.DataFrame({'a': rs.normal(size=50), 'b': rs.normal(size=50)})
        bad = []
        forms = {'class': Refusing, 'instance prototype': Refusing(), 'per-column dict of instances': {'a': Refusing(), 'b': BetaUnivariate()},
                 'KDE prototype with an unknown bandwidth rule': GaussianKDE(bw_method='bogus')}
        for name, dist in forms.items():
            try:
                m = GaussianMultivariate(distribution=dist)
                m.fit(X)
                u = m.univariates[0]
                if not (isinstance(u, GaussianUnivariate) and not isinstance(u, Refusing) and u.fitted):
                    bad.append('%s: column a is modelled by %s' % (name, type(u).__name__))
            except Exception as e:      # noqa
                bad.append('%s: fit raised %s: %s' % (name, type(e).__name__, str(e)[:60]))
        return {'confirmed': bool(bad), 'detail': '; '.join(bad) if bad else 'a marginal that cannot be fitted falls back to a Gaussian'}
    I2 = engine.new_interp()
    I2.module('copulas.multivariate.gaussian')

    def gi(interp, args, kwargs):
        if isinstance(args[0], CandRef):
            return CandInstance(args[0].idx)
        f = interp.module('copulas.utils').env.vars['get_instance']
        saved = interp.summaries.pop('copulas.utils.get_instance')
        try:
            return interp.call(f, args, kwargs)
        finally:
            interp.summaries['copulas.utils.get_instance'] = saved
    I2.summaries['copulas.utils.get_instance'] = gi
    # get_instance is imported by name into gaussian.py: route that binding through the summary too
    gmod = I2.module('copulas.multivariate.gaussian')

    def body2(c):
        m = I2.call_qual(GM, [])
        col = uni.data_lane('column')
        c.assume(ir.ge(uni.N, 2))
        u = I2.call_method(m, '_fit_column', [col, CandRef(ir.ZERO), 'colname'])
        c.out['u'] = u
        return u
    res, ctx = engine.run_paths(I2, body2)
    k = 0
    for r in res:
        if r.outcome == 'unsupported':
            chk.undecided.append(('C05.gaussian._fit_column.exec', 'executor', str(r.value)))
            continue
        if r.outcome != 'return':
            chk.add(Ob('C05.gaussian.fit_column.never_raises.%s' % getattr(r.value, 'clsname', '?'), r.pc, ir.FALSE,
                       function=GM + '._fit_column', free_ufs_ok=True, replay=fallback_replay,
                       clause='if the configured distribution cannot be fitted the fit still succeeds'))
            continue
        k += 1
        u = r.value
        fitted_ok = ok(ir.ZERO)
        if isinstance(u, CandInstance):
            chk.add(Ob('C05.gaussian.fit_column.configured_used.%d' % k, r.pc, fitted_ok, function=GM + '._fit_column',
                       free_ufs_ok=True, clause='the configured distribution models the column whenever it can be fitted'))
        elif isinstance(u, Obj):
            isg = u.cls.name == 'GaussianUnivariate' and u.attrs.get('fitted') is True
            chk.add(Ob('C05.gaussian.fit_column.fallback_is_fitted_gaussian.%d' % k, [], ir.const(bool(isg)),
                       backends=('syntactic',), function=GM + '._fit_with_fallback_distribution',
                       clause='the fallback model is a fitted GaussianUnivariate [%s]' % u.cls.name))
            chk.add(Ob('C05.gaussian.fit_column.fallback_only_on_failure.%d' % k, r.pc, ir.not_(fitted_ok),
                       function=GM + '._fit_column', free_ufs_ok=True,
                       clause='the Gaussian fallback is used only when the configured distribution raised'))
    if k < 2 and not chk.undecided:
        chk.engine_error('C05.gaussian._fit_column: expected a success path and a fallback path, got %d' % k)
