"""C20 - library calls never modify caller-owned inputs; plots show exactly the data.

Frame obligations: every array / DataFrame / Series / dict / list handed to a public entry point carries an owner tag
in the executor; views (column slices, np.asarray, to_numpy of a column, attribute storage) keep the tag, copies drop
it; every in-place store (subscript store, masked store, augmented assignment, list/dict/set mutators, DataFrame
column assignment) into a tagged object is recorded with its path condition. The obligation `<entry>.frame.<arg>` is
that no such store is reachable. Plot obligations: the frame handed to plotly is the row-wise concatenation of the
inputs with the right label column, at the requested columns.
"""
import itertools

from pyvc import ir, engine, smt, pdmodel, libmodel
from pyvc.report import Ob
from pyvc.values import Sym, Lane, Arr2, UFun
from pyvc.interp import PyList, OWNERS
from . import uni, biv, gm

LEVEL = 'proof'
TRUSTED = ['aliasing model of numpy / pandas: column slices X[:, j], np.asarray(ndarray), Series.to_numpy() of a column and '
           'DataFrame(ndarray) are views; np.array(x), x.copy(), arithmetic, np.column_stack, fancy indexing, DataFrame.copy(), '
           'DataFrame.to_numpy() and pd.Series(dict) create fresh objects (assumed)',
           'plotly express: one trace per distinct value of the colour column with exactly the rows having that value (assumed)']
M = ir.var('m', 'I')
N1, N2 = ir.var('n_real', 'I'), ir.var('n_synth', 'I')


def frame_obs(chk, tag, res, fq, replay=None, allow_raise=True):
    """obligations from the recorded mutation events of all paths"""
    seen = set()
    n_ok = 0
    for r in res:
        if r.outcome == 'unsupported':
            key = ('exec', str(r.value))
            if key not in seen:
                seen.add(key)
                chk.undecided.append(('C20.%s.exec' % tag, 'executor', str(r.value)))
            # stores recorded BEFORE the executor gave up did happen on every continuation of this path: still reported
        else:
            n_ok += 1
        for e in r.events:
            if e.kind == 'mutate':
                key = ('mut', e.data, e.where)
                if key in seen:
                    continue
                seen.add(key)
                chk.add(Ob('C20.%s.frame.%s@%s' % (tag, e.data, e.where.split('.')[-1]), e.pc, ir.FALSE, kind='frame',
                           function=fq, free_ufs_ok=True, replay=replay,
                           clause='argument `%s` is not modified (store at %s)' % (e.data, e.where)))
    if n_ok == 0:
        # nothing was executed (every path met an unsupported construct, already listed as undecided): no verdict
        return n_ok
    chk.add(Ob('C20.%s.frame.explored' % tag, [], ir.const(n_ok > 0), backends=('syntactic',), function=fq, kind='frame',
               clause='every path of the call was executed with owner-tagged arguments and no reachable store into them '
                      'was recorded (%d paths)' % n_ok))
    return n_ok


def univariate_option_replay(env):
    import warnings
    import numpy as np
    warnings.simplefilter('ignore')
    from copulas.univariate import Univariate
    rs = np.random.RandomState(3)
    X = rs.gamma(2.0, size=400)
    X0 = X.copy()
    np.random.seed(1)
    Univariate(selection_sample_size=50).fit(X)
    bad = [] if np.array_equal(X, X0) else ['Univariate(selection_sample_size=50).fit(X) changed X: %d of %d positions differ' %
                                            (int((X != X0).sum()), len(X))]
    return {'confirmed': bool(bad), 'detail': bad[0] if bad else 'fit with selection_sample_size leaves X untouched'}


def distribution_dict_replay(env):
    import numpy as np
    import pandas as pd
    import warnings
    warnings.simplefilter('ignore')
    from copulas.multivariate import GaussianMultivariate
    from copulas.univariate import GaussianUnivariate
    rs = np.random.RandomState(4)
    X = pd.DataFrame(rs.normal(size=(60, 3)), columns=['a', 'b', 'c'])
    dist = {'b': GaussianUnivariate}
    m = GaussianMultivariate(distribution=dist)
    m.fit(X)
    m.sample(3)
    m.to_dict()
    ok = dist == {'b': GaussianUnivariate}
    return {'confirmed': not ok, 'detail': 'distribution dict after fit: %r' % (sorted(dist),)}


def vine_frame_replay(env):
    import warnings
    import numpy as np
    import pandas as pd
    warnings.simplefilter('ignore')
    from copulas.multivariate import VineCopula
    bad = []
    rs = np.random.RandomState(1)
    X = pd.DataFrame(rs.normal(size=(60, 3)) @ rs.normal(size=(3, 3)), columns=['c', 'a', 'd'])
    for vt in ('center', 'direct', 'regular'):
        X0 = X.copy(deep=True)
        u = np.array([[0.0, 0.5, 1.0]])          # border values included: a clamp written in place would show
        u0 = u.copy()
        try:
            v = VineCopula(vt)
            v.fit(X)
            tau0 = np.array(v.tau_mat, copy=True)
            v.get_likelihood(u)
            v.sample(2)
            v.to_dict()
            if not X.equals(X0):
                bad.append('%s: fit modified the training table' % vt)
            if not np.array_equal(u, u0):
                bad.append('%s: get_likelihood modified its argument' % vt)
            if not np.array_equal(tau0, v.tau_mat, equal_nan=True):
                bad.append('%s: the stored Kendall matrix changed after fit' % vt)
        except Exception as e:      # noqa
            bad.append('%s: %s: %s' % (vt, type(e).__name__, str(e)[:100]))
    return {'confirmed': bool(bad), 'detail': '; '.join(bad[:3]) if bad else 'native vines leave X and u untouched'}


def native_replay(env):
    """deep-copy comparison of arguments before/after for the public entry points, natively"""
    import copy
    import numpy as np
    import pandas as pd
    import warnings
    warnings.simplefilter('ignore')
    from copulas.univariate import GaussianUnivariate, GaussianKDE, TruncatedGaussian, BetaUnivariate
    from copulas.bivariate import Clayton, Frank, Gumbel, select_copula
    from copulas.multivariate import GaussianMultivariate
    from copulas.optimize import bisect, chandrupatla
    from copulas import visualization as viz
    rs = np.random.RandomState(0)
    bad = []

    def same(a, b):
        if isinstance(a, np.ndarray):
            return np.array_equal(a, b, equal_nan=True)
        if isinstance(a, (pd.DataFrame, pd.Series)):
            return a.equals(b)
        return a == b

    def call(name, f, *args, **kw):
        snap = copy.deepcopy((args, kw))
        try:
            f(*args, **kw)
            f(*args, **kw)                       # the same objects must be reusable
        except Exception as e:
            bad.append('%s: second identical call failed: %s: %s' % (name, type(e).__name__, str(e)[:60]))
        for i, (x, y) in enumerate(zip(args, snap[0])):
            if not same(x, y):
                bad.append('%s: positional argument %d was modified' % (name, i))
        for k_ in kw:
            if not same(kw[k_], snap[1][k_]):
                bad.append('%s: argument %s was modified' % (name, k_))
    x = rs.gamma(2.0, size=100)
    for C in (GaussianUnivariate, GaussianKDE, TruncatedGaussian, BetaUnivariate):
        m = C()
        call(C.__name__ + '.fit', m.fit, x)
        call(C.__name__ + '.cdf', m.cumulative_distribution, np.array([0.5, 1.5, 2.5]))
        call(C.__name__ + '.ppf', m.percent_point, np.array([0.2, 0.7]))
    U = np.column_stack([rs.uniform(size=60), rs.uniform(size=60)])
    U[0] = [0.0, 0.3]
    U[1] = [0.4, 0.0]
    for C in (Clayton, Frank, Gumbel):
        c = C()
        c.theta, c.tau = 2.0, 0.5
        call(C.__name__ + '.cdf', c.cumulative_distribution, U)
        r1 = c.cumulative_distribution(U)
        r2 = c.cumulative_distribution(U)
        if not np.array_equal(r1, r2, equal_nan=True):
            bad.append('%s.cdf: a second call on the same array gives a different result' % C.__name__)
        call(C.__name__ + '.ppf', c.percent_point, np.array([0.3, 0.6]), np.array([0.5, 0.2]))
    call('select_copula', select_copula, U[2:].copy())
    lo, hi = np.full(4, -2.0), np.full(4, 3.0)
    call('bisect', bisect, lambda t: t - 0.5, lo, hi)
    call('chandrupatla', chandrupatla, lambda t: t - 0.5, lo, hi)
    df = pd.DataFrame({'b': rs.normal(size=80), 'a': rs.normal(size=80), 'c': rs.normal(size=80)})
    gmod = GaussianMultivariate(distribution=GaussianUnivariate)
    call('GaussianMultivariate.fit', gmod.fit, df)
    call('GaussianMultivariate.pdf', gmod.probability_density, df.iloc[:5])
    call('GaussianMultivariate.sample(conditions dict)', gmod.sample, 5, conditions={'a': 0.1})
    call('GaussianMultivariate.sample(conditions Series)', gmod.sample, 5, conditions=pd.Series({'a': 0.1}))
    real, synth = df.iloc[:50], df.iloc[50:]
    cols = ['a', 'b']
    call('scatter_2d', viz.scatter_2d, real, columns=cols)
    call('compare_2d', viz.compare_2d, real, synth, columns=cols)
    cols3 = ['a', 'b', 'c']
    call('scatter_3d', viz.scatter_3d, real, columns=cols3)
    call('compare_3d', viz.compare_3d, real, synth, columns=cols3)
    fig = viz.compare_2d(real, synth, columns=['a', 'b'])
    counts = {t.name: len(t.x) for t in fig.data}
    if counts != {'Real': len(real), 'Synthetic': len(synth)}:
        bad.append('compare_2d: traces %r for %d real and %d synthetic rows' % (counts, len(real), len(synth)))
    return {'confirmed': bool(bad), 'detail': '; '.join(bad[:8]) if bad else 'native deep-copy comparison: no argument modified'}


def bounded_plot_index_forms(chk):
    """BOUNDED native stand-in: the pandas model of the deductive part has positional rows only (a default RangeIndex); tables
    whose index is something else (a hold-out slice, a filtered table, repeated labels, string labels) are drawn natively and the
    'Real' / 'Synthetic' traces compared with the two tables, row multiset by row multiset."""
    import numpy as np
    import pandas as pd
    import warnings
    warnings.simplefilter('ignore')
    from copulas import visualization as viz
    rs = np.random.RandomState(9 + (chk.seed or 0))
    df = pd.DataFrame(rs.normal(size=(90, 3)), columns=['a', 'b', 'c'])
    other = pd.DataFrame(rs.normal(size=(40, 3)) + 5.0, columns=['a', 'b', 'c'])
    forms = {'hold-out slice (index 50..89)': df.iloc[50:], 'filtered rows': df[df['a'] > 0],
             'repeated labels': pd.concat([df.iloc[:20], df.iloc[:20] + 0.5]),
             'string labels': df.iloc[:30].set_axis(['r%d' % i for i in range(30)]), 'default index': df.iloc[:45]}
    ncase = 0
    for fname, real in forms.items():
        for name, cols in (('compare_2d', ['a', 'b']), ('compare_3d', ['a', 'b', 'c'])):
            ncase += 1
            r0, s0 = real.copy(deep=True), other.copy(deep=True)
            try:
                fig = getattr(viz, name)(real, other, columns=cols)
                got = {}
                for t in fig.data:
                    pts = np.column_stack([np.asarray(getattr(t, ax), dtype=float) for ax in 'xyz'[:len(cols)]])
                    got[t.name] = sorted(map(tuple, np.round(pts, 12).tolist()))
                want = {'Real': sorted(map(tuple, np.round(real[cols].to_numpy(), 12).tolist())),
                        'Synthetic': sorted(map(tuple, np.round(other[cols].to_numpy(), 12).tolist()))}
                ok = got == want and real.equals(r0) and other.equals(s0)
                detail = 'traces %r for %d real and %d synthetic rows' % ({k: len(v) for k, v in got.items()}, len(real), len(other)) \
                    if {k: len(v) for k, v in got.items()} != {k: len(v) for k, v in want.items()} else \
                    'rows drawn under the wrong label' if got != want else 'an argument was modified'
            except Exception as e:      # noqa
                ok, detail = False, '%s: %s' % (type(e).__name__, str(e)[:80])
            if not ok:
                chk.bounded_violation('C20.%s.index_forms.bounded' % name, {'real': fname, 'columns': cols},
                                      '%s(real, synthetic) with real = %s: %s' % (name, fname, detail))
    chk.bounded.append({'name': 'C20.compare.index_forms.bounded', 'clause': 'every real row is drawn under "Real" and every '
                        'synthetic row under "Synthetic", whatever the row labels of the two tables; arguments unchanged',
                        'bound': '5 index forms of the real table (hold-out slice, filtered, repeated labels, string labels, default) '
                                 'x compare_2d / compare_3d', 'evaluations': ncase, 'distinct_nontrivial': ncase,
                        'rule': 'one case = (index form, function)'})


def build(chk):
    bounded_plot_index_forms(chk)
    I0 = engine.new_interp()
    src = I0.source
    entries = []
    # --- univariate --------------------------------------------------------------------------------------------
    for cls, (qual, dist) in uni.CLASSES.items():
        I = engine.new_interp()
        gm.install_rootfinders(I)

        def body(c, I=I, cls=cls):
            m = uni.new_model(I, cls)
            c.assume(ir.ge(uni.N, 2))
            c.assume(ir.ge(M, 1))
            x = uni.data_lane('X')
            I.call_method(m, 'fit', [x])
            for meth, owner in (('probability_density', 'X_pdf'), ('cumulative_distribution', 'X_cdf'),
                                ('percent_point', 'U_ppf')):
                q = Lane(ir.var('q_%s@i' % meth), Sym(M), owner=owner)
                if meth == 'percent_point':
                    from pyvc.values import assume_all_lanes
                    assume_all_lanes(ir.and_(ir.ge(q.t, 0), ir.le(q.t, 1)))
                I.call_method(m, meth, [q])
            return None
        res, ctx = engine.run_paths(I, body)
        frame_obs(chk, cls, res, qual, native_replay)
        chk.under_contract(src, [qual + '._fit'])
    # --- bivariate ---------------------------------------------------------------------------------------------
    for fam, F in biv.FAMILIES.items():
        for meth, args in (('cumulative_distribution', 'X'), ('probability_density', 'X'), ('partial_derivative', 'X'),
                           ('percent_point', 'yV')):
            _, res, _ = biv.run_method(fam, meth, closed_at_zero=True, safety=False, args=args, havoc=False)
            frame_obs(chk, '%s.%s' % (fam, meth), res, F['cls'] + '.' + meth, native_replay)
        I = engine.new_interp()

        def bodyf(c, I=I, fam=fam):
            obj = biv.make_copula(I, fam, c, havoc=False)
            n = Sym(biv.N)
            X = Arr2([Lane(biv.U, n), Lane(biv.V, n)], n, owner='X')
            c.assume(ir.ge(biv.N, 2))
            I.call_method(obj, 'fit', [X])
        res, ctx = engine.run_paths(I, bodyf)
        frame_obs(chk, '%s.fit' % fam, res, F['cls'] + '.fit', native_replay)
    # --- select_copula ---------------------------------------------------------------------------------------
    from . import C11
    I = engine.new_interp()
    I.summaries['copulas.bivariate._compute_empirical'] = C11.empirical_summary
    for fam, F in biv.FAMILIES.items():
        I.summaries[F['cls'] + '.cumulative_distribution'] = C11.cdf_summary(fam)

    def bodys(c):
        n = Sym(biv.N)
        X = Arr2([Lane(biv.U, n), Lane(biv.V, n)], n, owner='X')
        c.assume(ir.ge(biv.N, 2))
        return I.call_qual('copulas.bivariate.select_copula', [X])
    res, ctx = engine.run_paths(I, bodys, max_paths=3000)
    frame_obs(chk, 'select_copula', res, 'copulas.bivariate.select_copula', native_replay)
    # --- root finders ------------------------------------------------------------------------------------------
    from . import C18
    for name, runner in (('bisect', lambda I, F: C18.run_bisect(I, F)), ('chandrupatla', lambda I, F: C18.run_chand(I, F, False))):
        I = engine.new_interp()
        res, ctx = runner(I, UFun('f'))
        frame_obs(chk, name, res, 'copulas.optimize.' + name, native_replay)
    # --- gaussian multivariate ---------------------------------------------------------------------------------
    labels = gm.NAMES[:2]
    for rep in ('frame', 'array'):
        I = engine.new_interp()
        gm.install_rootfinders(I)

        def bodyg(c, I=I, rep=rep):
            G = I.resolve(uni.CLASSES['GaussianUnivariate'][0])
            n = Sym(gm.N)
            X = gm.training_frame(labels, owner='X') if rep == 'frame' else \
                Arr2([Lane(gm.colvar(l), n) for l in labels], n, owner='X')
            if rep == 'array':
                # the columns of DataFrame(ndarray) are labelled 0, 1: rename the symbolic columns accordingly
                pass
            m = I.call_qual(gm.GM, [], {'distribution': G})
            c.assume(ir.ge(gm.N, 2))
            c.assume(ir.ge(M, 1))
            I.call_method(m, 'fit', [X])
            msym = Sym(M)
            cols = m.attrs['columns']
            q = pdmodel.Frame(list(cols), {l: Lane(ir.var('q_%s@i' % l), msym) for l in cols}, msym, owner='Q') \
                if rep == 'frame' else Arr2([Lane(ir.var('q_%d@i' % j), msym) for j in range(len(cols))], msym, owner='Q')
            I.call_method(m, 'probability_density', [q])
            I.call_method(m, 'cumulative_distribution', [q])
            cond = {cols[0]: Sym(ir.var('condv'))}
            OWNERS[id(cond)] = (cond, 'conditions')
            I.call_method(m, 'sample', [msym], {'conditions': cond})
            cs = pdmodel.SeriesRow([cols[0]], [Sym(ir.var('condv'))], owner='conditions')
            I.call_method(m, 'sample', [msym], {'conditions': cs})
        res, ctx = engine.run_paths(I, bodyg)
        frame_obs(chk, 'GaussianMultivariate.%s' % rep, res, gm.GM, native_replay)
    # ---- per-column dict of marginals naming only some columns: the caller's dict is read, never completed -------------------
    I = engine.new_interp()
    gm.install_rootfinders(I)
    I.summaries['copulas.univariate.selection.select_univariate'] = \
        lambda interp, args, kwargs: uni.new_model(interp, 'GaussianUnivariate')
    labels3 = gm.NAMES[:3]

    def bodyd(c, I=I):
        G = I.resolve(uni.CLASSES['GaussianUnivariate'][0])
        dist = {labels3[1]: G}
        OWNERS[id(dist)] = (dist, 'distribution')
        c.assume(ir.ge(gm.N, 2))
        c.assume(ir.ge(M, 1))
        m = I.call_qual(gm.GM, [], {'distribution': dist})
        I.call_method(m, 'fit', [gm.training_frame(labels3, owner='X')])
        I.call_method(m, 'sample', [Sym(M)])
        I.call_method(m, 'to_dict', [])
        c.out['dist_keys'] = list(dist)
    res, ctx = engine.run_paths(I, bodyd)
    frame_obs(chk, 'GaussianMultivariate.partial_dict', res, gm.GM, distribution_dict_replay)
    for k, r in enumerate(res):
        if r.outcome == 'return':
            chk.add(Ob('C20.GaussianMultivariate.partial_dict.keys.%d' % k, [], ir.const(r.state['dist_keys'] == [labels3[1]]),
                       backends=('syntactic',), function=gm.GM + '._get_distribution_for_column', kind='frame',
                       replay=distribution_dict_replay,
                       clause="the caller's distribution dict still has exactly the keys it was given"))
    # ---- the selecting Univariate with the sub-sampling option: fit must not touch the caller's array -----------------------
    for opt in ('selection_sample_size',):
        I = engine.new_interp()
        gm.install_rootfinders(I)
        I.summaries['copulas.univariate.selection.select_univariate'] = \
            lambda interp, args, kwargs: uni.new_model(interp, 'GaussianUnivariate')

        def bodys(c, I=I):
            ks = Sym(ir.var('ksel', 'I'))
            c.assume(ir.ge(ks.t, 1))
            c.assume(ir.ge(uni.N, 2))
            c.assume(ir.gt(ir.uf('n_unique', [uni.XW], 'I'), 1))
            m = I.call_qual(uni.BASE + 'Univariate', [], {'selection_sample_size': ks})
            I.call_method(m, 'fit', [uni.data_lane(owner='X')])
            I.call_method(m, 'cdf', [Lane(ir.var('q@i'), Sym(ir.var('m', 'I')), owner='q')])
        res, ctx = engine.run_paths(I, bodys)
        frame_obs(chk, 'Univariate.selection_sample_size', res, uni.BASE + 'Univariate.fit', univariate_option_replay)
    # ---- vines: fit(X), get_likelihood(u), sample(n) ---------------------------------------------------------------
    from . import vine
    for vt in ('center', 'direct', 'regular'):
        for d in (2, 3):
            I = engine.new_interp()
            gm.install_rootfinders(I)
            vine.install_contracts(I)

            def bodyv(c, I=I, vt=vt, d=d):
                X = gm.training_frame(vine.LABELS[:d], owner='X')
                m = vine.fit_vine(I, c, d, vt, X=X)
                uq = [ir.var('uq_%d' % i) for i in range(d)]
                c.assume(ir.and_(*[ir.and_(ir.gt(x, 0), ir.lt(x, 1)) for x in uq]))
                I.call_method(m, 'get_likelihood', [Arr2([Lane(x, 1) for x in uq], 1, owner='uni_matrix')])
                I.call_method(m, 'sample', [1])
                I.call_method(m, 'to_dict', [])
            with vine.mode():
                res, ctx = engine.run_paths(I, bodyv, max_paths=100000)
            frame_obs(chk, 'VineCopula.%s.d%d' % (vt, d), res, vine.VINE, vine_frame_replay)
    chk.under_contract(src, [vine.VINE + '.fit', vine.VINE + '.get_likelihood', vine.VINE + '.sample',
                             vine.TREE + 'Tree._sort_tau_by_y', vine.TREE + 'DirectTree._build_first_tree',
                             vine.TREE + 'Tree.get_likelihood'])
    build_plots(chk)
    chk.under_contract(src, ['copulas.visualization.' + f for f in ('scatter_2d', 'compare_2d', 'scatter_3d', 'compare_3d',
                                                                      '_generate_scatter_2d_plot', '_generate_scatter_3d_plot',
                                                                      'dist_1d', 'compare_1d')] +
                       ['copulas.optimize.bisect', 'copulas.optimize.chandrupatla', 'copulas.bivariate.select_copula',
                        gm.GM + '.fit', gm.GM + '.sample', gm.GM + '._transform_to_normal', gm.GM + '._validate_input'])
    chk.assumptions += [
        'the same-result-on-a-second-call clause follows from: no argument is modified (proved) and the results are '
        'deterministic functions of the arguments and the fitted state (uninterpreted-function determinism; C11, C15)',
    ]


# ------------------------------------------------------------------------------------------------
# plots
# ------------------------------------------------------------------------------------------------

def build_plots(chk):
    V = 'copulas.visualization.'
    for name, dim, compare in (('scatter_2d', 2, False), ('compare_2d', 2, True), ('scatter_3d', 3, False),
                               ('compare_3d', 3, True)):
        for with_cols in (True, False):
            tag = '%s.%s' % (name, 'columns' if with_cols else 'default')
            I = engine.new_interp()
            labels = ['b', 'a', 'c'][:dim] if not with_cols else ['b', 'a', 'c', 'extra']
            want_cols = ['a', 'b', 'c'][:dim] if with_cols else labels[:dim]

            def body(c, I=I, labels=labels, with_cols=with_cols, compare=compare, name=name, want_cols=want_cols):
                n1, n2 = Sym(N1), Sym(N2)
                c.assume(ir.and_(ir.ge(N1, 1), ir.ge(N2, 1)))
                real = pdmodel.Frame(labels, {l: Lane(ir.var('real_%s@i' % l), n1) for l in labels}, n1, owner='real')
                synth = pdmodel.Frame(labels, {l: Lane(ir.var('synth_%s@i' % l), n2) for l in labels}, n2, owner='synth')
                kw = {}
                if with_cols:
                    cols = PyList(list(want_cols))
                    OWNERS[id(cols)] = (cols, 'columns')
                    kw['columns'] = cols
                    c.out['cols'] = cols
                args = [real, synth] if compare else [real]
                I.call_qual(V + name, args, kw)
                if with_cols:
                    c.out['cols_after'] = list(kw['columns'])
                return None
            res, ctx = engine.run_paths(I, body)
            frame_obs(chk, tag, res, V + name, native_replay)
            for j, r in enumerate(res):
                if r.outcome == 'raise':
                    chk.add(Ob('C20.%s.no_exception.%d' % (tag, j), r.pc, ir.FALSE, function=V + name, free_ufs_ok=True,
                               replay=native_replay, clause='the plot is built [%s]' % (r.value,)))
                if r.outcome != 'return':
                    continue
                plots = [e for e in r.events if e.kind == 'plot']
                chk.add(Ob('C20.%s.one_figure.%d' % (tag, j), [], ir.const(len(plots) == 1), backends=('syntactic',),
                           function=V + name, clause='exactly one figure is built'))
                if with_cols:
                    chk.add(Ob('C20.%s.columns_list_unchanged.%d' % (tag, j), [],
                               ir.const(r.state.get('cols_after') == list(want_cols)), backends=('syntactic',),
                               function=V + name, replay=native_replay, clause='the caller\'s column list is not modified'))
                for e in plots[:1]:
                    d = e.data
                    fr = d['frame']
                    axes = [d['x'], d['y']] + ([d['z']] if dim == 3 else [])
                    chk.add(Ob('C20.%s.axes.%d' % (tag, j), [], ir.const(axes == list(want_cols) and d['color'] == 'Data'),
                               backends=('syntactic',), function=V + name, replay=native_replay,
                               clause='axes are the requested (or the first %d) columns, colour = the Real/Synthetic label '
                                      '[%r]' % (dim, axes)))
                    if not isinstance(fr, pdmodel.Frame) or 'Data' not in fr.labels:
                        chk.add(Ob('C20.%s.label_column.%d' % (tag, j), [], ir.FALSE, backends=('syntactic',),
                                   function=V + name, clause='the plotted frame has the label column'))
                        continue
                    for l in want_cols + ['Data']:
                        got = fr.cols[l]
                        if compare:
                            a = ir.var('real_%s' % l, 'U') if l != 'Data' else ir.uf('arr', [ir.const('Real'), N1], 'U')
                            b = ir.var('synth_%s' % l, 'U') if l != 'Data' else ir.uf('arr', [ir.const('Synthetic'), N2], 'U')
                            w = ir.uf('concat', [a, b], 'U')
                            want = ir.uf('elem', [w, ir.var('@i', 'I')])
                            nwant = ir.uf('len', [w], 'I')
                        else:
                            want = ir.var('real_%s@i' % l) if l != 'Data' else ir.const('Real')
                            nwant = N1
                        gn = got.n.t if isinstance(got.n, Sym) else ir.const(got.n)
                        if compare:
                            # compare the whole arrays: got must be elem(W, i) with W = concat(real part, synthetic part)
                            if got.t.op == 'uf' and got.t.args[0] == 'elem' and got.t.args[2] is ir.var('@i', 'I'):
                                goal = ir.eq(got.t.args[1], w)
                            else:
                                goal = ir.FALSE
                        else:
                            goal = ir.and_(ir.eq(got.t, want) if got.t.sort == want.sort else ir.FALSE, ir.eq(gn, nwant))
                        chk.add(Ob('C20.%s.plotted_column.%s.%d' % (tag, l, j), r.pc, goal,
                                   function=V + name, free_ufs_ok=True, replay=native_replay,
                                   clause=('column %s of the figure data = the real rows followed by the synthetic rows' % l)
                                   if l != 'Data' else 'label column = "Real" for every real row then "Synthetic" for every '
                                   'synthetic row (each row once under the correct label)'))
    # 1-d helpers: frame only
    for name in ('dist_1d', 'compare_1d'):
        I = engine.new_interp()

        def body1(c, I=I, name=name):
            n1, n2 = Sym(N1), Sym(N2)
            a = pdmodel.SeriesCol(Lane(ir.var('real_x@i'), n1, owner='real'), 'x')
            b = pdmodel.SeriesCol(Lane(ir.var('synth_x@i'), n2, owner='synth'), 'x')
            I.call_qual(V + name, [a, b] if name == 'compare_1d' else [a])
        res, ctx = engine.run_paths(I, body1)
        frame_obs(chk, name, res, V + name, native_replay)
