"""C10 - bivariate fit calibrates theta to the data's Kendall tau or refuses.

Functions under contract: Bivariate.fit, check_marginal, _compute_theta, check_theta, Clayton/Gumbel/Frank.
compute_theta, Frank._tau_to_theta (with its closure debye), split_matrix.
Assumed contracts: scipy.stats.kendalltau, scipy.optimize.least_squares, scipy.integrate.quad.
"""
from fractions import Fraction

from pyvc import ir, engine, smt
from pyvc.report import Ob
from pyvc.values import Sym, Lane, Arr2
from pyvc import libmodel
from . import biv
from .biv import TH, TAU, U, V, N, FAMILIES, EPS32

LEVEL = 'proof'
TRUSTED = ['scipy.stats.kendalltau / least_squares / integrate.quad: assumed contracts (see trusted_base entries)',
           'Frank: the Debye-function relation tau = 1 + 4 (D1(theta) - 1)/theta with D1(theta) = (1/theta) * integral_0^theta '
           't/(e^t - 1) dt; the code integrates from EPSILON = 1.19e-7 instead of 0 (stated deviation, the integrand is '
           'bounded by 1 there)']
KT = ir.uf('kendalltau', [ir.var('u', 'U'), ir.var('v', 'U')])
PRESTATE = (TH, TAU)


def fit_replay(fam):
    def rep(env):
        import numpy as np
        env = biv.model_floats(env)
        u, v = env.get('u@i'), env.get('v@i')
        base = np.array([[0.2, 0.1], [0.2, 0.3], [0.4, 0.5], [0.6, 0.4], [0.8, 0.6], [0.8, 0.9]])
        X = np.vstack([base, [[u if u is not None else 0.5, v if v is not None else 0.5]]])
        out = []
        priors = [(None, None), (env.get('theta'), env.get('tau'))]
        if env.get('theta') is None:
            priors += [(-1e-3, -1e-3), (1e-3, 1e-3), (5.0, 0.5)]
        for th0, tau0 in priors:
            c = biv.native_copula(fam, th0, tau0)
            try:
                c.fit(X.copy())
                out.append(('fitted', float(c.tau), float(c.theta)))
            except ValueError as e:
                out.append(('ValueError', str(e)[:60]))
            except Exception as e:
                out.append((type(e).__name__, str(e)[:80]))
        inside = (0 <= X).all() and (X <= 1).all()
        bad = []
        if not inside and any(o[0] == 'fitted' for o in out):
            bad.append('a value outside [0,1] was accepted')
        if any(o[0] not in ('fitted', 'ValueError') for o in out):
            bad.append('an exception other than ValueError escaped')
        if any(o != out[0] for o in out[1:]):
            bad.append('the result depends on the state before fit')
        # the smallest samples of the quantifier: two rows
        from scipy import stats
        for X2 in ([[0.1, 0.2], [0.9, 0.3]], [[0.2, 0.9], [0.3, 0.1]], [[0.4, 0.1], [0.4, 0.8]]):
            X2 = np.array(X2)
            want = stats.kendalltau(X2[:, 0], X2[:, 1])[0]
            c = biv.native_copula(fam, None, None)
            try:
                c.fit(X2.copy())
                if np.isnan(want) or abs(float(c.tau) - want) > 1e-12:
                    bad.append('two rows %r: Kendall tau of the columns is %r, fit accepted them with tau = %r'
                               % (X2.tolist(), want, float(c.tau)))
            except ValueError:
                pass
            except Exception as e:
                bad.append('two rows %r: %s' % (X2.tolist(), type(e).__name__))
        return {'confirmed': bool(bad), 'detail': '%s.fit on %d rows incl. (%r, %r): fresh model -> %r, model with prior '
                '(s) %r -> %r; %s' % (fam, len(X), u, v, out[0], priors[1:], out[1:],
                                                      '; '.join(bad)), 'input': {'row': [u, v]}}
    return rep


def spec_theta(fam, tau):
    if fam == 'clayton':
        return ir.div(ir.mul(2, tau), ir.sub(1, tau))
    if fam == 'gumbel':
        return ir.div(1, ir.sub(1, tau))
    return None


def frank_residual(alpha, tau):
    t = libmodel.QUAD_VAR
    integrand = ir.div(t, ir.sub(ir.exp(t), 1))
    integral = ir.uf('integral', [integrand, ir.const(EPS32), alpha])
    debye = ir.div(integral, alpha)
    return ir.add(ir.div(ir.mul(4, ir.sub(debye, 1)), alpha), 1, ir.neg(tau))


def frank_tau_of_theta(th):
    """Kendall's tau of the Frank copula with parameter th: 1 + 4 (D1(th) - 1)/th, mpmath quadrature at 30 digits"""
    import mpmath
    mpmath.mp.dps = 30
    th = mpmath.mpf(th)
    if th == 0:
        return mpmath.mpf(0)
    a = abs(th)
    d1 = mpmath.quad(lambda t: t / mpmath.expm1(t), [0, 1, 10, 50, a] if a > 50 else [0, a]) / a
    t = 1 + 4 * (d1 - 1) / a
    return t if th > 0 else -t


def bounds_replay(env):
    import numpy as np
    import warnings
    warnings.simplefilter('ignore')
    from copulas.bivariate import Frank
    bad = []
    taus = [-0.95, -0.9, -0.8, -0.78, -0.5, 0.5, 0.8, 0.9, 0.95]
    t = env.get('tau_b') if isinstance(env, dict) else None
    try:
        t = float(t)
        if -1 < t < 1 and t != 0:
            taus.insert(0, t)
    except Exception:     # noqa
        pass
    for tau in taus:
        c = Frank()
        c.tau = tau
        th = c.compute_theta()
        back = float(frank_tau_of_theta(th))
        if abs(back - tau) > 1e-6:
            bad.append('Frank with tau = %r: compute_theta() = %r, whose Kendall tau is %.6f' % (tau, float(th), back))
    return {'confirmed': bool(bad), 'detail': '; '.join(bad[:4]) if bad else 'compute_theta inverts tau natively on the probes'}


def admissible(fam, th):
    if fam == 'clayton':
        return ir.gt(th, 0)
    if fam == 'gumbel':
        return ir.ge(th, 1)
    return ir.ne(th, 0)


def build(chk):
    I0 = engine.new_interp()
    src = I0.source
    chk.under_contract(src, ['copulas.bivariate.base.Bivariate.fit', 'copulas.bivariate.base.Bivariate.check_marginal',
                             'copulas.bivariate.base.Bivariate._compute_theta', 'copulas.bivariate.base.Bivariate.check_theta',
                             'copulas.bivariate.utils.split_matrix', 'copulas.bivariate.frank.Frank._tau_to_theta'])
    for fam, F in FAMILIES.items():
        cls = F['cls']
        chk.under_contract(src, [cls + '.compute_theta'])
        I = engine.new_interp()

        def body(c, I=I, fam=fam):
            obj = biv.make_copula(I, fam, c)          # arbitrary prior state (theta, tau and any other attribute)
            n = Sym(N)
            X = Arr2([Lane(U, n), Lane(V, n)], n, owner='X')
            c.assume(ir.ge(N, 2))
            try:
                I.call_method(obj, 'fit', [X])
            finally:
                c.out['theta'] = obj.attrs.get('theta')
                c.out['tau'] = obj.attrs.get('tau')
                c.out['attrs'] = dict(obj.attrs)
            return None
        res, ctx = engine.run_paths(I, body)
        nret = 0
        seen_exc = set()
        for r in res:
            if r.outcome == 'unsupported':
                chk.undecided.append(('C10.%s.fit.exec' % fam, 'executor', str(r.value)))
                continue
            for e in r.events:
                if e.kind == 'mutate':
                    chk.add(Ob('C10.%s.fit.frame.%s' % (fam, e.data), e.pc, ir.FALSE, kind='frame', function=cls + '.fit',
                               free_ufs_ok=True, clause='X not modified (shared with C20)'))
            if r.outcome == 'raise':
                if r.value.clsname != 'ValueError' and r.value.clsname not in seen_exc:
                    seen_exc.add(r.value.clsname)
                    chk.add(Ob('C10.%s.fit.only_ValueError.%s' % (fam, r.value.clsname), r.pc, ir.FALSE, kind='precall',
                               function=cls + '.fit', free_ufs_ok=True,
                               clause='fit refuses with ValueError only [%s: %s]' % (r.value.clsname,
                                                                                     str(r.value.args[:1])[:90]),
                               replay=fit_replay(fam)))
                continue
            if r.outcome != 'return':
                continue
            nret += 1
            th, tau = r.state['theta'], r.state['tau']
            hy = list(r.pc)
            tau_t = tau.t if isinstance(tau, Sym) else ir.const(tau)
            th_t = th.t if isinstance(th, Sym) else ir.const(th)
            nan = ir.uf('isnan', [KT], 'B')
            fq = cls + '.fit'
            chk.add(Ob('C10.%s.fit.tau_is_kendall.%d' % (fam, nret), hy, ir.eq(tau_t, KT), function=fq, free_ufs_ok=True,
                       clause='tau is Kendall tau-b of the two columns', replay=fit_replay(fam)))
            chk.add(Ob('C10.%s.fit.marginals_in_unit.%d' % (fam, nret), hy,
                       ir.and_(ir.ge(U, 0), ir.le(U, 1), ir.ge(V, 0), ir.le(V, 1)), function=fq, free_ufs_ok=True,
                       clause='a value outside [0,1] makes fit raise ValueError (so on return every row is inside)',
                       replay=fit_replay(fam)))
            chk.add(Ob('C10.%s.fit.no_constant_column.%d' % (fam, nret), hy,
                       ir.and_(ir.not_(nan), ir.ne(ir.uf('n_unique', [ir.var('u', 'U')], 'I'), 1),
                               ir.ne(ir.uf('n_unique', [ir.var('v', 'U')], 'I'), 1)), function=fq, free_ufs_ok=True,
                       clause='a constant column makes fit raise ValueError', replay=fit_replay(fam)))
            dom = [ir.gt(KT, -1), ir.lt(KT, 1)]          # quantifier: tau in (-1, 1)
            chk.add(Ob('C10.%s.fit.theta_admissible.%d' % (fam, nret), hy + dom, admissible(fam, th_t), function=fq,
                       free_ufs_ok=True, clause='theta lies in the family\'s admissible set (else ValueError)',
                       replay=fit_replay(fam)))
            if fam in ('clayton', 'gumbel'):
                chk.add(Ob('C10.%s.fit.theta_calibrated.%d' % (fam, nret), hy + dom, ir.eq(th_t, spec_theta(fam, KT)),
                           function=fq, free_ufs_ok=True,
                           clause='theta inverts the family\'s tau(theta): ' +
                                  ('tau = theta/(theta+2)' if fam == 'clayton' else 'tau = 1 - 1/theta'),
                           replay=fit_replay(fam)))
                inv = ir.div(th_t, ir.add(th_t, 2)) if fam == 'clayton' else ir.sub(1, ir.div(1, th_t))
                chk.add(Ob('C10.%s.fit.tau_of_theta.%d' % (fam, nret), hy + dom, ir.eq(inv, KT), function=fq,
                           free_ufs_ok=True, clause='theoretical Kendall tau of the fitted theta equals the data tau'))
            else:
                lsq = [e for e in r.events if e.kind == 'least_squares']
                if not lsq:
                    chk.add(Ob('C10.frank.fit.theta_from_least_squares.%d' % nret, hy, ir.FALSE, function=fq,
                               free_ufs_ok=True, clause='theta is the root found by least_squares'))
                for e in lsq:
                    d = e.data
                    # the assumed contract of least_squares promises a root only if one lies inside the bounds handed to it:
                    # tau(theta) is increasing (cited), so the bounds admit the root of every tau in [tau(lo), tau(hi)]
                    try:
                        # the bounds are closed terms (logarithms of the float limits): evaluated numerically
                        lo_n, hi_n = float(ir.evaluate(d['lo'], {})), float(ir.evaluate(d['hi'], {}))
                    except Exception:       # noqa
                        lo_n = hi_n = None
                    tb = ir.var('tau_b')
                    if lo_n is None or hi_n is None:
                        chk.undecided.append(('C10.frank.fit.bounds_admit_root.%d' % nret, 'contract', 'symbolic bounds'))
                    else:
                        t_lo, t_hi = frank_tau_of_theta(float(lo_n)), frank_tau_of_theta(float(hi_n))
                        chk.add(Ob('C10.frank.fit.bounds_admit_root.%d' % nret, hy + dom + [ir.eq(tb, KT)],
                                   ir.and_(ir.le(ir.const(float(t_lo) + 1e-9), tb), ir.le(tb, ir.const(float(t_hi) - 1e-9))),
                                   function=cls + '.compute_theta', free_ufs_ok=True, replay=bounds_replay,
                                   clause='the search bounds given to least_squares [%.6g, %.6g] contain the theta of every '
                                          'tau in (-1, 1): tau(lo) = %.6f <= tau <= tau(hi) = %.6f'
                                          % (float(lo_n), float(hi_n), float(t_lo), float(t_hi))))
                    chk.add(Ob('C10.frank.fit.theta_is_root.%d' % nret, hy, ir.eq(th_t, d['x']), function=fq,
                               free_ufs_ok=True, clause='theta is the least_squares solution'))
                    chk.add(Ob('C10.frank.fit.residual_is_debye_relation.%d' % nret, hy,
                               ir.eq(d['residual'], frank_residual(d['x'], KT)), function=cls + '._tau_to_theta',
                               free_ufs_ok=True, clause='the solved equation is tau = 1 + 4 (D1(theta) - 1)/theta '
                               '(Debye function, lower limit EPSILON)', replay=fit_replay(fam)))
            # fit is a function of X only: no symbol of the prior state in the post-state or in a solver argument
            tainted = set(PRESTATE) | {v for t in [th_t, tau_t] for v in ir.free_vars(t) if v.args[0].startswith('attr_')}
            dep = [v for t in (th_t, tau_t) for v in ir.free_vars(t) if v in tainted]
            for e in r.events:
                if e.kind == 'libcall':
                    for a in e.data[1]:
                        dep += [v for v in ir.free_vars(a) if v in tainted or v.args[0].startswith('attr_')]
            chk.add(Ob('C10.%s.fit.independent_of_prior_state.%d' % (fam, nret), [],
                       ir.TRUE if not dep else ir.FALSE, backends=('syntactic',), function=fq,
                       clause='the fitted state and every solver argument mention no symbol of the state before fit' +
                              ('' if not dep else ' [depends on %s]' % sorted({d.args[0] for d in dep})),
                       note='syntactic non-interference', replay=fit_replay(fam)))
            if nret == 1:
                chk.add(Ob('C10.%s.canary.tau_is_minus_kendall' % fam, hy + [ir.ne(KT, 0)], ir.eq(tau_t, ir.neg(KT)),
                           free_ufs_ok=True, canary=True))
        if nret == 0 and not chk.undecided and not seen_exc:
            chk.engine_error('C10.%s: fit has no returning path' % fam)
    chk.assumptions += [
        'reals, not floats; tau is the uninterpreted value kendalltau(U, V)[0] constrained by the assumed contract '
        '(in [-1,1], NaN iff a constant column)',
        'whole-column reductions (min, max) are adversarial: the generic row is verified for every content of the others',
        'the model may be in any state before fit (theta, tau and every other attribute arbitrary)',
        'quantifier restricted to tau in (-1, 1) as in the property (Clayton returns theta = inf at tau = 1)',
    ]
    chk.not_addressed += [
        {'clause': 'Frank: existence/uniqueness of the root and convergence of least_squares from x0 = 1',
         'reason': '(X) assumed contract of scipy.optimize.least_squares'},
    ]
