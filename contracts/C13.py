"""C13 - Gaussian-copula density / CDF equal the normal-score MVN, in any representation.

Functions under contract: GaussianMultivariate.probability_density / cumulative_distribution / _transform_to_normal,
Multivariate.log_probability_density, check_fit. scipy's multivariate_normal pdf/cdf is an assumed contract.
"""
import itertools

from pyvc import ir, engine, smt, pdmodel, libmodel
from pyvc.report import Ob
from pyvc.values import Sym, Lane, Arr2, State
from . import gm, uni
from .gm import GM, N, K, NAMES, colvar

LEVEL = 'proof'
TRUSTED = ['scipy.stats.multivariate_normal.pdf/cdf: assumed contract (zero-mean normal density / CDF with the given '
           'covariance, evaluated row by row; cdf in [0,1] and non-decreasing per coordinate; for d >= 3 the CDF is a randomised '
           'quasi-Monte-Carlo estimate accurate to 1e-5 that consumes the global generator - a property of the dependency)',
           'monotone chain F_i, clip, Phi^-1, mvn.cdf => cumulative_distribution non-decreasing in every coordinate (cited)']
M = ir.var('m', 'I')


def qvar(label):
    return ir.var('q_%s@i' % label)


def density_replay(env):
    import numpy as np
    import pandas as pd
    import warnings
    warnings.simplefilter('ignore')
    from scipy import stats
    from copulas.multivariate import GaussianMultivariate
    from copulas.univariate import GaussianUnivariate
    from copulas.utils import EPSILON
    rs = np.random.RandomState(4)
    z = rs.multivariate_normal([0, 0, 0], [[1, .7, .2], [.7, 1, -.4], [.2, -.4, 1]], 600)
    X = pd.DataFrame({'zed': z[:, 0], 'b': 3 * z[:, 1] + 1, 'mid': np.exp(z[:, 2])})
    m = GaussianMultivariate(distribution=GaussianUnivariate)
    m.fit(X)
    Q = pd.DataFrame({'zed': [0.3, -1.2, 9.0], 'b': [2.0, 0.5, -30.0], 'mid': [1.1, 0.4, 3.0]})
    Z = np.column_stack([stats.norm.ppf(np.clip(u.cdf(Q[c].to_numpy()), EPSILON, 1 - EPSILON))
                         for c, u in zip(X.columns, m.univariates)])
    want = stats.multivariate_normal.pdf(Z, cov=m.correlation.to_numpy(), allow_singular=True)
    bad = []
    reps = {'frame': Q, 'permuted frame': Q[['mid', 'zed', 'b']], 'reversed frame': Q[['mid', 'b', 'zed']],
            'array': Q.to_numpy()}
    for name, q in reps.items():
        got = m.probability_density(q)
        if not np.allclose(got, want, rtol=1e-9):
            bad.append('%s: pdf %r vs %r' % (name, np.round(got, 6).tolist(), np.round(want, 6).tolist()))
    got = m.probability_density(Q.iloc[0])
    if not np.allclose(got, want[0], rtol=1e-9):
        bad.append('Series row: pdf %r vs %r' % (got, want[0]))
    got = m.probability_density(Q.to_numpy()[1])
    if not np.allclose(got, want[1], rtol=1e-9):
        bad.append('1-d array: pdf %r vs %r' % (got, want[1]))
    lp = m.log_probability_density(Q)
    if not np.allclose(lp, np.log(want), rtol=1e-9):
        bad.append('log pdf differs')
    c1 = m.cumulative_distribution(Q)
    c2 = m.cumulative_distribution(Q[['mid', 'zed', 'b']])
    if not np.allclose(c1, c2, atol=2e-4) or (c1 < 0).any() or (c1 > 1).any():
        bad.append('cdf differs between column orders or leaves [0,1]: %r vs %r' % (c1.tolist(), c2.tolist()))
    return {'confirmed': bool(bad), 'detail': '; '.join(bad) if bad else 'native density/CDF agree across representations'}


def bounded_batches(chk):
    """BOUNDED native stand-in for the clause 'the result for a row depends only on that row; batches of any size': the proof
    gets it from the generic-lane encoding, which presumes that the code treats a batch as a map over its rows. A batch whose
    composition matters to the code path (repeated rows, unsorted rows, one row) is run natively against the row-by-row result."""
    import numpy as np
    import pandas as pd
    import warnings
    warnings.simplefilter('ignore')
    from copulas.multivariate import GaussianMultivariate
    from copulas.univariate import GaussianUnivariate
    rs = np.random.RandomState(7 + (chk.seed or 0))
    evals = 0
    ncase = 0
    for d, corr in ((2, [[1, .6], [.6, 1]]), (3, [[1, .7, .2], [.7, 1, -.4], [.2, -.4, 1]])):
        z = rs.multivariate_normal([0] * d, corr, 400)
        X = pd.DataFrame(z * np.arange(1, d + 1) + 1.0, columns=['zed', 'b', 'mid'][:d])
        m = GaussianMultivariate(distribution=GaussianUnivariate)
        m.fit(X)
        base = X.iloc[:6].reset_index(drop=True)
        tol = {'probability_density': 1e-9, 'log_probability_density': 1e-9, 'cumulative_distribution': 5e-3}
        alone = {meth: np.array([float(np.ravel(getattr(m, meth)(base.iloc[[i]]))[0]) for i in range(len(base))]) for meth in tol}
        batches = {'as given': list(range(6)), 'reversed': list(range(5, -1, -1)), 'stacked twice': list(range(6)) * 2,
                   'descending then repeated': [5, 3, 1, 5, 3, 1, 0], 'one row repeated': [4, 4, 4],
                   'bootstrap': [int(i) for i in rs.randint(0, 6, 9)]}
        for bname, idx in batches.items():
            Q = base.iloc[idx].reset_index(drop=True)
            for meth in tol:
                ncase += 1
                evals += len(idx)
                try:
                    got = np.ravel(np.asarray(getattr(m, meth)(Q), dtype=float))
                    ok = got.shape == (len(idx),) and np.allclose(got, alone[meth][idx], rtol=tol[meth], atol=tol[meth])
                    detail = 'batch %r vs row by row %r' % (np.round(got, 5).tolist(), np.round(alone[meth][idx], 5).tolist())
                except Exception as e:      # noqa
                    ok, detail = False, '%s: %s' % (type(e).__name__, str(e)[:80])
                if not ok:
                    chk.bounded_violation('C13.%s.batches.bounded' % meth, {'d': d, 'batch': bname, 'rows': idx},
                                          '%s on the batch "%s" (rows %r of 6 distinct rows): %s' % (meth, bname, idx, detail))
                    break
    chk.bounded.append({'name': 'C13.batches.bounded', 'clause': 'the result for a row depends only on that row, for batches of '
                        'any size and composition', 'bound': 'd = 2, 3; 6 distinct rows; batches: as given, reversed, stacked '
                        'twice, unsorted with repeats, one row repeated, a bootstrap resample; pdf / log pdf to 1e-9, cdf to 5e-3 '
                        '(scipy randomises the integral)', 'evaluations': evals, 'distinct_nontrivial': ncase,
                        'rule': 'one case = one (d, batch, method)'})


def build(chk):
    bounded_batches(chk)
    I0 = engine.new_interp()
    src = I0.source
    chk.under_contract(src, [GM + '.probability_density', GM + '.cumulative_distribution', GM + '._transform_to_normal',
                             'copulas.multivariate.base.Multivariate.log_probability_density',
                             'copulas.multivariate.base.Multivariate.check_fit'])
    dims = (2, 3) if chk.tier == 'quick' else (2, 3, 4)
    for d in dims:
        labels = NAMES[:d]
        perms = list(itertools.permutations(labels)) if d <= 3 else [tuple(labels), tuple(reversed(labels)),
                                                                       tuple(labels[1:] + labels[:1])]
        reps = [('frame_' + ''.join(p), p) for p in perms] + [('series', None), ('array1d', None), ('array2d', None)]
        for rep, perm in reps:
            for meth in ('probability_density', 'cumulative_distribution', 'log_probability_density'):
                if meth != 'probability_density' and rep not in ('frame_' + ''.join(perms[-1]), 'array2d', 'series'):
                    continue
                tag = 'd%d.%s.%s' % (d, rep, {'probability_density': 'pdf', 'cumulative_distribution': 'cdf',
                                              'log_probability_density': 'logpdf'}[meth])
                I = engine.new_interp()
                gm.install_rootfinders(I)
                G = I.resolve(uni.CLASSES['GaussianUnivariate'][0])

                def body(c, I=I, labels=labels, rep=rep, perm=perm, meth=meth):
                    m = gm.fit_model(I, c, labels, G)
                    c.assume(ir.ge(M, 1))
                    msym = Sym(M)
                    if rep.startswith('frame'):
                        q = pdmodel.Frame(list(perm), {l: Lane(qvar(l), msym) for l in perm}, msym, owner='Q')
                        lanes = [Lane(qvar(l), msym) for l in labels]
                    elif rep == 'series':
                        vals = [Sym(ir.var('q_%s' % l)) for l in reversed(labels)]
                        q = pdmodel.SeriesRow(list(reversed(labels)), vals, owner='Q')
                        lanes = [Lane(ir.var('q_%s' % l), 1) for l in labels]
                    elif rep == 'array1d':
                        q = libmodel.ConcArr([Sym(ir.var('q_%s' % l)) for l in labels])
                        q.owner = 'Q'
                        lanes = [Lane(ir.var('q_%s' % l), 1) for l in labels]
                    else:
                        q = Arr2([Lane(qvar(l), msym) for l in labels], msym, owner='Q')
                        lanes = [Lane(qvar(l), msym) for l in labels]
                    out = I.call_method(m, meth, [q])
                    c.out['R'] = m.attrs['correlation']
                    c.out['Z'] = gm.spec_scores(I, m, labels, lanes)
                    return out
                res, ctx = engine.run_paths(I, body)
                kr = 0
                for r in res:
                    if r.outcome == 'unsupported':
                        chk.undecided.append(('C13.%s.exec' % tag, 'executor', str(r.value)))
                        continue
                    for e in r.events:
                        if e.kind == 'mutate':
                            chk.add(Ob('C13.%s.frame.%s' % (tag, e.data), e.pc, ir.FALSE, kind='frame', free_ufs_ok=True,
                                       function=GM + '.' + meth, clause='query object not modified (shared with C20)'))
                    if r.outcome != 'return':
                        chk.add(Ob('C13.%s.no_exception.%s' % (tag, getattr(r.value, 'clsname', '?')), r.pc, ir.FALSE,
                                   function=GM + '.' + meth, free_ufs_ok=True, replay=density_replay,
                                   clause='accepted representation [%s]' % str(getattr(r.value, 'args', ''))[:80]))
                        continue
                    kr += 1
                    R, Z = r.state['R'], r.state['Z']
                    rt = [x.t for row in R.data for x in row]
                    what = 'cdf' if meth == 'cumulative_distribution' else 'pdf'
                    base = ir.uf('mvn.' + what, Z + rt + [ir.const(what == 'pdf')])
                    want = ir.log(base) if meth == 'log_probability_density' else base
                    got = r.value.t if isinstance(r.value, (Lane, Sym)) else None
                    chk.add(Ob('C13.%s.is_mvn_of_scores.%d' % (tag, kr), r.pc,
                               ir.eq(got, want) if got is not None else ir.FALSE, function=GM + '.' + meth,
                               free_ufs_ok=True, replay=density_replay,
                               clause='%s(X) = %smultivariate_normal.%s(normal scores of X in TRAINING column order, cov = fitted '
                                      'correlation%s), row by row' % (meth, 'log ' if meth.startswith('log') else '', what,
                                                                     ', allow_singular' if what == 'pdf' else '')))
                    if kr == 1 and d == 2 and rep == 'array2d' and meth == 'probability_density':
                        wrong = ir.uf('mvn.pdf', list(reversed(Z)) + rt + [ir.TRUE])
                        chk.add(Ob('C13.canary.scores_reversed', r.pc, ir.eq(got, wrong), free_ufs_ok=True, canary=True))
                if kr == 0 and not chk.undecided:
                    chk.engine_error('C13.%s: no returning path' % tag)
    chk.assumptions += [
        'Gaussian marginals (any verified univariate contract could supply F_i); d = %s; all column permutations for d <= 3; '
        'DataFrame, Series (one row, labels in reverse order), 1-d array and 2-d array in training order; reals not floats' % (dims,),
        'row independence holds by construction of the generic-lane encoding (no whole-batch reduction is used on the path)',
    ]
    chk.not_addressed += [
        {'clause': 'cumulative_distribution in [0,1] and non-decreasing in every coordinate', 'reason': 'assumed contract of '
         'scipy mvn.cdf composed with the monotone F_i, clip and Phi^-1 (cited); scipy randomises the integral for d >= 3'},
    ]
