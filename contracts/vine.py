"""Shared contract machinery for VineCopula / Tree / Edge (C14-C17, C19, C20)."""
from pyvc import ir, engine, pdmodel, libmodel
from pyvc.values import Sym, Lane, Arr2, State
from pyvc.interp import Obj, PyList
from . import gm, uni

VINE = 'copulas.multivariate.vine.VineCopula'
TREE = 'copulas.multivariate.tree.'
N = gm.N
LABELS = ['c', 'a', 'd', 'b', 'f', 'e', 'g']      # not sorted: label handling must not rely on it


def fit_vine(I, c, d, vine_type, truncated=None, X=None, random_state=None, model=None):
    """VineCopula(vine_type).fit on a symbolic table with d non-constant columns; returns the model object"""
    labels = LABELS[:d]
    kw = {'random_state': random_state} if random_state is not None else {}
    m = model if model is not None else I.call_qual(VINE, [vine_type], kw)
    c.assume(ir.ge(N, 2))
    for l in labels:
        c.assume(ir.gt(gm.nunique(l), 1))
    X = X if X is not None else gm.training_frame(labels)
    I.call_method(m, 'fit', [X] + ([truncated] if truncated is not None else []))
    return m


# ------------------------------------------------------------------------------------------------------------------
# callee contracts used while verifying the vine code (modular step: the callers below are checked against these)
# ------------------------------------------------------------------------------------------------------------------

class AbsCopula(object):
    """A bivariate copula known only through its contracts (C06-C11): family (an abstract CopulaTypes member), theta,
    h = partial_derivative in [0, 1], density >= 0, percent_point in [0, 1]; all deterministic in (family, theta, inputs)."""

    def __init__(self, fam, theta=None, tau=None):
        self.fam, self.theta, self.tau = fam, theta, tau

    def __repr__(self):
        return 'AbsCopula(%s)' % ir.show(self.fam.t)

    def _pair(self, X):
        if isinstance(X, Arr2) and len(X.cols) == 2:
            return X.cols[0], X.cols[1]
        if isinstance(X, libmodel.Arr3Row) and len(X.lanes) == 2:         # np.array([[u_column, v_column]]), one row each
            return X.lanes[0], X.lanes[1]
        raise engine.paths.Unsupported('abstract copula argument %r' % (X,))

    def _key(self):
        if self.theta is None:
            raise engine.paths.Unsupported('abstract copula used before theta was set')
        return [self.fam.t, self.theta.t if isinstance(self.theta, Sym) else ir.const(self.theta)]

    def sym_getattr(self, interp, name):
        if name == 'copula_type':
            return self.fam
        if name in ('theta', 'tau'):
            return getattr(self, name)
        if name == 'partial_derivative':
            def h(X, y=0):
                u, v = self._pair(X)
                t = ir.uf('h', self._key() + [u.t, v.t])
                State.ctx.event('h', (self._key(), u.t, v.t), State.where)
                out = Lane(t, u.n)
                libmodel.values.assume_all_lanes(ir.and_(ir.ge(t, 0), ir.le(t, 1)))
                return out
            return h
        if name == 'probability_density':
            def pdf(X):
                u, v = self._pair(X)
                t = ir.uf('c', self._key() + [u.t, v.t])
                State.ctx.event('c', (self._key(), u.t, v.t), State.where)
                out = Lane(t, u.n)
                libmodel.values.assume_all_lanes(ir.ge(t, 0))
                return out
            return pdf
        if name == 'percent_point':
            def ppf(y, V):
                y = y if isinstance(y, Lane) else Lane(libmodel.to_term(y), 1)
                V = V if isinstance(V, Lane) else Lane(libmodel.to_term(V), 1)
                t = ir.uf('hinv', self._key() + [y.t, V.t])
                State.ctx.event('hinv', (self._key(), y.t, V.t), State.where)
                out = Lane(t, y.n)
                libmodel.values.assume_all_lanes(ir.and_(ir.ge(t, 0), ir.le(t, 1)))
                return out
            return ppf
        raise engine.paths.Unsupported('abstract copula attribute ' + name)

    def sym_setattr(self, interp, name, v):
        if name in ('theta', 'tau'):
            setattr(self, name, v)
            return
        raise engine.paths.Unsupported('abstract copula attribute store ' + name)


def install_contracts(I, log=None):
    """summaries: select_copula (C11 contract), the Bivariate factory on an abstract family, the KDE marginals (C03)"""
    log = log if log is not None else []

    def select_summary(interp, args, kwargs):
        X = args[0]
        if not (isinstance(X, Arr2) and len(X.cols) == 2):
            raise engine.paths.Unsupported('select_copula argument %r' % (X,))
        u, v = X.cols[0].whole(), X.cols[1].whole()
        fam = Sym(ir.uf('sel.family', [u, v], 'U'))
        theta = Sym(ir.uf('sel.theta', [u, v]))
        tau = Sym(ir.uf('sel.tau', [u, v]))
        State.ctx.event('select_copula', (X.cols[0].t, X.cols[1].t, u, v), State.where)
        log.append((u, v))
        return AbsCopula(fam, theta, tau)
    I.summaries['copulas.bivariate.select_copula'] = select_summary

    NEW = 'copulas.bivariate.base.Bivariate.__new__'

    def new_summary(interp, args, kwargs):
        ct = kwargs.get('copula_type')
        if isinstance(ct, Sym) and ct.t.sort == 'U':
            return AbsCopula(ct)
        saved = interp.summaries.pop(NEW)
        try:
            return interp.call(interp.resolve(NEW), args, kwargs)
        finally:
            interp.summaries[NEW] = saved
    I.summaries[NEW] = new_summary

    KDE = uni.CLASSES['GaussianKDE'][0]

    def dataset_of(obj):
        ds = obj.attrs['_params']['dataset']
        return libmodel._whole(ds)

    def cdf_summary(interp, args, kwargs):
        self, X = args[0], args[1]
        interp.call_method(self, 'check_fit', [])
        x = libmodel._num(X)
        if not isinstance(x, Lane):
            raise engine.paths.Unsupported('KDE cdf argument %r' % (X,))
        t = ir.uf('kde.cdf', [dataset_of(self), x.t])
        out = Lane(t, x.n)
        libmodel.values.assume_all_lanes(ir.and_(ir.ge(t, 0), ir.le(t, 1)))
        return out
    I.summaries[KDE + '.cumulative_distribution'] = cdf_summary

    def ppf_summary(interp, args, kwargs):
        self, U = args[0], args[1]
        interp.call_method(self, 'check_fit', [])
        u = libmodel._num(U)
        if isinstance(u, Sym):
            return Sym(ir.uf('kde.ppf', [dataset_of(self), u.t]))
        if not isinstance(u, Lane):
            raise engine.paths.Unsupported('KDE ppf argument %r' % (U,))
        return Lane(ir.uf('kde.ppf', [dataset_of(self), u.t]), u.n)
    I.summaries[KDE + '.percent_point'] = ppf_summary
    return log


# ------------------------------------------------------------------------------------------------------------------
# reading a fitted vine back (concrete structure, symbolic numbers)
# ------------------------------------------------------------------------------------------------------------------

class EdgeView(object):
    def __init__(self, obj, level, pos, prev_edges):
        a = obj.attrs
        self.obj, self.level, self.pos = obj, level, pos
        self.index, self.L, self.R = a['index'], a['L'], a['R']
        self.D = set(a['D'])
        self.name, self.theta, self.tau, self.U = a['name'], a['theta'], a['tau'], a['U']
        self.neighbors = list(a['neighbors'])
        ps = a['parents']
        self.parents = None
        if ps is not None:
            self.parents = [next((j for j, e in enumerate(prev_edges) if e.obj is p), None) for p in ps]

    @property
    def vars(self):
        return {self.L, self.R} | self.D


def read_vine(m):
    """-> list of trees, each a list of EdgeView"""
    trees = []
    prev = []
    for k, t in enumerate(m.attrs['trees']):
        edges = [EdgeView(e, k + 1, j, prev) for j, e in enumerate(t.attrs['edges'])]
        trees.append(edges)
        prev = edges
    return trees


# ------------------------------------------------------------------------------------------------------------------
# specification of a regular vine (independent of the code under verification); used on symbolic and native models
# ------------------------------------------------------------------------------------------------------------------

def plain_structure(trees):
    """trees of EdgeView -> [[{'L','R','D','parents'}]] (plain python)"""
    return [[{'L': int(e.L), 'R': int(e.R), 'D': {int(x) for x in e.D}, 'parents': e.parents} for e in t] for t in trees]


def native_structure(model):
    out, prev = [], []
    for t in model.trees:
        cur = []
        for e in t.edges:
            ps = None
            if e.parents is not None:
                ps = [next((j for j, q in enumerate(prev) if q is p), None) for p in e.parents]
            cur.append({'L': int(e.L), 'R': int(e.R), 'D': {int(x) for x in e.D}, 'parents': ps})
        out.append(cur)
        prev = list(t.edges)
    return out


def _connected(n_nodes, pairs):
    parent = list(range(n_nodes))

    def find(x):
        while parent[x] != x:
            parent[x] = parent[parent[x]]
            x = parent[x]
        return x
    for a, b in pairs:
        parent[find(a)] = find(b)
    return len({find(x) for x in range(n_nodes)}) == 1


def tree_pairs(S, k):
    """node pairs of tree k (0-based): variables for the first tree, indices of the previous tree's edges afterwards"""
    if k == 0:
        return [(e['L'], e['R']) for e in S[0]]
    return [tuple(e['parents']) if e['parents'] is not None else (None, None) for e in S[k]]


def structure_violations(S, d, vine_type, n_trees_expected=None):
    """-> list of (clause, detail) the structure S violates; [] for a regular vine of the requested type"""
    bad = []
    if n_trees_expected is not None and len(S) != n_trees_expected:
        bad.append(('tree_count', 'holds %d trees, expected %d' % (len(S), n_trees_expected)))
    if not S:
        bad.append(('tree_count', 'no tree'))
    seen_pairs = set()
    for k, T in enumerate(S):
        n_nodes = d - k
        if len(T) != n_nodes - 1:
            bad.append(('edge_count', 'tree %d has %d edges for %d nodes' % (k + 1, len(T), n_nodes)))
        pairs = tree_pairs(S, k)
        if any(a is None or b is None for a, b in pairs):
            bad.append(('parents', 'tree %d: an edge whose parents are not edges of tree %d' % (k + 1, k)))
            continue
        if any(a == b or not (0 <= a < n_nodes and 0 <= b < n_nodes) for a, b in pairs):
            bad.append(('spanning_tree', 'tree %d: loop or node out of range %r' % (k + 1, pairs)))
            continue
        if len(pairs) != n_nodes - 1 or not _connected(n_nodes, pairs):
            bad.append(('spanning_tree', 'tree %d is not a spanning tree on its %d nodes: %r' % (k + 1, n_nodes, pairs)))
        deg = [0] * n_nodes
        for a, b in pairs:
            deg[a] += 1
            deg[b] += 1
        if vine_type == 'center' and pairs and max(deg) != len(pairs):
            bad.append(('star', 'tree %d of a center vine is not a star: %r' % (k + 1, pairs)))
        if vine_type == 'direct' and pairs and max(deg) > 2:
            bad.append(('path', 'tree %d of a direct vine is not a path: %r' % (k + 1, pairs)))
        for e in T:
            if e['L'] == e['R']:
                bad.append(('conditioned_pair', 'tree %d: conditioned pair (%d,%d) not distinct' % (k + 1, e['L'], e['R'])))
            if len(e['D']) != k or e['L'] in e['D'] or e['R'] in e['D']:
                bad.append(('conditioning_set', 'tree %d: edge (%d,%d|%r) must have %d conditioning variables' %
                            (k + 1, e['L'], e['R'], sorted(e['D']), k)))
            if not all(0 <= x < d for x in {e['L'], e['R']} | e['D']):
                bad.append(('variables', 'tree %d: variable out of range' % (k + 1)))
            pr = frozenset((e['L'], e['R']))
            if pr in seen_pairs:
                bad.append(('pair_once', 'pair %r is conditioned twice' % (sorted(pr),)))
            seen_pairs.add(pr)
            if k >= 1:
                p, q = (S[k - 1][i] for i in e['parents'])
                vp, vq = {p['L'], p['R']} | p['D'], {q['L'], q['R']} | q['D']
                np_, nq = set(tree_pairs(S, k - 1)[e['parents'][0]]), set(tree_pairs(S, k - 1)[e['parents'][1]])
                if len(np_ & nq) != 1:
                    bad.append(('proximity', 'tree %d: the parents of (%d,%d|%r) do not share a node of tree %d' %
                                (k + 1, e['L'], e['R'], sorted(e['D']), k)))
                if e['D'] != (vp & vq):
                    bad.append(('conditioning_set', 'tree %d: D=%r is not the intersection %r of the variables of the parents' %
                                (k + 1, sorted(e['D']), sorted(vp & vq))))
                if {e['L'], e['R']} != (vp ^ vq):
                    bad.append(('conditioned_pair', 'tree %d: (%d,%d) is not the symmetric difference %r of the parents' %
                                (k + 1, e['L'], e['R'], sorted(vp ^ vq))))
    return bad


def tree_path(n_nodes, pairs, a, b):
    """edges (indices into pairs) on the path from a to b in the tree"""
    adj = {x: [] for x in range(n_nodes)}
    for i, (x, y) in enumerate(pairs):
        adj.setdefault(x, []).append((y, i))
        adj.setdefault(y, []).append((x, i))
    stack, seen = [(a, [])], {a}
    while stack:
        x, path = stack.pop()
        if x == b:
            return path
        for y, i in adj[x]:
            if y not in seen:
                seen.add(y)
                stack.append((y, path + [i]))
    return None


class mode(object):
    """vine mode of the executor: extrema, argsort and ranges over symbolic values are resolved by case split"""
    def __enter__(self):
        self.saved = (libmodel.CONCRETE_ARGEXT[0], libmodel.KENDALL_NONDEGENERATE[0])
        libmodel.CONCRETE_ARGEXT[0] = True
        libmodel.KENDALL_NONDEGENERATE[0] = True

    def __exit__(self, *a):
        libmodel.CONCRETE_ARGEXT[0], libmodel.KENDALL_NONDEGENERATE[0] = self.saved


class poisoned_empty(object):
    """native replays: inside copulas.multivariate.tree / vine only, np.empty returns arrays filled with `fill`
    (numpy and scipy themselves keep the real np.empty)"""
    def __init__(self, fill):
        self.fill = fill

    def __enter__(self):
        import numpy
        import copulas.multivariate.tree as T
        import copulas.multivariate.vine as V
        fill = self.fill

        class Proxy(object):
            def __getattr__(self, name):
                return getattr(numpy, name)

            @staticmethod
            def empty(shape, *a, **k):
                r = numpy.empty(shape, *a, **k)
                r.fill(fill)
                return r
        self.mods = [(T, T.np), (V, V.np)]
        T.np = V.np = Proxy()

    def __exit__(self, *a):
        for mod, orig in self.mods:
            mod.np = orig


def flatten(v, path=''):
    """a dict / list tree of model data -> [(path, term | python constant)] (sets in sorted order, symbolic-length lists
    by their generic element)"""
    from pyvc.values import GenList
    from pyvc.interp import GenRows
    import enum
    if isinstance(v, dict):
        out = []
        for k in sorted(v, key=str):
            out += flatten(v[k], '%s.%s' % (path, k))
        return out
    if isinstance(v, GenList):
        return [(path + '[*]', v.lane.t), (path + '.len', libmodel.to_term(v.lane.n))]
    if isinstance(v, GenRows):
        out = [(path + '.len', libmodel.to_term(v.cols[0].n))] if v.cols else []
        return out + [('%s[*][%d]' % (path, j), c.t) for j, c in enumerate(v.cols)]
    if isinstance(v, (set, frozenset)):
        return [(path, tuple(sorted(v, key=str)))]
    if isinstance(v, (list, tuple)):
        out = [(path + '.len', len(v))]
        for j, x in enumerate(v):
            out += flatten(x, '%s[%d]' % (path, j))
        return out
    if isinstance(v, Sym):
        return [(path, v.t)]
    if isinstance(v, Lane):
        return [(path + '[*]', v.t), (path + '.len', libmodel.to_term(v.n))]
    if isinstance(v, enum.Enum):
        return [(path, str(v))]
    if hasattr(v, 'data') and hasattr(v, 'shape'):
        return flatten(v.data, path)
    if hasattr(v, 'rows'):
        return flatten(list(v.rows), path)
    if isinstance(v, Arr2):
        return flatten(list(v.cols), path)
    if hasattr(v, 'labels') and not hasattr(v, 'cols'):
        return [(path, tuple(v.labels))]
    if type(v).__name__ == 'Index':
        return [(path, tuple(getattr(v, 'labels', getattr(v, 'items', []))))]
    return [(path, v)]


def same_tree(a, b):
    """-> (goal term, first structural difference or None) for two flattened trees"""
    fa, fb = flatten(a), flatten(b)
    if [p for p, _ in fa] != [p for p, _ in fb]:
        pa, pb = [p for p, _ in fa], [p for p, _ in fb]
        diff = next((x for x in pa if x not in pb), None) or next((x for x in pb if x not in pa), None)
        return ir.FALSE, 'different shape at %s' % diff
    goals = []
    for (p, x), (_q, y) in zip(fa, fb):
        xt, yt = isinstance(x, ir.T), isinstance(y, ir.T)
        if xt or yt:
            try:
                tx, ty = libmodel.to_term(x) if not xt else x, libmodel.to_term(y) if not yt else y
            except Exception:
                return ir.FALSE, 'different kind at %s' % p
            if tx.sort != ty.sort and not {tx.sort, ty.sort} <= {'R', 'I'}:
                return ir.FALSE, 'different sort at %s' % p
            goals.append(ir.eq(tx, ty))
        elif x != y and not (x is y):
            return ir.FALSE, 'different at %s: %r vs %r' % (p, x, y)
    return (ir.and_(*goals) if goals else ir.TRUE), None


def mentions_undef(t):
    return sorted({v.args[0] for v in ir.free_vars(t) if v.args[0].startswith('undef!')})
