"""C01 - Gaussian-copula synthetic data keeps schema, marginals and dependence (code-level premises).

Functions under contract: GaussianMultivariate.fit / _fit_columns / _fit_column / sample (through the real random_state
wrapper) / _get_normal_samples, utils.get_instance for every marginal configuration (class, qualified name, instance
prototype, per-column dict). The distributional conclusions follow from the proved premises by the cited lemma L5.
"""
import itertools

from pyvc import ir, engine, smt, pdmodel
from pyvc.report import Ob
from pyvc.values import Sym, Lane, State
from pyvc.interp import Obj
from . import gm, uni
from .gm import GM, N, K, NAMES, colvar, colwhole
from .uni import term

LEVEL = 'proof'
TRUSTED = ['L5 (cited): z ~ N(0, R) with unit diagonal => Phi(z_i) ~ U(0,1); F_i^{-1}(Phi(z_i)) has law F_i; monotone maps keep '
           'the rank dependence of the Gaussian copula with matrix R',
           'np.random.multivariate_normal: assumed contract (n draws from N(mean, cov), function of the global state)',
           'percent_point of the per-column marginals through their own contracts (C03)']


def spec_marginal_params(cls, label):
    """fitted parameters the C04 contract gives for column `label`"""
    w = colwhole(label)
    if cls == 'GaussianUnivariate':
        return {'loc': ir.uf('np.mean', [w]), 'scale': ir.uf('np.std', [w, ir.ZERO])}
    if cls == 'UniformUnivariate':
        return {'loc': ir.uf('np.min', [w]), 'scale': ir.sub(ir.uf('np.max', [w]), ir.uf('np.min', [w]))}
    return None


def sample_replay(env):
    import numpy as np
    import pandas as pd
    import warnings
    warnings.simplefilter('ignore')
    from scipy import stats
    from copulas.multivariate import GaussianMultivariate
    from copulas.univariate import GaussianUnivariate, UniformUnivariate, BetaUnivariate
    rs = np.random.RandomState(2)
    z = rs.multivariate_normal([0, 0, 0], [[1, .8, -.5], [.8, 1, -.2], [-.5, -.2, 1]], 1500)
    X = pd.DataFrame({'t': 1.7e9 + 600 * z[:, 0], 'lat': 40.7128 + 3e-5 * z[:, 1], 'w': stats.norm.cdf(z[:, 2]) * 10,
                      'k': np.full(1500, 7.25)})
    bad = []
    configs = {'class': GaussianUnivariate, 'name': 'copulas.univariate.gaussian.GaussianUnivariate',
               'instance': GaussianUnivariate(), 'dict': {'t': GaussianUnivariate, 'lat': GaussianUnivariate(),
                                                          'w': UniformUnivariate, 'k': GaussianUnivariate},
               'partial dict': {'w': UniformUnivariate}}
    for name, dist in configs.items():
        m = GaussianMultivariate(distribution=dist, random_state=0)
        m.fit(X)
        S = m.sample(4000)
        if list(S.columns) != list(X.columns) or len(S) != 4000 or S.isna().any().any():
            bad.append('%s: schema %r, %d rows' % (name, list(S.columns), len(S)))
            continue
        if not (S['k'] == 7.25).all():
            bad.append('%s: constant column not reproduced' % name)
        if len({id(u) for u in m.univariates}) != len(m.univariates):
            bad.append('%s: columns share one marginal object' % name)
        for col in ('t', 'lat', 'w'):
            ks = stats.ks_2samp(S[col], X[col]).statistic
            if ks > 0.08:
                bad.append('%s: column %s sampled far from its marginal (KS %.3f, std %.3g vs %.3g)' %
                           (name, col, ks, S[col].std(), X[col].std()))
        r = stats.spearmanr(S['t'], S['lat'])[0]
        if abs(r - stats.spearmanr(X['t'], X['lat'])[0]) > 0.08:
            bad.append('%s: rank correlation t~lat %.3f vs %.3f in the data' % (name, r, stats.spearmanr(X['t'], X['lat'])[0]))
    return {'confirmed': bool(bad), 'detail': '; '.join(bad[:6]) if bad else 'native samples keep schema, marginals, dependence'}


def build(chk):
    I0 = engine.new_interp()
    src = I0.source
    chk.under_contract(src, [GM + '.' + f for f in ('fit', '_fit_columns', '_fit_column', 'sample', '_get_normal_samples',
                                                     '_get_distribution_for_column', '__init__')] +
                       ['copulas.utils.random_state', 'copulas.utils.get_instance'])
    dims = (2, 3) if chk.tier == 'quick' else (2, 3, 4)
    for d in dims:
        labels = NAMES[:d]
        for cfg in ('class', 'name', 'instance', 'dict', 'partial_dict', 'class_after_refit'):
            if cfg == 'class_after_refit' and d != 2:
                continue
            if cfg == 'partial_dict' and d < 3:
                continue
            consts = [(), (labels[1],)] if cfg in ('class', 'dict') else [()]
            for const in consts:
                tag = 'd%d.%s.const_%s' % (d, cfg, ''.join(const) or 'none')
                I = engine.new_interp()
                gm.install_rootfinders(I)
                Gq, Uq = uni.CLASSES['GaussianUnivariate'][0], uni.CLASSES['UniformUnivariate'][0]
                fam = ['GaussianUnivariate'] * d
                if cfg == 'partial_dict':
                    # a dict naming only the LAST column; the unnamed ones go through the selecting Univariate, whose choice
                    # is taken from its contract (C05) - here a Gaussian. Schema and per-column marginals as for a full dict.
                    I.summaries['copulas.univariate.selection.select_univariate'] = \
                        lambda interp, args, kwargs: uni.new_model(interp, 'GaussianUnivariate')

                def mkdist(I=I, cfg=cfg, labels=labels, fam=fam):
                    G, Uc = I.resolve(Gq), I.resolve(Uq)
                    if cfg in ('class', 'class_after_refit'):
                        return G
                    if cfg == 'name':
                        return Gq
                    if cfg == 'instance':
                        return I.call(G, [], {})
                    if cfg == 'partial_dict':
                        fam[:] = ['Univariate'] * (len(labels) - 1) + ['UniformUnivariate']
                        return {labels[-1]: Uc}
                    out = {}
                    for i, l in enumerate(labels):
                        out[l] = [G, Uc, I.call(G, [], {}), Gq][i % 4] if i > 0 else I.call(Uc, [], {})
                        fam[i] = 'UniformUnivariate' if (i == 0 or i % 4 == 1) else 'GaussianUnivariate'
                    return out

                def body(c, I=I, labels=labels, const=const, mkdist=mkdist, cfg=cfg):
                    m0 = None
                    if cfg == 'class_after_refit':
                        # history: the same object was fitted on another table with the same labels and sampled from
                        n0 = Sym(ir.var('n0', 'I'))
                        c.assume(ir.ge(n0.t, 2))
                        X0 = pdmodel.Frame(list(labels), {l: Lane(ir.var('y_%s@i' % l), n0) for l in labels}, n0)
                        for l in labels:
                            c.assume(ir.gt(ir.uf('n_unique', [ir.var('y_%s' % l, 'U')], 'I'), 1))
                        m0 = I.call_qual(GM, [], {'distribution': mkdist()})
                        I.call_method(m0, 'fit', [X0])
                        I.call_method(m0, 'sample', [Sym(ir.var('k0', 'I'))])
                        State.rng = ir.var('G0', 'U')
                        c.out['ev0'] = len(c.events)
                    m = gm.fit_model(I, c, labels, mkdist(), constant=const, model=m0)
                    c.assume(ir.ge(K, 1))
                    S = I.call_method(m, 'sample', [Sym(K)])
                    R = m.attrs['correlation']
                    unis = m.attrs['univariates']
                    c.out.update({'m': m, 'S': S, 'R': R, 'unis': unis})
                    # spec: column i = F_i^{-1}(Phi(z_i)), z = multivariate_normal(0, R, k) labelled by the training columns
                    g0 = ir.var('G0', 'U')
                    rt = [x.t for row in R.data for x in row] if isinstance(R, pdmodel.LabeledMat) else []
                    want = []
                    for i, l in enumerate(labels):
                        zi = Lane(ir.uf('mvn.draw', [g0, ir.const(i)] + [ir.ZERO] * len(labels) + rt + [K, ir.var('@i', 'I')]), Sym(K))
                        saved = State.safety
                        State.safety = False
                        try:
                            want.append(I.call_method(unis[i], 'percent_point', [Lane(ir.ndtr(zi.t), Sym(K))]))
                        finally:
                            State.safety = saved
                    c.out['want'] = want
                    c.out['params'] = [dict(u.attrs.get('_params') or {}) if isinstance(u, Obj) else None for u in unis]
                    c.out['distinct'] = len({id(u) for u in unis}) == len(unis)
                    c.out['classes'] = [u.cls.name for u in unis]
                    return S
                res, ctx = engine.run_paths(I, body)
                kr = 0
                for r in res:
                    if r.outcome == 'unsupported':
                        chk.undecided.append(('C01.%s.exec' % tag, 'executor', str(r.value)))
                        continue
                    if r.outcome != 'return':
                        chk.add(Ob('C01.%s.no_exception.%s' % (tag, getattr(r.value, 'clsname', '?')), r.pc, ir.FALSE,
                                   function=GM + '.sample', free_ufs_ok=True, replay=sample_replay,
                                   clause='fit and sample succeed [%s]' % str(getattr(r.value, 'args', ''))[:70]))
                        continue
                    kr += 1
                    S, st = r.value, r.state
                    fq = GM + '.sample'
                    ok_schema = isinstance(S, pdmodel.Frame) and S.labels == labels
                    chk.add(Ob('C01.%s.schema.%d' % (tag, kr), [], ir.const(bool(ok_schema)), backends=('syntactic',),
                               function=fq, clause='sample returns the training columns in the training order',
                               replay=sample_replay))
                    if not ok_schema:
                        continue
                    chk.add(Ob('C01.%s.one_marginal_per_column.%d' % (tag, kr), [],
                               ir.const(bool(st['distinct']) and st['classes'] == fam), backends=('syntactic',),
                               function=GM + '._fit_columns', replay=sample_replay,
                               clause='each column gets its own, newly created marginal of the configured family '
                                      '[%s]' % st['classes']))
                    draws = [e for e in r.events[st.get('ev0', 0):] if e.kind == 'mvn_draw']
                    chk.add(Ob('C01.%s.one_normal_draw.%d' % (tag, kr), [], ir.const(len(draws) == 1),
                               backends=('syntactic',), function=GM + '._get_normal_samples',
                               clause='one multivariate normal draw drives the sample'))
                    for e in draws[:1]:
                        rt = [x.t for row in st['R'].data for x in row]
                        goal = ir.and_(*([ir.eq(mt, 0) for mt in e.data['mean']] +
                                         [ir.eq(a, b) for a, b in zip(e.data['cov'], rt)] +
                                         [ir.const(len(e.data['cov']) == len(rt)), ir.eq(e.data['n'], K)]))
                        chk.add(Ob('C01.%s.normal_draw_is_N0R.%d' % (tag, kr), r.pc, goal, free_ufs_ok=True,
                                   function=GM + '._get_normal_samples', replay=sample_replay,
                                   clause='the latent draw is N(0, fitted correlation), n rows'))
                    for i, l in enumerate(labels):
                        col = S.cols[l]
                        n_t = col.n.t if isinstance(col.n, Sym) else ir.const(col.n)
                        chk.add(Ob('C01.%s.rows.%s.%d' % (tag, l, kr), r.pc, ir.eq(n_t, K), function=fq, free_ufs_ok=True,
                                   clause='exactly n rows'))
                        if l in const:
                            chk.add(Ob('C01.%s.constant_column.%s.%d' % (tag, l, kr), r.pc,
                                       ir.eq(col.t, ir.uf('unique0', [colwhole(l)])), function=fq, free_ufs_ok=True,
                                       clause='a constant training column is reproduced exactly', replay=sample_replay))
                            continue
                        chk.add(Ob('C01.%s.column_is_inverse_marginal_of_phi_z.%s.%d' % (tag, l, kr), r.pc,
                                   ir.eq(col.t, term(st['want'][i])), function=fq, free_ufs_ok=True, replay=sample_replay,
                                   clause='column %s = F^{-1}(Phi(z)) with F the marginal fitted for THAT column and z its '
                                          'coordinate of the latent normal draw' % l))
                        sp = spec_marginal_params(fam[i], l)
                        pr = st['params'][i]
                        if sp and pr:
                            goal = ir.and_(*[ir.eq(term(pr[k_]), sp[k_]) if k_ in pr else ir.FALSE for k_ in sp])
                            chk.add(Ob('C01.%s.marginal_fitted_on_its_column.%s.%d' % (tag, l, kr), r.pc, goal,
                                       function=GM + '._fit_column', free_ufs_ok=True, replay=sample_replay,
                                       clause='the marginal of column %s is estimated from column %s' % (l, l)))
                    if kr == 1 and d == 2 and cfg == 'class' and not const:
                        chk.add(Ob('C01.canary.columns_swapped', r.pc, ir.eq(S.cols[labels[0]].t, term(st['want'][1])),
                                   free_ufs_ok=True, canary=True))
                if kr == 0 and not chk.undecided:
                    chk.engine_error('C01.%s: no returning path' % tag)
    chk.lemmas += ['L5 (cited)']
    chk.assumptions += [
        'marginal configurations: class, qualified name, instance prototype, per-column dict (Gaussian / Uniform families; '
        'the default selecting Univariate is covered by C05 + C03); d = %s columns; reals not floats' % (dims,),
        'random_state None here (the seeded wrapper and the global-state discipline are C15)',
    ]
    chk.not_addressed += [
        {'clause': 'each column distributed according to its marginal; pairwise rank dependence equals that of the fitted '
                   'correlation; recovery of generating marginals/correlation within sampling error', 'reason': '(S) follows from '
         'the proved premises by the cited L5; recovery is a statistical consistency statement'},
        {'clause': 'no missing values', 'reason': 'percent_point of the scipy families is finite on (0,1) (assumed contract); '
         'Phi(z) lies in (0,1) over the reals'},
    ]
