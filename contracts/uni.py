"""Shared contract machinery for the univariate models (C03, C04, C05, C14, C19)."""
from fractions import Fraction

from pyvc import ir, engine, smt, libmodel
from pyvc.values import Sym, Lane, Arr2, GenList, State
from pyvc.interp import Obj, PyRaise

N = ir.var('n', 'I')
M = ir.var('m', 'I')
X = ir.var('x@i')
Q = ir.var('q@i')
XW = ir.var('x', 'U')
EPS32 = Fraction(1, 2 ** 23)
IDX = ir.var('@i', 'I')

U = 'copulas.univariate.'
CLASSES = {
    'GaussianUnivariate': (U + 'gaussian.GaussianUnivariate', 'norm'),
    'UniformUnivariate': (U + 'uniform.UniformUnivariate', 'uniform'),
    'BetaUnivariate': (U + 'beta.BetaUnivariate', 'beta'),
    'GammaUnivariate': (U + 'gamma.GammaUnivariate', 'gamma'),
    'StudentTUnivariate': (U + 'student_t.StudentTUnivariate', 't'),
    'LogLaplace': (U + 'log_laplace.LogLaplace', 'loglaplace'),
    'TruncatedGaussian': (U + 'truncated_gaussian.TruncatedGaussian', 'truncnorm'),
    'GaussianKDE': (U + 'gaussian_kde.GaussianKDE', 'kde'),
}
BASE = U + 'base.'


def fit_uf(dist, name, extra=()):
    return ir.uf('fit.%s.%s' % (dist, name), [XW] + list(extra))


MINX = ir.uf('np.min', [XW])
MAXX = ir.uf('np.max', [XW])
MEANX = ir.uf('np.mean', [XW])
STDX = ir.uf('np.std', [XW, ir.ZERO])


def spec_params(cls):
    """the parameters the property prescribes after fitting non-constant data x (C04)"""
    if cls == 'GaussianUnivariate':
        return {'loc': MEANX, 'scale': STDX}
    if cls == 'UniformUnivariate':
        return {'loc': MINX, 'scale': ir.sub(MAXX, MINX)}
    if cls == 'BetaUnivariate':
        ex = [ir.const('loc'), MINX, ir.const('scale'), ir.sub(MAXX, MINX)]
        return {k: fit_uf('beta', k, ex) for k in ('a', 'b', 'loc', 'scale')}
    if cls == 'GammaUnivariate':
        return {k: fit_uf('gamma', k) for k in ('a', 'loc', 'scale')}
    if cls == 'StudentTUnivariate':
        return {k: fit_uf('t', k) for k in ('df', 'loc', 'scale')}
    if cls == 'LogLaplace':
        return {k: fit_uf('loglaplace', k) for k in ('c', 'loc', 'scale')}
    return None


def dist_args(dist, params):
    """argument list of the assumed scipy contract: shapes..., loc, scale"""
    names = libmodel.DIST_SHAPES[dist] + ['loc', 'scale']
    return [params[k] for k in names]


def term(v):
    if isinstance(v, (Sym, Lane)):
        return v.t
    if isinstance(v, (int, float, bool, Fraction)):
        return ir.const(v)
    if isinstance(v, ir.T):
        return v
    raise TypeError('no term for %r' % (v,))


def new_model(I, cls, args=(), kwargs=None):
    return I.call_qual(CLASSES[cls][0] if cls in CLASSES else cls, list(args), kwargs or {})


def data_lane(owner='X', name='x'):
    return Lane(ir.var(name + '@i'), Sym(N), owner=owner)


def query_lane():
    return Lane(Q, Sym(M))


def run_fit_and_query(cls, ctor_kwargs=None, methods=('cumulative_distribution',), prior=None, safety=False,
                      constant=None, I=None, after_fit=None):
    """fit a fresh <cls>(**ctor_kwargs) on an arbitrary 1-d array x (n >= 1) and call the given query methods on an
    arbitrary array q. returns (I, results, ctx); result.state has 'params', 'model', 'out' (method -> value)."""
    I = I or engine.new_interp()

    def body(c):
        m = new_model(I, cls, (), ctor_kwargs or {})
        if prior is not None:
            prior(I, c, m)
        x = data_lane()
        c.assume(ir.ge(N, 2))
        c.assume(ir.ge(M, 1))
        if constant is True:
            c.assume(ir.eq(ir.uf('n_unique', [XW], 'I'), 1))
        elif constant is False:
            c.assume(ir.gt(ir.uf('n_unique', [XW], 'I'), 1))
        c.out['model'] = m
        I.call_method(m, 'fit', [x])
        c.out['params'] = dict(m.attrs['_params']) if isinstance(m.attrs.get('_params'), dict) else m.attrs.get('_params')
        c.out['attrs'] = dict(m.attrs)
        if after_fit is not None:
            after_fit(I, c, m)
        out = {}
        for meth in methods:
            if meth == 'sample':
                out[meth] = I.call_method(m, meth, [Sym(M)])
            elif meth == 'percent_point':
                from pyvc.values import assume_all_lanes
                assume_all_lanes(ir.and_(ir.ge(Q, 0), ir.le(Q, 1)))        # probabilities (every lane)
                out[meth] = I.call_method(m, meth, [query_lane()])
            else:
                out[meth] = I.call_method(m, meth, [query_lane()])
        c.out['out'] = out
        return out
    res, ctx = engine.run_paths(I, body, safety=safety)
    return I, res, ctx


def is_constant_path(r):
    """did this path take the constant-data branch (n_unique == 1)?"""
    one = ir.eq(ir.uf('n_unique', [XW], 'I'), 1)
    sat, _ = smt.satisfiable(list(r.pc) + [ir.not_(one)], timeout_ms=3000)
    return sat is False


def rootfinder_summary(name, record):
    """contract of copulas.optimize.bisect / chandrupatla as proved in C18, used modularly at a call site:
    REQUIRES f(xmin) <= 0 <= f(xmax) lane-wise (recorded as call-site obligations); ENSURES a result in the bracket at
    which f vanishes (tolerance neglected); the bracket arrays are not modified."""
    def summ(interp, args, kwargs):
        f, lo, hi = args[0], args[1], args[2]
        c = State.ctx
        saved = State.safety
        State.safety = False
        try:
            flo = interp.call(f, [lo], {})
            fhi = interp.call(f, [hi], {})
            probe = Lane(ir.var('$probe@i'), lo.n, lo.mask)
            fp = interp.call(f, [probe], {})
            # the root is a deterministic function of (f, bracket): named by f's defining term at a canonical probe
            r = Lane(ir.uf('rootfinder.root', [fp.t, lo.t, hi.t]), lo.n, lo.mask)
            fr = interp.call(f, [r], {})
        finally:
            State.safety = saved
        c.assume(ir.and_(ir.le(lo.t, r.t), ir.le(r.t, hi.t)))
        c.event('rootfinder', {'name': name, 'f_lo': flo.t, 'f_hi': fhi.t, 'lo': lo.t, 'hi': hi.t, 'root': r.t,
                               'f_root': fr.t, 'mask': lo.mask}, State.where)
        record.append(1)
        return r
    return summ
