"""C07 - copula density and conditional CDF are the derivatives of the CDF.

Functions under contract (real AST, executed symbolically for a generic lane, theta symbolic, object state
arbitrary except theta/tau): <Family>.cumulative_distribution / partial_derivative / probability_density,
Bivariate.log_probability_density, Bivariate.check_fit / check_theta, bivariate.utils.split_matrix.
"""
import itertools

import sympy as sp

from pyvc import ir, engine, values, smt, cas
from pyvc.report import Ob
from pyvc.values import Lane, Sym
from . import biv
from .biv import TH, U, V, N, FAMILIES

LEVEL = 'proof'
TRUSTED = [
    'L1 (cited, calculus): C is C^2 on the open square, d2C/dudv = c >= 0  =>  the C-volume of every rectangle is '
    'the integral of c over it (hence >= 0)',
    'L10 (cited, mean value theorem): dh/du >= 0 on (0,1) => h(.,v) non-decreasing',
    'sympy 1.14 simplification is trusted for the identities it reduces to 0',
]


def swap_uv(t, ctx_tag='s'):
    m = {U: V, V: U}
    for x in ir.free_vars(t):
        nm = x.args[0]
        if '!' in nm and x not in m:
            m[x] = ir.var(nm + '~' + ctx_tag, x.sort)
    return ir.substitute(t, m)


def rename_reductions(ts, tag):
    m = {}
    for t in ts:
        for x in ir.free_vars(t):
            if '!' in x.args[0]:
                m[x] = ir.var(x.args[0] + '~' + tag, x.sort)
    return [ir.substitute(t, m) for t in ts], m


def returned(results):
    return [r for r in results if r.outcome == 'return']


def joint_feasible(pc1, pc2):
    sat, _ = smt.satisfiable(list(pc1) + list(pc2), timeout_ms=5000)
    return sat is not False


def replay_numeric(fam, method, expect_fn, what):
    """native replay: evaluate the real method at the model point and compare with a central finite difference
    of the real cumulative_distribution (expect_fn(copula, u, v))."""
    def rep(env):
        import numpy as np
        env = biv.model_floats(env)
        th = env.get('theta')
        u, v = env.get('u@i', env.get('u')), env.get('v@i', env.get('v'))
        if th is None or u is None or v is None:
            return {'confirmed': False, 'detail': 'model lacks theta/u/v: %r' % (env,)}
        attrs = {k[5:].split('!')[0]: val for k, val in env.items() if k.startswith('attr_')}
        c = biv.native_copula(fam, th, attrs=attrs)
        got = float(np.ravel(getattr(c, method)(np.array([[u, v]])))[0])
        want = expect_fn(biv.native_copula(fam, th), u, v)
        ok = abs(got - want) <= 1e-5 * max(1.0, abs(want))
        return {'confirmed': not ok, 'detail': '%s.%s(theta=%r,u=%r,v=%r,attrs=%r) = %r, %s = %r' %
                (fam, method, th, u, v, attrs, got, what, want), 'input': {'theta': th, 'u': u, 'v': v, 'attrs': attrs}}
    return rep


def fd_dv(c, u, v, h=1e-6):
    import numpy as np
    f = lambda vv: float(np.ravel(c.cumulative_distribution(np.array([[u, vv]])))[0])
    return (f(v + h) - f(v - h)) / (2 * h)


def fd_dudv(c, u, v, h=1e-4):
    import numpy as np
    f = lambda uu, vv: float(np.ravel(c.cumulative_distribution(np.array([[uu, vv]])))[0])
    return (f(u + h, v + h) - f(u + h, v - h) - f(u - h, v + h) + f(u - h, v - h)) / (4 * h * h)


int_theta_replay = biv.int_theta_replay


def build(chk):
    I0 = engine.new_interp()
    src = I0.source
    open_box = {'u@i': (1e-4, 1 - 1e-4), 'v@i': (1e-4, 1 - 1e-4)}
    for fam, F in FAMILIES.items():
        chk.under_contract(src, [F['cls'] + '.' + m for m in
                                 ('cumulative_distribution', 'partial_derivative', 'probability_density')])
        I, resC, _ = biv.run_method(fam, 'cumulative_distribution', open_at_one=True)
        _, resH, _ = biv.run_method(fam, 'partial_derivative', open_at_one=True)
        _, resD, _ = biv.run_method(fam, 'probability_density', open_at_one=True)
        _, resL, _ = biv.run_method(fam, 'log_probability_density', open_at_one=True)
        biv.crosscheck(chk, fam, 'partial_derivative', resH)
        biv.crosscheck(chk, fam, 'probability_density', resD)
        # ---- a theta stored as an INTEGER (assigned by the user, or read back from a JSON file) gives the same functions ----
        for tagi, meth, resR in (('cdf', 'cumulative_distribution', resC), ('h', 'partial_derivative', resH),
                                 ('pdf', 'probability_density', resD)):
            biv.int_theta_obs(chk, 'C07', fam, meth, tagi, resR, open_at_one=True)
        for tag, res in (('cdf', resC), ('h', resH), ('pdf', resD), ('logpdf', resL)):
            bad = [r for r in res if r.outcome in ('unsupported',)]
            for r in bad:
                chk.undecided.append(('C07.%s.%s.exec' % (fam, tag), 'executor', str(r.value)))
            for r in res:
                if r.outcome == 'raise':
                    # no exception may escape for a valid theta on the open square
                    chk.add(Ob('C07.%s.%s.no_exception.%s' % (fam, tag, r.value.clsname), r.pc, ir.FALSE,
                               kind='safety', function=F['cls'], clause='defined for every valid parameter',
                               replay=None))
                for o in r.obligations:
                    chk.add(Ob('C07.%s.%s.%s' % (fam, tag, o.name), o.hyps, o.goal, kind='safety',
                               function=F['cls'], clause='formula defined on the open square', where=o.where))
        Cs, Hs, Ds, Ls = returned(resC), returned(resH), returned(resD), returned(resL)
        if not (Cs and Hs and Ds and Ls):
            if not any(r.outcome == 'unsupported' for res in (resC, resH, resD, resL) for r in res):
                chk.engine_error('C07.%s: a method has no returning path (vacuous)' % fam)
            continue

        # --- identities h = dC/dv, pdf = d2C/dudv : every jointly feasible pair of paths ------------------
        k = 0
        for (a, rh), (b, rc) in itertools.product(enumerate(Hs), enumerate(Cs)):
            pc2, m = rename_reductions(rc.pc, 'c')
            if not joint_feasible(rh.pc, pc2):
                continue
            subs = biv.eqs_of(rh.pc)
            subs.update(biv.eqs_of(rc.pc))
            ct = ir.substitute(biv.lane_term(rc.value), m)

            def rhs(syms, mm, ct=ct):
                e = biv.to_sp(ir.substitute(ct, mm) if mm else ct, syms)
                return sp.diff(e, syms['v@i'])
            chk.add(Ob('C07.%s.h.is_dC_dv.%d' % (fam, k), rh.pc + pc2, ir.TRUE, kind='post', backends=('cas',),
                       cas=biv.cas_identity(fam, biv.lane_term(rh.value), rhs, subs, 'h', rh.pc + pc2),
                       function=F['cls'] + '.partial_derivative', clause='partial_derivative(u,v) = dC/dv',
                       replay=replay_numeric(fam, 'partial_derivative', fd_dv, 'finite-difference dC/dv')))
            if k == 0 and fam != 'gumbel':
                def rhs_wrong(syms, mm, ct=ct):
                    e = biv.to_sp(ir.substitute(ct, mm) if mm else ct, syms)
                    return sp.diff(e, syms['u@i'])
                chk.add(Ob('C07.%s.canary.h_is_dC_du' % fam, rh.pc + pc2, ir.TRUE, backends=('cas',), canary=True,
                           cas=biv.cas_identity(fam, biv.lane_term(rh.value), rhs_wrong, subs, 'h', rh.pc + pc2)))
            k += 1
        k = 0
        for (a, rd), (b, rc) in itertools.product(enumerate(Ds), enumerate(Cs)):
            pc2, m = rename_reductions(rc.pc, 'c')
            if not joint_feasible(rd.pc, pc2):
                continue
            subs = biv.eqs_of(rd.pc)
            subs.update(biv.eqs_of(rc.pc))
            ct = ir.substitute(biv.lane_term(rc.value), m)

            def rhs2(syms, mm, ct=ct):
                e = biv.to_sp(ir.substitute(ct, mm) if mm else ct, syms)
                return sp.diff(e, syms['u@i'], syms['v@i'])
            chk.add(Ob('C07.%s.pdf.is_d2C_dudv.%d' % (fam, k), rd.pc + pc2, ir.TRUE, backends=('cas',),
                       cas=biv.cas_identity(fam, biv.lane_term(rd.value), rhs2, subs, 'pdf', rd.pc + pc2),
                       function=F['cls'] + '.probability_density', clause='probability_density = d2C/du dv',
                       replay=replay_numeric(fam, 'probability_density', fd_dudv, 'finite-difference d2C/dudv')))
            if k == 0:
                def rhs3(syms, mm, ct=ct):
                    e = biv.to_sp(ir.substitute(ct, mm) if mm else ct, syms)
                    return sp.diff(e, syms['u@i'], syms['v@i']) + sp.Rational(1, 1000)
                chk.add(Ob('C07.%s.canary.pdf_plus_1e-3' % fam, rd.pc + pc2, ir.TRUE, backends=('cas',), canary=True,
                           cas=biv.cas_identity(fam, biv.lane_term(rd.value), rhs3, subs, 'pdf', rd.pc + pc2)))
            k += 1

        # --- sign, symmetry, endpoint, log, row independence ------------------------------------------------
        for j, rd in enumerate(Ds):
            d = biv.lane_term(rd.value)
            ob = Ob('C07.%s.pdf.nonneg.%d' % (fam, j), rd.pc, ir.ge(d, 0), backends=('smt', 'icp'),
                    box=dict(open_box, theta=tuple(float(x) for x in F['box'])),
                    function=F['cls'] + '.probability_density', clause='probability_density >= 0',
                    replay=replay_numeric(fam, 'probability_density', lambda c, u, v: max(0.0, fd_dudv(c, u, v)),
                                          'a non-negative value'))
            ob.max_boxes = 60000
            chk.add(ob)
            pc_s = [swap_uv(p) for p in rd.pc]
            for j2, rd2 in enumerate(Ds):
                pc2 = [swap_uv(p, 't') for p in rd2.pc]
                d2 = swap_uv(biv.lane_term(rd2.value), 't')
                if not joint_feasible(rd.pc, pc2):
                    continue
                chk.add(Ob('C07.%s.pdf.symmetric.%d_%d' % (fam, j, j2), rd.pc + pc2, ir.eq(d, d2),
                           backends=('smt', 'cas'),
                           cas=_sym_identity(fam, d, d2, biv.eqs_of(rd.pc + pc2), rd.pc + pc2),
                           function=F['cls'] + '.probability_density', clause='pdf(u,v) = pdf(v,u)'))
        for j, rh in enumerate(Hs):
            h = biv.lane_term(rh.value)
            chk.add(Ob('C07.%s.h.nonneg.%d' % (fam, j), rh.pc, ir.ge(h, 0), backends=('smt', 'icp'),
                       box=dict(open_box, theta=tuple(float(x) for x in F['box'])),
                       function=F['cls'] + '.partial_derivative', clause='partial_derivative >= 0'))
        # h(1, v) = 1 : re-run with u closed at 1 and u == 1
        _, resH1, _ = biv.run_method(fam, 'partial_derivative', extra_req=[ir.eq(U, 1), ir.lt(V, 1)])
        for j, rh in enumerate(returned(resH1)):
            h = biv.lane_term(rh.value)
            chk.add(Ob('C07.%s.h.one_at_u1.%d' % (fam, j), rh.pc, ir.eq(h, 1), backends=('smt', 'cas'),
                       cas=_h1_identity(fam, h, biv.eqs_of(rh.pc), rh.pc),
                       function=F['cls'] + '.partial_derivative', clause='partial_derivative(1, v) = 1',
                       replay=replay_numeric(fam, 'partial_derivative', lambda c, u, v: 1.0, '1 (value at u = 1)')))
        for o in [o for r in resH1 for o in r.obligations]:
            chk.add(Ob('C07.%s.h_at_u1.%s' % (fam, o.name), o.hyps, o.goal, kind='safety', where=o.where))
        # log pdf
        for j, rl in enumerate(Ls):
            lt_ = biv.lane_term(rl.value)
            match = [rd for rd in Ds if joint_feasible(rd.pc, rename_reductions(rl.pc, 'l')[0])]
            for j2, rd in enumerate(match):
                chk.add(Ob('C07.%s.logpdf.is_log_pdf.%d_%d' % (fam, j, j2), rl.pc + rename_reductions(rd.pc, 'd')[0],
                           ir.eq(ir.substitute(lt_, {}), ir.log(ir.substitute(biv.lane_term(rd.value),
                                                                                 rename_reductions(rd.pc, 'd')[1]))),
                           backends=('smt',), function='copulas.bivariate.base.Bivariate.log_probability_density',
                           clause='log_probability_density = log(probability_density)'))
        # rows independent: the generic-lane result must not depend on which reduction outcome (other rows) occurred
        for tag, rs in (('h', Hs), ('pdf', Ds)):
            for (a, r1), (b, r2) in itertools.combinations(enumerate(rs), 2):
                pc2, m = rename_reductions(r2.pc, 'o')
                if not joint_feasible(r1.pc, pc2):
                    continue
                chk.add(Ob('C07.%s.%s.rows_independent.%d_%d' % (fam, tag, a, b), r1.pc + pc2,
                           ir.eq(biv.lane_term(r1.value), ir.substitute(biv.lane_term(r2.value), m)),
                           backends=('smt',), function=F['cls'], clause='each row evaluated independently'))
    chk.under_contract(src, ['copulas.bivariate.base.Bivariate.log_probability_density',
                             'copulas.bivariate.base.Bivariate.check_fit', 'copulas.bivariate.base.Bivariate.check_theta',
                             'copulas.bivariate.utils.split_matrix'])
    # L3: monotone + endpoint => range (generic z3 lemma)
    hf = lambda x: ir.uf('hgen', [x])
    a = ir.var('a')
    chk.add(Ob('C07.lemma.L3.range_from_monotone_endpoint', [ir.le(a, 1), ir.implies(ir.le(a, 1), ir.le(hf(a), hf(ir.ONE))),
                                                              ir.eq(hf(ir.ONE), 1)], ir.le(hf(a), 1), kind='lemma',
               free_ufs_ok=True, clause='h non-decreasing in u and h(1,v)=1 => h <= 1'))
    chk.lemmas += ['L1 (cited)', 'L3 (z3)', 'L10 (cited)']
    chk.assumptions += [
        'machine floats treated as mathematical reals; float literals read as exact rationals',
        'domain: theta in the quantifier range of each family, (u,v) in the open unit square, batches of any size n >= 1',
        'the object may be in ANY state except theta (attributes written by any method are arbitrary)',
        'Clayton branch `(A == np.inf).any()` is dead over the reals (IEEE overflow artefact)',
    ]
    chk.not_addressed += [
        {'clause': 'partial_derivative -> 0 as u -> 0 (limit at the open boundary)', 'reason': 'limit statement; '
         'covered on the closed side by C06 margins; not a per-call contract'},
        {'clause': 'integrates over any rectangle to the C-volume', 'reason': 'follows from the two proved identities by '
         'the cited lemma L1 (fundamental theorem of calculus)'},
        {'clause': 'floating-point evaluation near the boundary', 'reason': '(F) reals only'},
    ]


def _sym_identity(fam, d, d2, subs, pc=()):
    def run():
        accept, seeds = biv.on_path(pc)
        syms, th, u, v = biv.sym_env(fam)
        a = biv.to_sp(ir.substitute(d, subs) if subs else d, syms)
        b = biv.to_sp(ir.substitute(d2, subs) if subs else d2, syms)
        dom = {u: (0.05, 0.95), v: (0.05, 0.95)}
        if TH not in subs:
            box = FAMILIES[fam]['box']
            dom[th] = (max(0.5, float(box[0])), float(box[1]))
        return biv.with_eqs(cas.identity(a, b, dom, subs=biv.gumbel_subs(u, v) if fam == 'gumbel' else None,
                                         accept=accept, seeds=seeds), subs)
    return run


def _h1_identity(fam, h, subs, pc=()):
    def run():
        accept, seeds = biv.on_path([p for p in pc if U not in ir.free_vars(p)])
        syms, th, u, v = biv.sym_env(fam)
        m = dict(subs)
        m[U] = ir.ONE
        a = biv.to_sp(ir.substitute(h, m), syms)
        dom = {v: (0.05, 0.95)}
        if TH not in subs:
            box = FAMILIES[fam]['box']
            dom[th] = (max(0.5, float(box[0])), float(box[1]))
        return biv.with_eqs(cas.identity(a, sp.Integer(1), dom, subs={v: sp.exp(-sp.Symbol('q', positive=True))}
                                         if fam == 'gumbel' else None, accept=accept, seeds=seeds), m)
    return run
