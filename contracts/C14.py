"""C14 - serialisation round-trips preserve every model's observable behaviour.

Functions under contract: Univariate.to_dict / from_dict / _get_params / save / load, ScipyModel._get_params /
_set_params and the eight _is_constant / _extract_constant, GaussianKDE._set_params, Bivariate.to_dict / from_dict /
save / load / __new__, GaussianMultivariate.to_dict / from_dict, Multivariate.from_dict / save / load, get_instance,
get_qualified_name. json / pickle are assumed contracts (structural copies). Vine / Tree / Edge dictionaries are
covered by a BOUNDED native stand-in (their nested structure is outside the executor's reach).
"""
import itertools

from pyvc import ir, engine, smt, pdmodel, libmodel, values
from pyvc.report import Ob
from pyvc.values import Sym, Lane, Arr2, State, GenList
from pyvc.interp import Obj, PyRaise, PyList
from . import uni, biv, gm, vine
from .C19 import obs_terms, observe_uni
from .uni import term

_REPLAY_CACHE = {}
LEVEL = 'proof'
TRUSTED = ['json.dump/load and pickle.dump/load return structurally equal copies (assumed; JSON: tuples -> lists, string keys, '
           'floats exact)',
           'observational equality is checked on pdf / cdf / percent_point / sample / partial_derivative outputs for '
           'arbitrary symbolic queries under the same generator state, and on to_dict()']
M = ir.var('m', 'I')
G0 = ir.var('G0', 'U')


def dict_equal(a, b):
    """structural equality of two dict/list trees whose leaves are terms or concrete values -> T"""
    if isinstance(a, dict) and isinstance(b, dict):
        if set(a) != set(b):
            return ir.FALSE
        return ir.and_(*[dict_equal(a[k], b[k]) for k in a])
    if isinstance(a, GenList) or isinstance(b, GenList):
        if isinstance(a, GenList) and isinstance(b, GenList):
            return ir.eq(a.lane.whole(), b.lane.whole())
        return ir.FALSE
    if isinstance(a, (list, tuple)) and isinstance(b, (list, tuple)):
        if isinstance(a, PyList) and a.gen is not None or isinstance(b, PyList) and b.gen is not None:
            ga, gb = getattr(a, 'gen', None), getattr(b, 'gen', None)
            return ir.eq(ga.whole(), gb.whole()) if ga is not None and gb is not None else ir.FALSE
        if len(a) != len(b):
            return ir.FALSE
        return ir.and_(*[dict_equal(x, y) for x, y in zip(a, b)])
    if isinstance(a, (Sym,)) or isinstance(b, (Sym,)):
        try:
            ta, tb = values.to_term(a), values.to_term(b)
        except Exception:
            return ir.FALSE
        return ir.eq(ta, tb) if ta.sort == tb.sort or {ta.sort, tb.sort} <= {'R', 'I'} else ir.FALSE
    return ir.const(a == b)


def rt_replay(env):
    import json
    import numpy as np
    import pandas as pd
    import warnings
    warnings.simplefilter('ignore')
    from copulas.univariate import (Univariate, GaussianUnivariate, BetaUnivariate, GaussianKDE, TruncatedGaussian,
                                    StudentTUnivariate)
    from copulas.bivariate import Bivariate, Clayton
    from copulas.multivariate import GaussianMultivariate, Multivariate
    rs = np.random.RandomState(0)
    bad = []
    X = rs.gamma(2.0, size=150) + 1
    x = np.array([1.5, 2.5, 4.0])
    cases = [('Gaussian', GaussianUnivariate(), X), ('Beta', BetaUnivariate(), X), ('KDE', GaussianKDE(), X),
             ('KDE silverman', GaussianKDE(bw_method='silverman'), X), ('StudentT', StudentTUnivariate(), X),
             ('Gaussian constant 0.7', GaussianUnivariate(), np.full(100, 0.7)),
             ('Truncated', TruncatedGaussian(), X),
             ('wrapper of KDE scalar bw', Univariate(candidates=[GaussianKDE(bw_method=0.3)]), X),
             ('wrapper of KDE silverman', Univariate(candidates=[GaussianKDE(bw_method='silverman')]), X)]
    for name, m, data in cases:
        m.fit(data)
        d = m.to_dict()
        for via in ('dict', 'json'):
            dd = json.loads(json.dumps(d)) if via == 'json' else d
            m2 = Univariate.from_dict(dd)
            if type(m2) is not type(getattr(m, '_instance', None) or m) or m2.to_dict() != d:
                bad.append('%s via %s: class or dict changed' % (name, via))
            for f in ('cumulative_distribution', 'probability_density'):
                if not np.allclose(getattr(m, f)(x), getattr(m2, f)(x), rtol=1e-12, atol=0, equal_nan=True):
                    bad.append('%s via %s: %s differs %r vs %r' % (name, via, f, getattr(m, f)(x).tolist(), getattr(m2, f)(x).tolist()))
    c = Clayton()
    c.theta, c.tau = 2.5, 0.55
    c2 = Bivariate.from_dict(json.loads(json.dumps(c.to_dict())))
    if type(c2) is not Clayton or c2.to_dict() != c.to_dict():
        bad.append('Clayton round trip')
    df = pd.DataFrame({'b': rs.normal(size=200), 'a': rs.gamma(2, size=200), 'k': np.full(200, 0.7)})
    g = GaussianMultivariate(distribution=GaussianUnivariate, random_state=0)
    g.fit(df)
    g2 = Multivariate.from_dict(json.loads(json.dumps(g.to_dict())))
    if g2.to_dict() != g.to_dict():
        bad.append('GaussianMultivariate: dict changed by a round trip')
    if not np.allclose(g.probability_density(df.iloc[:3]), g2.probability_density(df.iloc[:3]), rtol=1e-12):
        bad.append('GaussianMultivariate: density differs after a round trip')
    g.set_random_state(3)
    g2.set_random_state(3)
    if not g.sample(5).equals(g2.sample(5)):
        bad.append('GaussianMultivariate: sample stream differs after a round trip')
    return {'confirmed': bool(bad), 'detail': '; '.join(bad[:6]) if bad else 'native round trips preserve behaviour'}


def rt_replay_for(keyword):
    def rep(env):
        r = rt_replay(env)
        msgs = [m_ for m_ in r['detail'].split('; ') if keyword.lower() in m_.lower()]
        return {'confirmed': bool(r['confirmed'] and msgs), 'detail': '; '.join(msgs) if msgs else 'native round trips of %s ok' % keyword}
    return rep


def build(chk):
    I0 = engine.new_interp()
    src = I0.source
    chk.under_contract(src, [uni.BASE + 'Univariate.' + f for f in ('to_dict', 'from_dict', '_get_params', 'save', 'load')] +
                       [uni.BASE + 'ScipyModel._get_params', uni.BASE + 'ScipyModel._set_params',
                        uni.CLASSES['GaussianKDE'][0] + '._set_params',
                        'copulas.bivariate.base.Bivariate.to_dict', 'copulas.bivariate.base.Bivariate.from_dict',
                        'copulas.bivariate.base.Bivariate.save', 'copulas.bivariate.base.Bivariate.load',
                        'copulas.bivariate.base.Bivariate.__new__', gm.GM + '.to_dict', gm.GM + '.from_dict',
                        'copulas.multivariate.base.Multivariate.from_dict', 'copulas.utils.get_qualified_name'])
    build_univariate(chk)
    build_bivariate(chk)
    build_gaussian(chk)
    build_unfitted(chk)
    build_vines(chk)
    bounded_vines(chk)
    chk.assumptions += [
        'JSON and pickle are structural copies; symbolic real leaves stand for Python floats (which JSON round-trips exactly)',
        'reals not floats; library calls deterministic',
    ]
    chk.not_addressed += [
        {'clause': 'vine / tree / edge dictionaries', 'reason': 'deeply nested, mutually linked structures outside the executor: '
         'BOUNDED native stand-in (fitted vines of the three types, round trip, dict and likelihood equality)'},
    ]


def build_univariate(chk):
    UNIV = uni.BASE + 'Univariate'
    configs = [(cls, {}, 'default') for cls in uni.CLASSES]
    configs.append(('GaussianKDE', {'bw_method': 'silverman'}, 'silverman'))
    configs.append(('GaussianKDE', {'bw_method': 0.5}, 'scalar_bw'))
    configs.append(('GaussianKDE', {'sample_size': Sym(ir.var('ss', 'I'))}, 'sample_size'))
    configs.append(('Univariate', {}, 'wrapper'))
    # the selecting wrapper whose (only) candidate is a configured KDE prototype: the bandwidth rule must survive the round trip
    # of the WRAPPER too (its to_dict is assembled from the selected instance)
    configs.append(('Univariate', {'candidates': 'kde_scalar_bw'}, 'wrapper_kde_scalar_bw'))
    configs.append(('Univariate', {'candidates': 'kde_silverman'}, 'wrapper_kde_silverman'))
    for cls, kw, cfg in configs:
        for constant in (False, True):
            for via in ('dict', 'json', 'pickle'):
                if via == 'pickle' and (constant or cfg != 'default'):
                    continue
                tag = '%s.%s.%s.%s' % (cls, cfg, 'constant' if constant else 'fitted', via)
                I = engine.new_interp()
                gm.install_rootfinders(I)
                if cls == 'Univariate' and kw:
                    # contract of the selection (C05): a fresh copy, made by get_instance, of one of the candidates
                    I.summaries['copulas.univariate.selection.select_univariate'] = \
                        lambda interp, args, kwargs: interp.call_qual('copulas.utils.get_instance', [list(args[1])[0]], {})
                elif cls == 'Univariate':
                    I.summaries['copulas.univariate.selection.select_univariate'] = \
                        lambda interp, args, kwargs: uni.new_model(interp, 'GammaUnivariate')

                def body(c, I=I, cls=cls, kw=kw, constant=constant, via=via):
                    q = uni.CLASSES[cls][0] if cls in uni.CLASSES else UNIV
                    kw = dict(kw)
                    if isinstance(kw.get('candidates'), str):
                        bw = 0.5 if kw['candidates'] == 'kde_scalar_bw' else 'silverman'
                        kw['candidates'] = PyList([uni.new_model(I, 'GaussianKDE', (), {'bw_method': bw})])
                    m = I.call_qual(q, [], dict(kw))
                    c.assume(ir.ge(uni.N, 2))
                    c.assume(ir.ge(M, 1))
                    if 'sample_size' in kw:
                        c.assume(ir.ge(ir.var('ss', 'I'), 2))
                    one = ir.eq(ir.uf('n_unique', [uni.XW], 'I'), 1)
                    c.assume(one if constant else ir.not_(one))
                    I.call_method(m, 'fit', [uni.data_lane()])
                    if cls == 'TruncatedGaussian' and not constant:
                        # stated assumption (as in C04): the optimiser returns a positive scale on non-constant data
                        c.assume(ir.gt(term(m.attrs['_params']['scale']), 0))
                    if via == 'pickle':
                        I.call_method(m, 'save', ['model.pkl'])
                        m2 = I.call(I.getattr(I.resolve(UNIV), 'load'), ['model.pkl'], {})
                        d = I.call_method(m, 'to_dict', [])
                    else:
                        d = I.call_method(m, 'to_dict', [])
                        dd = libmodel._jsonify(d) if via == 'json' else d
                        snap = dict(dd)
                        m2 = I.call(I.getattr(I.resolve(UNIV), 'from_dict'), [dd], {})
                        c.out['arg_unchanged'] = (dict(dd) == snap) if via == 'dict' else True
                    d2 = I.call_method(m2, 'to_dict', [])
                    m3 = I.call(I.getattr(I.resolve(UNIV), 'from_dict'), [d2], {})
                    d3 = I.call_method(m3, 'to_dict', [])
                    c.out.update({'d': d, 'd2': d2, 'd3': d3})
                    inst = m.attrs.get('_instance') if cls == 'Univariate' else m
                    c.out['cls1'], c.out['cls2'] = inst.cls.name, (m2.cls.name if isinstance(m2, Obj) else repr(m2))
                    c.out['fitted2'] = I.getattr(m2, 'fitted') if isinstance(m2, Obj) else None
                    c.out['obs1'] = observe_uni(I, c, m, 'a')
                    c.out['obs2'] = observe_uni(I, c, m2, 'b')
                    return None
                res, ctx = engine.run_paths(I, body)
                emit(chk, tag, res, uni.BASE + 'Univariate.from_dict', rt_replay_for(cls.replace('Univariate', '').replace('Gaussian', 'Gaussian')[:5]
                                                                                     if cls != 'GaussianKDE' else 'KDE'))


def emit(chk, tag, res, fq, replay):
    k = 0
    for r in res:
        if r.outcome == 'unsupported':
            chk.undecided.append(('C14.%s.exec' % tag, 'executor', str(r.value)))
            continue
        if r.outcome != 'return':
            chk.add(Ob('C14.%s.no_exception.%s' % (tag, getattr(r.value, 'clsname', '?')), r.pc, ir.FALSE, function=fq,
                       free_ufs_ok=True, replay=replay, clause='the round trip succeeds [%s]' % str(getattr(r.value, 'args', ''))[:80]))
            continue
        k += 1
        st = r.state
        chk.add(Ob('C14.%s.same_family.%d' % (tag, k), [], ir.const(st['cls1'] == st['cls2'] and st.get('fitted2', True) is True),
                   backends=('syntactic',), function=fq, replay=replay,
                   clause='the reconstructed model is a fitted model of the same family [%s -> %s]' % (st['cls1'], st['cls2'])))
        chk.add(Ob('C14.%s.dict_fixed_point.%d' % (tag, k), r.pc, dict_equal(st['d'], st['d2']), function=fq, free_ufs_ok=True,
                   replay=replay, clause='to_dict of the reconstructed model equals the original to_dict'))
        chk.add(Ob('C14.%s.dict_fixed_point_twice.%d' % (tag, k), r.pc, dict_equal(st['d2'], st['d3']), function=fq,
                   free_ufs_ok=True, clause='a second round trip changes nothing'))
        if 'arg_unchanged' in st:
            chk.add(Ob('C14.%s.dict_argument_unchanged.%d' % (tag, k), [], ir.const(bool(st['arg_unchanged'])),
                       backends=('syntactic',), function=fq, clause='from_dict does not modify the dict it is given'))
        for key in st['obs1']:
            ta, tb = obs_terms(st['obs1'][key]), obs_terms(st['obs2'][key])
            goal = ir.and_(*[ir.eq(x, y) if x.sort == y.sort else ir.FALSE for x, y in zip(ta, tb)]) \
                if ta is not None and tb is not None and len(ta) == len(tb) else ir.FALSE
            chk.add(Ob('C14.%s.same_behaviour.%s.%d' % (tag, key, k), r.pc, goal, function=fq, free_ufs_ok=True, replay=replay,
                       clause='%s of the reconstructed model is identical on any input (same generator state for sample)' % key))
    if k == 0 and not chk.undecided and not any(o.name.startswith('C14.%s.' % tag) for o in chk.obs):
        chk.engine_error('C14.%s: no returning path' % tag)


def build_bivariate(chk):
    BIV = 'copulas.bivariate.base.Bivariate'
    for fam, F in biv.FAMILIES.items():
        for via in ('dict', 'json_file'):
            tag = 'bivariate.%s.%s' % (fam, via)
            I = engine.new_interp()

            def body(c, I=I, fam=fam, via=via):
                m = biv.make_copula(I, fam, c, havoc=False)
                c.assume(biv.FAMILIES[fam]['theta'](biv.TH))
                c.assume(ir.ge(M, 1))
                d = I.call_method(m, 'to_dict', [])
                Bv = I.resolve(BIV)
                if via == 'dict':
                    m2 = I.call(I.getattr(Bv, 'from_dict'), [d], {})
                else:
                    I.call_method(m, 'save', ['copula.json'])
                    m2 = I.call(I.getattr(Bv, 'load'), ['copula.json'], {})
                d2 = I.call_method(m2, 'to_dict', [])
                m3 = I.call(I.getattr(Bv, 'from_dict'), [d2], {})
                c.out.update({'d': d, 'd2': d2, 'd3': I.call_method(m3, 'to_dict', []), 'cls1': m.cls.name, 'cls2': m2.cls.name})
                Q = Arr2([Lane(ir.var('qu@i'), Sym(M)), Lane(ir.var('qv@i'), Sym(M))], Sym(M))
                c.assume(ir.and_(ir.gt(Q.cols[0].t, 0), ir.lt(Q.cols[0].t, 1), ir.gt(Q.cols[1].t, 0), ir.lt(Q.cols[1].t, 1)))
                o1, o2 = {}, {}
                for meth in ('cumulative_distribution', 'probability_density', 'partial_derivative'):
                    o1[meth] = I.call_method(m, meth, [Q])
                    o2[meth] = I.call_method(m2, meth, [Q])
                c.out['obs1'], c.out['obs2'] = o1, o2
                return None
            res, ctx = engine.run_paths(I, body)
            emit(chk, tag, res, BIV + '.from_dict', rt_replay_for('Clayton'))


def build_gaussian(chk):
    labels = gm.NAMES[:2]
    for via in ('dict', 'json', 'generic_entry'):
        for const in ((), (labels[1],)):
            tag = 'GaussianMultivariate.%s.const_%s' % (via, ''.join(const) or 'none')
            I = engine.new_interp()
            gm.install_rootfinders(I)

            def body(c, I=I, via=via, const=const):
                G = I.resolve(uni.CLASSES['GaussianUnivariate'][0])
                m = gm.fit_model(I, c, labels, G, constant=const)
                c.assume(ir.ge(M, 1))
                d = I.call_method(m, 'to_dict', [])
                dd = libmodel._jsonify(d) if via == 'json' else d
                entry = I.resolve('copulas.multivariate.base.Multivariate' if via == 'generic_entry' else gm.GM)
                m2 = I.call(I.getattr(entry, 'from_dict'), [dd], {})
                d2 = I.call_method(m2, 'to_dict', [])
                m3 = I.call(I.getattr(I.resolve(gm.GM), 'from_dict'), [d2], {})
                c.out.update({'d': d, 'd2': d2, 'd3': I.call_method(m3, 'to_dict', []), 'cls1': m.cls.name,
                              'cls2': m2.cls.name if isinstance(m2, Obj) else repr(m2),
                              'fitted2': I.getattr(m2, 'fitted') if isinstance(m2, Obj) else None})
                msym = Sym(M)
                o1, o2 = {}, {}
                for tgt, mm in ((o1, m), (o2, m2)):
                    q = pdmodel.Frame(labels, {l: Lane(ir.var('q_%s@i' % l), msym) for l in labels}, msym)
                    tgt['pdf'] = I.call_method(mm, 'probability_density', [q])
                    tgt['cdf'] = I.call_method(mm, 'cumulative_distribution', [q])
                    State.rng = G0
                    tgt['sample'] = I.call_method(mm, 'sample', [msym])
                    State.rng = G0
                    tgt['conditional_sample'] = I.call_method(mm, 'sample', [msym], {'conditions': {labels[0]: Sym(ir.var('cv'))}})
                c.out['obs1'], c.out['obs2'] = o1, o2
                return None
            res, ctx = engine.run_paths(I, body)
            emit(chk, tag, res, gm.GM + '.from_dict', rt_replay_for('GaussianMultivariate'))


def build_unfitted(chk):
    """unfitted models round-trip to unfitted models (bivariate, vine); univariate / Gaussian-multivariate to_dict refuses"""
    BIV = 'copulas.bivariate.base.Bivariate'
    VINE = 'copulas.multivariate.vine.VineCopula'
    chk.under_contract(engine.new_interp().source, [VINE + '.to_dict', VINE + '.from_dict', VINE + '.__init__'])
    cases = [('bivariate.' + fam, 'biv', fam) for fam in biv.FAMILIES] + \
            [('vine.' + vt, 'vine', vt) for vt in ('center', 'direct', 'regular')] + \
            [('GaussianUnivariate', 'uni', 'GaussianUnivariate'), ('GaussianMultivariate', 'gm', None)]
    for tag, kind, arg in cases:
        I = engine.new_interp()

        def body(c, I=I, kind=kind, arg=arg):
            if kind == 'biv':
                m = biv.make_copula(I, arg, c, theta=None, tau=None, havoc=False)
                entry = I.resolve(BIV)
            elif kind == 'vine':
                entry = I.resolve(VINE)
                m = I.call(entry, [arg], {})
            elif kind == 'uni':
                entry = I.resolve(uni.BASE + 'Univariate')
                m = I.call_qual(uni.CLASSES[arg][0], [], {})
            else:
                entry = I.resolve(gm.GM)
                m = I.call(entry, [], {})
            d = I.call_method(m, 'to_dict', [])
            m2 = I.call(I.getattr(entry, 'from_dict'), [d], {})
            d2 = I.call_method(m2, 'to_dict', [])
            c.out.update({'d': d, 'd2': d2, 'cls1': m.cls.name, 'cls2': m2.cls.name})
            try:
                I.call_method(m2, 'check_fit', [])
                c.out['refuses'] = False
            except PyRaise as e:
                c.out['refuses'] = e.exc.clsname
            return None
        res, ctx = engine.run_paths(I, body)
        k = 0
        for r in res:
            if r.outcome == 'unsupported':
                chk.undecided.append(('C14.unfitted.%s.exec' % tag, 'executor', str(r.value)))
                continue
            k += 1
            if kind in ('uni', 'gm'):
                ok = r.outcome == 'raise' and getattr(r.value, 'clsname', '') == 'NotFittedError'
                chk.add(Ob('C14.unfitted.%s.to_dict_refuses.%d' % (tag, k), [], ir.const(ok), backends=('syntactic',),
                           function=(uni.BASE + 'Univariate' if kind == 'uni' else gm.GM) + '.to_dict',
                           clause='to_dict of an unfitted model raises NotFittedError (no dict that would reconstruct as fitted)'))
                continue
            if r.outcome != 'return':
                chk.add(Ob('C14.unfitted.%s.no_exception.%s' % (tag, getattr(r.value, 'clsname', '?')), r.pc, ir.FALSE,
                           free_ufs_ok=True, function=(BIV if kind == 'biv' else VINE) + '.from_dict',
                           clause='an unfitted model round-trips [%s]' % str(getattr(r.value, 'args', ''))[:80]))
                continue
            st = r.state
            chk.add(Ob('C14.unfitted.%s.stays_unfitted.%d' % (tag, k), [],
                       ir.const(st['cls1'] == st['cls2'] and st['refuses'] == 'NotFittedError'), backends=('syntactic',),
                       function=(BIV if kind == 'biv' else VINE) + '.from_dict',
                       clause='the reconstructed model has the same class and is unfitted (check_fit raises NotFittedError) '
                              '[%s -> %s, check_fit: %s]' % (st['cls1'], st['cls2'], st['refuses'])))
            chk.add(Ob('C14.unfitted.%s.dict_fixed_point.%d' % (tag, k), r.pc, dict_equal(st['d'], st['d2']), free_ufs_ok=True,
                       function=(BIV if kind == 'biv' else VINE) + '.to_dict',
                       clause='to_dict of the reconstructed unfitted model equals the original'))
        if k == 0 and not chk.undecided:
            chk.engine_error('C14.unfitted.%s: no path' % tag)


def vine_rt_replay(vt, d):
    """the native driver depends only on its arguments: run it once per group of obligations"""
    inner = _vine_rt_replay_uncached(vt, d)

    def replay(env, _key=('vine_rt_replay', vt, d)):
        if _key not in _REPLAY_CACHE:
            _REPLAY_CACHE[_key] = inner(env)
        return _REPLAY_CACHE[_key]
    return replay


def _vine_rt_replay_uncached(vt, d):
    def replay(env):
        import numpy as np
        import pandas as pd
        import warnings
        warnings.simplefilter('ignore')
        from copulas.multivariate import VineCopula, Multivariate
        bad = []
        for seed in range(4):
            rs = np.random.RandomState(seed)
            A = rs.normal(size=(d, d))
            X = pd.DataFrame(rs.multivariate_normal(np.zeros(d), A @ A.T + 0.3 * np.eye(d), 80), columns=vine.LABELS[:d])
            try:
                v = VineCopula(vt)
                v.fit(X, truncated=d)
                dct = v.to_dict()
                for entry in (VineCopula, Multivariate):
                    v2 = entry.from_dict(dct)
                    if type(v2) is not VineCopula or not _eq(dct, v2.to_dict()):
                        bad.append('seed %d: %s.from_dict(to_dict()) has another class or dict' % (seed, entry.__name__))
                    u = rs.uniform(0.1, 0.9, size=(1, d))
                    a, b = v.get_likelihood(u), v2.get_likelihood(u)
                    if not (a == b or (a != a and b != b)):
                        bad.append('seed %d: likelihood %r vs %r after the round trip' % (seed, a, b))
                    v.set_random_state(5)
                    v2.set_random_state(5)
                    if not v.sample(3).equals(v2.sample(3)):
                        bad.append('seed %d: sample stream differs after the round trip' % seed)
                from copulas.multivariate.tree import Tree, Edge
                for t in v.trees:
                    td = t.to_dict()
                    if not _eq(td, Tree.from_dict(td).to_dict()):
                        bad.append('seed %d: Tree.from_dict(t.to_dict()) of the level-%d tree has another to_dict' % (seed, t.level))
                    for e in t.edges:
                        if not _eq(e.to_dict(), Edge.from_dict(e.to_dict()).to_dict()):
                            bad.append('seed %d: Edge.from_dict(e.to_dict()) differs (level %d)' % (seed, t.level))
                            break
            except Exception as e:      # noqa
                bad.append('seed %d: %s: %s' % (seed, type(e).__name__, str(e)[:100]))
            if bad:
                break
        return {'confirmed': bool(bad), 'detail': bad[0] if bad else 'native %s vine round trips (d=%d) preserve dict, likelihood '
                'and sample stream' % (vt, d), 'input': {'vine_type': vt, 'd': d}}
    return replay


def build_vines(chk):
    """fitted vines: from_dict(to_dict(m)) through VineCopula.from_dict and the generic Multivariate.from_dict"""
    VINE, TREE = vine.VINE, vine.TREE
    chk.under_contract(engine.new_interp().source, [TREE + 'Tree.to_dict', TREE + 'Tree.from_dict', TREE + 'Edge.to_dict',
                                                    TREE + 'Edge.from_dict', TREE + 'Tree._serialize_previous_tree',
                                                    TREE + 'Tree._deserialize_previous_tree', VINE + '._deserialize_trees',
                                                    TREE + 'get_tree'])
    dims = (2, 3) if chk.tier == 'quick' else (2, 3, 4)
    for vt in ('center', 'direct', 'regular'):
        for d in dims:
            for entry_name in ('VineCopula', 'Multivariate', 'pickle'):
                if entry_name != 'VineCopula' and d != 3:
                    continue
                I = engine.new_interp()
                gm.install_rootfinders(I)
                vine.install_contracts(I)
                uq = [ir.var('uq_%d' % i) for i in range(d)]

                def body(c, I=I, d=d, vt=vt, entry_name=entry_name, uq=uq):
                    m = vine.fit_vine(I, c, d, vt, truncated=d)
                    c.assume(ir.and_(*[ir.and_(ir.gt(x, 0), ir.lt(x, 1)) for x in uq]))
                    dd = I.call_method(m, 'to_dict', [])
                    snap = vine.flatten(dd)
                    entry = I.resolve(VINE if entry_name == 'VineCopula' else 'copulas.multivariate.base.Multivariate')
                    if entry_name == 'pickle':
                        I.call_method(m, 'save', ['vine.pkl'])
                        m2 = I.call(I.getattr(entry, 'load'), ['vine.pkl'], {})
                    else:
                        m2 = I.call(I.getattr(entry, 'from_dict'), [dd], {})
                    c.out['arg_same'] = [p for p, _ in vine.flatten(dd)] == [p for p, _ in snap] and \
                        all(x is y or x == y for (_p, x), (_q, y) in zip(vine.flatten(dd), snap) if not isinstance(x, ir.T)) and \
                        all(x is y for (_p, x), (_q, y) in zip(vine.flatten(dd), snap) if isinstance(x, ir.T))
                    d2 = I.call_method(m2, 'to_dict', [])
                    m3 = I.call(I.getattr(I.resolve(VINE), 'from_dict'), [d2], {})
                    c.out.update({'d': dd, 'd2': d2, 'd3': I.call_method(m3, 'to_dict', []),
                                  'cls2': m2.cls.name if isinstance(m2, Obj) else repr(m2),
                                  'fitted2': I.getattr(m2, 'fitted') if isinstance(m2, Obj) else None})
                    U = lambda: Arr2([Lane(x, 1) for x in uq], 1)       # noqa: E731
                    c.out['lik1'] = I.call_method(m, 'get_likelihood', [U()])
                    c.out['lik2'] = I.call_method(m2, 'get_likelihood', [U()])
                    State.rng = G0
                    c.out['row1'] = I.call_method(m, '_sample_row', [])
                    State.rng = G0
                    c.out['row2'] = I.call_method(m2, '_sample_row', [])
                    # trees and edges on their own: Tree.from_dict(t.to_dict()) / Edge.from_dict(e.to_dict())
                    parts = []
                    if entry_name == 'VineCopula':
                        TreeC, EdgeC = I.resolve(TREE + 'Tree'), I.resolve(TREE + 'Edge')
                        for k_, t in enumerate(m.attrs['trees']):
                            td = I.call_method(t, 'to_dict', [])
                            t2 = I.call(I.getattr(TreeC, 'from_dict'), [td], {})
                            if k_ == 0:
                                um = lambda: Arr2([Lane(x, 1) for x in uq], 1)       # noqa: E731
                            else:
                                um = lambda: libmodel.ConcArr([[Sym(ir.var('cm_%d_%d' % (i, j))) for j in range(d)]     # noqa: E731
                                                               for i in range(d)])
                            try:
                                l1 = I.call_method(t, 'get_likelihood', [um()])
                                l2 = I.call_method(t2, 'get_likelihood', [um()])
                            except engine.paths.Unsupported as e:
                                l1 = l2 = 'unsupported: %s' % str(e)[:100]
                            parts.append(('tree%d' % (k_ + 1), td, I.call_method(t2, 'to_dict', []), l1, l2))
                            for j_, e in enumerate(t.attrs['edges']):
                                ed = I.call_method(e, 'to_dict', [])
                                e2 = I.call(I.getattr(EdgeC, 'from_dict'), [ed], {})
                                parts.append(('tree%d.edge%d' % (k_ + 1, j_), ed, I.call_method(e2, 'to_dict', []), None, None))
                    c.out['parts'] = parts
                    return None
                with vine.mode():
                    res, _ = engine.run_paths(I, body, max_paths=200000)
                k = 0
                fq = VINE + '.from_dict'
                rp = vine_rt_replay(vt, d)
                for r in res:
                    tag = 'vine.%s.d%d.%s' % (vt, d, entry_name)
                    if r.outcome == 'unsupported':
                        chk.undecided.append(('C14.%s.exec' % tag, 'executor', str(r.value)))
                        continue
                    if r.outcome != 'return':
                        chk.add(Ob('C14.%s.no_exception.%s' % (tag, getattr(r.value, 'clsname', '?')), r.pc, ir.FALSE, function=fq,
                                   free_ufs_ok=True, replay=rp,
                                   clause='the round trip succeeds [%s]' % str(getattr(r.value, 'args', ''))[:80]))
                        continue
                    k += 1
                    st = r.state
                    chk.add(Ob('C14.%s.same_family.%d' % (tag, k), [], ir.const(st['cls2'] == 'VineCopula' and st['fitted2'] is True),
                               backends=('syntactic',), function=fq, replay=rp,
                               clause='the reconstructed model is a fitted VineCopula [%s]' % st['cls2']))
                    g, diff = vine.same_tree(st['d'], st['d2'])
                    chk.add(Ob('C14.%s.dict_fixed_point.%d' % (tag, k), r.pc, g, function=fq, free_ufs_ok=True, replay=rp,
                               clause='to_dict of the reconstructed vine equals the original to_dict%s' %
                                      (' [%s]' % diff if diff else '')))
                    g, diff = vine.same_tree(st['d2'], st['d3'])
                    chk.add(Ob('C14.%s.dict_fixed_point_twice.%d' % (tag, k), r.pc, g, function=fq, free_ufs_ok=True,
                               clause='a second round trip changes nothing%s' % (' [%s]' % diff if diff else '')))
                    chk.add(Ob('C14.%s.dict_argument_unchanged.%d' % (tag, k), [], ir.const(bool(st['arg_same'])),
                               backends=('syntactic',), function=fq, clause='from_dict does not modify the dict it is given'))
                    a, b = st['lik1'], st['lik2']
                    chk.add(Ob('C14.%s.same_behaviour.get_likelihood.%d' % (tag, k), r.pc,
                               ir.eq(a.t, b.t) if isinstance(a, Sym) and isinstance(b, Sym) else ir.FALSE, function=fq,
                               free_ufs_ok=True, replay=rp, clause='get_likelihood of the reconstructed vine is identical on any u'))
                    for nm, d1_, d2_, l1_, l2_ in st.get('parts', []):
                        g_, diff_ = vine.same_tree(d1_, d2_)
                        chk.add(Ob('C14.%s.standalone.%s.dict_fixed_point.%d' % (tag, nm, k), r.pc, g_,
                                   function=TREE + ('Edge' if 'edge' in nm else 'Tree') + '.from_dict', free_ufs_ok=True, replay=rp,
                                   clause='a tree / edge round-tripped on its own has the same to_dict (parents included)%s' %
                                          (' [%s]' % diff_ if diff_ else '')))
                        if isinstance(l1_, str) or isinstance(l2_, str):
                            chk.undecided.append(('C14.%s.standalone.%s.same_likelihood.%d' % (tag, nm, k), 'executor', str(l2_)))
                        elif l1_ is not None:
                            # (value, matrix of conditionals): the value, and every cell of the matrix that the tree writes
                            # (the others are uninitialised in both and are never read by the next tree, C17)
                            def parts_of(l_):
                                val, mat = l_[0], l_[1]
                                cells = [x for row in getattr(mat, 'data', []) for x in row]
                                return val, cells
                            (va, ca), (vb, cb) = parts_of(l1_), parts_of(l2_)
                            goals_ = [ir.eq(libmodel.to_term(va), libmodel.to_term(vb))] if len(ca) == len(cb) else [ir.FALSE]
                            for x_, y_ in zip(ca, cb):
                                tx_, ty_ = libmodel.to_term(x_), libmodel.to_term(y_)
                                ux = tx_.op == 'var' and tx_.args[0].startswith('undef!')
                                uy = ty_.op == 'var' and ty_.args[0].startswith('undef!')
                                if ux and uy:
                                    continue
                                goals_.append(ir.eq(tx_, ty_) if not (ux or uy) else ir.FALSE)
                            same = ir.and_(*goals_)
                            chk.add(Ob('C14.%s.standalone.%s.same_likelihood.%d' % (tag, nm, k), r.pc, same,
                                       function=TREE + 'Tree.from_dict', free_ufs_ok=True, replay=rp,
                                       clause='... and the same Tree.get_likelihood on any conditional matrix'))
                    g, diff = vine.same_tree(st['row1'], st['row2'])
                    chk.add(Ob('C14.%s.same_behaviour.sample_row.%d' % (tag, k), r.pc, g, function=fq, free_ufs_ok=True, replay=rp,
                               clause='a sampled row of the reconstructed vine is identical under the same generator state%s' %
                                      (' [%s]' % diff if diff else '')))
                if k == 0 and not chk.undecided:
                    chk.engine_error('C14.vine.%s.d%d: no returning path' % (vt, d))


def bounded_vines(chk):
    import numpy as np
    import pandas as pd
    import warnings
    warnings.simplefilter('ignore')
    from copulas.multivariate import VineCopula
    rs = np.random.RandomState(chk.seed or 0)
    evals = 0
    distinct = set()
    dims = (3, 4) if chk.tier == 'quick' else (2, 3, 4, 5, 6)
    reps = 1 if chk.tier == 'quick' else 3
    for d in dims:
        for vt in ('center', 'direct', 'regular'):
            for rep_ in range(reps):
                A = rs.normal(size=(d, d))
                X = pd.DataFrame(rs.multivariate_normal(np.zeros(d), A @ A.T + np.eye(d), 120),
                                 columns=['v%d' % i for i in range(d)])
                evals += 1
                distinct.add((d, vt, rep_))
                try:
                    from pyvc import report as report_mod
                    with report_mod.time_limit(180):
                        v = VineCopula(vt)
                        v.fit(X)
                        dct = v.to_dict()
                        v2 = VineCopula.from_dict(dct)
                        d2 = v2.to_dict()
                        u = rs.uniform(0.1, 0.9, size=(1, d))
                        ok = _eq(dct, d2) and np.isclose(v.get_likelihood(u), v2.get_likelihood(u), rtol=1e-9, equal_nan=True)
                        v.set_random_state(5)
                        v2.set_random_state(5)
                        ok = ok and v.sample(3).equals(v2.sample(3))
                        detail = 'dict/likelihood/sample equality after from_dict(to_dict())'
                except Exception as e:
                    ok, detail = False, '%s: %s' % (type(e).__name__, str(e)[:100])
                if not ok:
                    chk.bounded_violation('C14.vine.roundtrip.bounded', {'d': d, 'vine_type': vt, 'rep': rep_, 'seed': chk.seed or 0},
                                          detail)
                    break
    chk.bounded.append({'name': 'C14.vine.roundtrip.bounded', 'clause': 'vine / tree / edge round trips',
                        'bound': 'fitted vines, d in %r x 3 vine types x %d random Gaussian tables (120 rows), seed %d' %
                        (dims, reps, chk.seed or 0), 'evaluations': evals, 'distinct_nontrivial': len(distinct),
                        'rule': 'one case = (d, vine type, table)'})


def _eq(a, b):
    import numpy as np
    if isinstance(a, dict) and isinstance(b, dict):
        return set(a) == set(b) and all(_eq(a[k], b[k]) for k in a)
    if isinstance(a, (list, tuple)) and isinstance(b, (list, tuple)):
        return len(a) == len(b) and all(_eq(x, y) for x, y in zip(a, b))
    if isinstance(a, float) and isinstance(b, float):
        return a == b or (a != a and b != b)
    try:
        r = (a == b)
        if isinstance(r, bool):
            return r
        return bool(np.all(np.asarray(r))) and np.shape(a) == np.shape(b)
    except Exception:
        return False
