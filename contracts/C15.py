"""C15 - sampling is reproducible per model seed and never perturbs the global RNG.

Ghost model of the legacy NumPy generator (pyvc.libmodel.RNG): the global state is a term G; a RandomState object
carries its own state term; every numpy/scipy consumer advances the global state by an uninterpreted `next` and
returns values that are uninterpreted functions of the state before the draw.
Functions under contract: utils.set_random_state (generator context manager, finally block), utils.random_state
(wrapper), utils.validate_random_state, every public sample() of every sampler class executed through its real
decorator, set_random_state of the model classes, the ten dataset generators.
"""
from fractions import Fraction

from pyvc import ir, engine, smt, pdmodel, libmodel
from pyvc.report import Ob
from pyvc.values import Sym, Lane, Arr2, State
from pyvc.interp import Obj, PyRaise, PyList
from pyvc.libmodel import RandomStateObj
from . import uni, biv, gm

LEVEL = 'proof'
TRUSTED = ['legacy numpy.random / scipy rvs / gaussian_kde.resample / multivariate_normal consume ONLY the global state and are '
           'deterministic functions of it (assumed contracts)',
           'np.random.get_state/set_state and RandomState.get_state/set_state read / overwrite the whole state (assumed)',
           'lemma (trivial, by functional determinism of uninterpreted functions): equal fitted parameters + equal start '
           'state + equal call sequence => identical streams; interleaving calls of other models does not matter because '
           'every call leaves the global state as it found it and carries its own stream state']
G0 = ir.var('G0', 'U')
S0 = ir.var('seed_state', 'U')
S1 = ir.var('reseed_state', 'U')
S2 = ir.var('other_model_seed_state', 'U')
M = ir.var('m', 'I')


def mentions(t, v):
    return v in ir.free_vars(t)


def terms_of(x):
    out = []
    if isinstance(x, (Sym, Lane)):
        out.append(x.t)
    elif isinstance(x, Arr2):
        out += [c.t for c in x.cols]
    elif isinstance(x, pdmodel.Frame):
        out += [x.cols[l].t for l in x.labels]
    elif isinstance(x, pdmodel.SeriesCol):
        out.append(x.lane.t)
    elif isinstance(x, pdmodel.LabeledMat):
        out += [c.t for row in x.data for c in row if isinstance(c, Sym)]
    elif isinstance(x, (list, tuple)):
        for y in x:
            out += terms_of(y)
    return out


def rng_replay(env):
    import numpy as np
    import warnings
    warnings.simplefilter('ignore')
    from copulas.univariate import GaussianUnivariate, BetaUnivariate, GaussianKDE, Univariate, UniformUnivariate
    from copulas.bivariate import Clayton
    from copulas.multivariate import GaussianMultivariate
    from copulas import datasets
    bad = []
    rs = np.random.RandomState(0)
    data = rs.gamma(2.0, size=200)

    def stream(make, calls=(3, 2), pre=None):
        np.random.seed(123)
        before = np.random.get_state()[1].copy()
        m = make()
        if pre:
            pre(m)
        out = [np.asarray(m.sample(k)).ravel().tolist() for k in calls]
        same_global = (np.random.get_state()[1] == before).all()
        return out, same_global
    makers = {
        'GaussianUnivariate(seed int)': lambda: _fit(GaussianUnivariate(random_state=7), data),
        'BetaUnivariate(seed int)': lambda: _fit(BetaUnivariate(random_state=7), data),
        'GaussianKDE(seed int)': lambda: _fit(GaussianKDE(random_state=7), data),
        'Univariate(seed int)': lambda: _fit(Univariate(candidates=[GaussianUnivariate, UniformUnivariate], random_state=7), data),
    }
    for name, mk in makers.items():
        a, ga = stream(mk)
        b, gb = stream(mk)
        if a != b:
            bad.append('%s: two equal seeded models give different streams' % name)
        if not (ga and gb):
            bad.append('%s: the global NumPy state changed' % name)
        if a[0][:2] == a[1][:2]:
            bad.append('%s: successive calls repeat the stream' % name)
    # two models of one family with different seeds, calls interleaved: each stream as if the other model did not exist
    for name, mkA in makers.items():
        alone = mkA()
        a1, a2 = np.asarray(alone.sample(3)).ravel().tolist(), np.asarray(alone.sample(2)).ravel().tolist()
        A, B = mkA(), mkA()
        B.set_random_state(4242)
        i1 = np.asarray(A.sample(3)).ravel().tolist()
        B.sample(5)
        i2 = np.asarray(A.sample(2)).ravel().tolist()
        if (a1, a2) != (i1, i2):
            bad.append('%s: a second model sampling in between changes this model\'s stream (%r vs %r alone)' % (name, i2, a2))
    # a shared RandomState object must not be consumed in place
    shared = np.random.RandomState(11)
    snap = shared.get_state()[1].copy()
    m1, m2 = _fit(GaussianUnivariate(random_state=shared), data), _fit(GaussianUnivariate(random_state=shared), data)
    x1, x2 = m1.sample(3).tolist(), m2.sample(3).tolist()
    if x1 != x2 or not (shared.get_state()[1] == snap).all():
        bad.append('models seeded with one shared RandomState: streams %r vs %r, seed object consumed in place: %r' %
                   (x1, x2, not (shared.get_state()[1] == snap).all()))
    # the same for vines: one RandomState object shared by two models
    try:
        import pandas as pd
        from copulas.multivariate import VineCopula
        X = pd.DataFrame(rs.normal(size=(60, 2)) @ np.array([[1.0, 0.6], [0.0, 0.8]]), columns=['c', 'a'])
        for vt in ('center', 'direct', 'regular'):
            shared = np.random.RandomState(11)
            snap = shared.get_state()[1].copy()
            np.random.seed(5)
            g0 = np.random.get_state()[1].copy()
            v1, v2 = VineCopula(vt, random_state=shared), VineCopula(vt, random_state=shared)
            v1.fit(X)
            v2.fit(X)
            s1, s2 = v1.sample(2), v2.sample(2)
            if not s1.equals(s2) or not (shared.get_state()[1] == snap).all():
                bad.append('%s vines seeded with one shared RandomState: equal streams %r, seed object consumed in place: %r' %
                           (vt, bool(s1.equals(s2)), not (shared.get_state()[1] == snap).all()))
                break
            if not (np.random.get_state()[1] == g0).all():
                bad.append('%s vine: seeded sampling changed the global NumPy state' % vt)
                break
    except Exception as e:      # noqa
        bad.append('vine sampling: %s: %s' % (type(e).__name__, str(e)[:100]))
    # the Gaussian multivariate, plain and conditional: a seeded model leaves the global state alone and two equally seeded
    # models give the same rows whatever the global state was
    try:
        import pandas as pd
        Xg = pd.DataFrame(rs.normal(size=(80, 3)) @ np.array([[1.0, 0.5, 0.2], [0.0, 0.8, -0.3], [0.0, 0.0, 0.9]]),
                          columns=['c', 'a', 'b'])
        for kw in ({}, {'conditions': {'a': 0.3}}, {'conditions': pd.Series({'c': -0.2, 'b': 0.4})}):
            outs = []
            for g in (5, 77):
                np.random.seed(g)
                g0 = np.random.get_state()[1].copy()
                mg = GaussianMultivariate(distribution=GaussianUnivariate, random_state=13)
                mg.fit(Xg)
                outs.append(mg.sample(4, **kw))
                if not (np.random.get_state()[1] == g0).all():
                    bad.append('GaussianMultivariate.sample(%s): a seeded model changed the global NumPy state'
                               % ('conditions' if kw else 'plain'))
                    break
            if len(outs) == 2 and not outs[0].equals(outs[1]):
                bad.append('GaussianMultivariate.sample(%s): two models seeded alike give different rows when the global '
                           'state differs' % ('conditions' if kw else 'plain'))
    except Exception as e:      # noqa
        bad.append('GaussianMultivariate sampling: %s: %s' % (type(e).__name__, str(e)[:100]))
    # re-seeding after fit must take effect
    u = _fit(Univariate(candidates=[GaussianUnivariate, UniformUnivariate], random_state=7), data)
    u.sample(2)
    u.set_random_state(99)
    r1 = u.sample(3).tolist()
    v = _fit(Univariate(candidates=[GaussianUnivariate, UniformUnivariate], random_state=99), data)
    if r1 != v.sample(3).tolist():
        bad.append('Univariate: set_random_state(99) after fit is ignored')
    d1, d2 = datasets.sample_bivariate_age_income(50, 3), datasets.sample_bivariate_age_income(50, 3)
    if not d1.equals(d2) or len(d1) != 50:
        bad.append('dataset generator not deterministic in (size, seed)')
    return {'confirmed': bool(bad), 'detail': '; '.join(bad) if bad else 'native RNG discipline holds on the replay scenarios'}


def _fit(m, data):
    m.fit(data)
    return m


def fresh_env():
    I = engine.new_interp()
    gm.install_rootfinders(I)
    return I


def seeded_checks(chk, tag, I, make_model, call, fq, raises_ok=False, interleave=True):
    """make_model(I, c) -> fitted model whose random_state is set to RandomStateObj(S0) by the caller of this helper;
    call(I, c, m) performs sample()."""
    def body(c):
        m = make_model(I, c)
        seed_obj = RandomStateObj(S0)
        I.call_method(m, 'set_random_state', [seed_obj])
        c.out['seed_obj'] = seed_obj
        c.out['m'] = m
        c.assume(ir.ge(M, 1))
        try:
            r1 = call(I, c, m)
        finally:
            c.out['G_after_1'] = State.rng
            rs_ = m.attrs.get('random_state')
            c.out['state_after_1'] = rs_.state if isinstance(rs_, RandomStateObj) else None
            c.out['seed_after'] = seed_obj.state
            c.out['rs_is_seed_obj'] = rs_ is seed_obj
        # another model of the same family, seeded differently, samples in between: the streams must not interfere
        if interleave:
            other = make_model(I, c)
            I.call_method(other, 'set_random_state', [RandomStateObj(S2)])
            c.out['other'] = call(I, c, other)
        r2 = call(I, c, m)
        c.out['G_after_2'] = State.rng
        # re-seed and sample again
        I.call_method(m, 'set_random_state', [RandomStateObj(S1)])
        r3 = call(I, c, m)
        c.out['r'] = (r1, r2, r3)
        return r1
    res, ctx = engine.run_paths(I, body)
    k = 0
    for r in res:
        if r.outcome == 'unsupported':
            chk.undecided.append(('C15.%s.exec' % tag, 'executor', str(r.value)))
            continue
        st = r.state or {}
        if 'G_after_1' in st:
            chk.add(Ob('C15.%s.global_state_restored.%s.%d' % (tag, r.outcome, len(chk.obs)), r.pc,
                       ir.eq(st['G_after_1'], G0), function=fq, free_ufs_ok=True, replay=rng_replay,
                       clause='the global NumPy state is left exactly as it was%s' %
                              (' (even though sampling raised)' if r.outcome == 'raise' else '')))
            chk.add(Ob('C15.%s.seed_object_not_consumed.%s.%d' % (tag, r.outcome, len(chk.obs)), r.pc,
                       ir.eq(st['seed_after'], S0), function=fq, free_ufs_ok=True, replay=rng_replay,
                       clause='the RandomState object given as seed is read, not consumed in place (models sharing it stay '
                              'independent)'))
        if r.outcome != 'return':
            if not raises_ok:
                chk.add(Ob('C15.%s.no_exception.%s' % (tag, getattr(r.value, 'clsname', '?')), r.pc, ir.FALSE, function=fq,
                           free_ufs_ok=True, clause='sampling succeeds [%s]' % str(getattr(r.value, 'args', ''))[:80]))
            continue
        k += 1
        r1, r2, r3 = st['r']
        t1, t2, t3 = terms_of(r1), terms_of(r2), terms_of(r3)
        dep_g = any(mentions(t, G0) for t in t1 + t2 + t3)
        chk.add(Ob('C15.%s.stream_independent_of_global_state.%d' % (tag, k), [], ir.const(not dep_g),
                   backends=('syntactic',), function=fq, replay=rng_replay,
                   clause='with a seed the sample is a function of the fitted parameters and the model\'s own stream state, '
                          'never of the global state'))
        chk.add(Ob('C15.%s.stream_starts_from_seed.%d' % (tag, k), [],
                   ir.const(bool(t1) and any(mentions(t, S0) for t in t1)), backends=('syntactic',), function=fq,
                   replay=rng_replay, clause='the first sample is driven by the seed\'s state'))
        adv = st['state_after_1']
        chk.add(Ob('C15.%s.stream_advances.%d' % (tag, k), [],
                   ir.const(adv is not None and adv is not S0 and mentions(adv, S0) and not mentions(adv, G0) and
                            bool(t2) and any(adv in ir.subterms(t) for t in t2)),
                   backends=('syntactic',), function=fq, replay=rng_replay,
                   clause='the advanced state is written back to the model and the next call continues from it'))
        to = terms_of(st['other']) if 'other' in st else None
        if to is not None:
            chk.add(Ob('C15.%s.models_do_not_share_a_stream.%d' % (tag, k), [],
                       ir.const(not any(mentions(t, S2) for t in t1 + t2 + t3) and bool(to) and
                                not any(mentions(t, S0) or mentions(t, G0) for t in to)),
                       backends=('syntactic',), function=fq, replay=rng_replay,
                       clause='a second model with its own seed sampling in between leaves this model\'s stream alone, and its '
                              'own sample is driven by its own seed only (every interleaving of two models)'))
        chk.add(Ob('C15.%s.reseed_takes_effect.%d' % (tag, k), [],
                   ir.const(bool(t3) and any(mentions(t, S1) for t in t3) and not any(mentions(t, S0) for t in t3)),
                   backends=('syntactic',), function=fq, replay=rng_replay,
                   clause='after set_random_state(new seed) the stream is driven by the new seed only'))
        chk.add(Ob('C15.%s.global_state_restored_again.%d' % (tag, k), r.pc, ir.eq(st['G_after_2'], G0), function=fq,
                   free_ufs_ok=True, clause='global state unchanged after the second call as well'))
    if k == 0 and not chk.undecided and not raises_ok:
        chk.engine_error('C15.%s: no returning path' % tag)


def unseeded_checks(chk, tag, I, make_model, call, fq):
    def body(c):
        m = make_model(I, c)
        I.call_method(m, 'set_random_state', [None])
        c.assume(ir.ge(M, 1))
        r1 = call(I, c, m)
        c.out['G_after'] = State.rng
        return r1
    res, ctx = engine.run_paths(I, body)
    for j, r in enumerate(res):
        if r.outcome != 'return':
            continue
        ts = terms_of(r.value)
        chk.add(Ob('C15.%s.unseeded_driven_by_global_state.%d' % (tag, j), [],
                   ir.const(bool(ts) and all(mentions(t, G0) for t in ts) and mentions(r.state['G_after'], G0) and
                            r.state['G_after'] is not G0), backends=('syntactic',), function=fq,
                   clause='without a seed sampling is driven by (and advances) the global NumPy state'))


def build(chk):
    I0 = engine.new_interp()
    src = I0.source
    chk.under_contract(src, ['copulas.utils.set_random_state', 'copulas.utils.random_state', 'copulas.utils.validate_random_state',
                             uni.BASE + 'ScipyModel.sample', uni.BASE + 'Univariate.sample', uni.BASE + 'Univariate.set_random_state',
                             uni.CLASSES['GaussianKDE'][0] + '.sample', 'copulas.bivariate.base.Bivariate.sample',
                             'copulas.bivariate.base.Bivariate.set_random_state', gm.GM + '.sample',
                             'copulas.multivariate.base.Multivariate.set_random_state'])
    # --- univariates ------------------------------------------------------------------------------------------
    for cls in uni.CLASSES:
        I = fresh_env()

        def mk(I, c, cls=cls):
            m = uni.new_model(I, cls)
            c.assume(ir.ge(uni.N, 2))
            c.assume(ir.gt(ir.uf('n_unique', [uni.XW], 'I'), 1))
            I.call_method(m, 'fit', [uni.data_lane()])
            return m
        call = lambda I, c, m: I.call_method(m, 'sample', [Sym(M)])
        fq = (uni.CLASSES[cls][0] if cls == 'GaussianKDE' else uni.BASE + 'ScipyModel') + '.sample'
        seeded_checks(chk, cls, I, mk, call, fq)
        unseeded_checks(chk, cls, fresh_env(), mk, call, fq)
    # --- the selecting wrapper -----------------------------------------------------------------------------
    for fam in ('GaussianUnivariate', 'GaussianKDE'):
        I = fresh_env()

        def sel(interp, args, kwargs, fam=fam):
            return uni.new_model(interp, fam)
        I.summaries['copulas.univariate.selection.select_univariate'] = sel

        def mk(I, c):
            m = I.call_qual(uni.BASE + 'Univariate', [], {'random_state': RandomStateObj(ir.var('ctor_seed', 'U'))})
            c.assume(ir.ge(uni.N, 2))
            c.assume(ir.gt(ir.uf('n_unique', [uni.XW], 'I'), 1))
            I.call_method(m, 'fit', [uni.data_lane()])
            return m
        seeded_checks(chk, 'Univariate_' + fam, I, mk, lambda I, c, m: I.call_method(m, 'sample', [Sym(M)]),
                      uni.BASE + 'Univariate.sample')
    # --- bivariate ---------------------------------------------------------------------------------------------
    for fam in biv.FAMILIES:
        I = fresh_env()

        def mk(I, c, fam=fam):
            m = biv.make_copula(I, fam, c, havoc=False)
            c.assume(biv.FAMILIES[fam]['theta'](biv.TH))
            return m
        call = lambda I, c, m: I.call_method(m, 'sample', [Sym(M)])
        # sampling may raise (|tau| > 1 guard, brentq bracket): the state must be restored on those paths too
        seeded_checks(chk, 'Bivariate_' + fam, I, mk, call, 'copulas.bivariate.base.Bivariate.sample', raises_ok=True)
    # --- gaussian multivariate (unconditional and conditional) --------------------------------------------------
    for cond in (False, True):
        I = fresh_env()
        labels = gm.NAMES[:2]

        def mk(I, c):
            G = I.resolve(uni.CLASSES['GaussianUnivariate'][0])
            return gm.fit_model(I, c, labels, G)

        def call(I, c, m, cond=cond):
            kw = {'conditions': {labels[0]: Sym(ir.var('condv'))}} if cond else {}
            return I.call_method(m, 'sample', [Sym(M)], kw)
        seeded_checks(chk, 'GaussianMultivariate' + ('_conditional' if cond else ''), I, mk, call, gm.GM + '.sample')
    # --- vines: the same @random_state wrapper around a row-by-row sampler (two rows: the loop is unrolled) ------------
    from . import vine
    for vt in ('center', 'direct', 'regular'):
        I = fresh_env()
        vine.install_contracts(I)

        def mk(I, c, vt=vt):
            return vine.fit_vine(I, c, 2, vt)

        def call(I, c, m):
            return I.call_method(m, 'sample', [2])
        with vine.mode():
            # (the two-model interleaving is exercised on the univariate / bivariate / Gaussian users of the same wrapper)
            seeded_checks(chk, 'VineCopula_' + vt, I, mk, call, vine.VINE + '.sample', interleave=False)
            unseeded_checks(chk, 'VineCopula_' + vt, I, mk, call, vine.VINE + '.sample')
    build_validate(chk)
    build_datasets(chk)
    # canary: a seeded sample must not equal the unseeded one
    chk.add(Ob('C15.canary.seeded_equals_global', [], ir.eq(ir.uf('rvs.norm.elem', [S0, ir.ZERO]), ir.uf('rvs.norm.elem', [G0, ir.ZERO])),
               free_ufs_ok=True, canary=True))
    chk.assumptions += [
        'ghost model of the NumPy legacy generator: global state G, per-object RandomState state, consumers advance G by an '
        'uninterpreted next() - the bit-level generator is not modelled',
        'vines: two columns, sample(2) (the row loop unrolled twice); the row sampler for more columns and the loop invariant are in C17',
    ]
    chk.not_addressed += [
        {'clause': 'seeds given as int', 'reason': 'validate_random_state turns an int into RandomState(seed) (proved); from '
         'there the RandomState case applies'},
    ]


def build_validate(chk):
    I = engine.new_interp()
    V = 'copulas.utils.validate_random_state'

    def body(c):
        rs = RandomStateObj(S0)
        a = I.call_qual(V, [None])
        b = I.call_qual(V, [5])
        cc = I.call_qual(V, [rs])
        try:
            I.call_qual(V, ['seed'])
            d = 'no error'
        except PyRaise as e:
            d = e.exc.clsname
        return (a, b, cc is rs, d)
    res, ctx = engine.run_paths(I, body)
    for r in res:
        okk = r.outcome == 'return' and r.value[0] is None and isinstance(r.value[1], RandomStateObj) and \
            r.value[1].state is ir.uf('rng.seed', [ir.const(5)], 'U') and r.value[2] is True and r.value[3] == 'TypeError'
        chk.add(Ob('C15.validate_random_state', [], ir.const(bool(okk)), backends=('syntactic',), function=V,
                   clause='None -> None, int -> RandomState(seed), RandomState -> itself, anything else -> TypeError '
                          '[%r]' % (r.value if r.outcome == 'return' else r.outcome,)))


def build_datasets(chk):
    names = ['sample_bivariate_age_income', 'sample_trivariate_xyz', 'sample_univariate_bernoulli', 'sample_univariate_bimodal',
             'sample_univariate_uniform', 'sample_univariate_normal', 'sample_univariate_degenerate',
             'sample_univariate_exponential', 'sample_univariate_beta', 'sample_univariates']
    I0 = engine.new_interp()
    chk.under_contract(I0.source, ['copulas.datasets.' + n for n in names])
    SIZE = ir.var('size', 'I')
    for nm in names:
        I = engine.new_interp()

        def body(c, nm=nm):
            c.assume(ir.ge(SIZE, 1))
            out = I.call_qual('copulas.datasets.' + nm, [Sym(SIZE), 42])
            c.out['G_after'] = State.rng
            return out
        res, ctx = engine.run_paths(I, body)
        k = 0
        for r in res:
            if r.outcome == 'unsupported':
                chk.undecided.append(('C15.datasets.%s.exec' % nm, 'executor', str(r.value)))
                continue
            if r.outcome != 'return':
                chk.add(Ob('C15.datasets.%s.no_exception' % nm, r.pc, ir.FALSE, function='copulas.datasets.' + nm,
                           free_ufs_ok=True, clause='the generator succeeds [%s]' % (r.value,)))
                continue
            k += 1
            v = r.value
            ts = terms_of(v)
            lanes = [v.cols[l] for l in v.labels] if isinstance(v, pdmodel.Frame) else \
                ([v.lane] if isinstance(v, pdmodel.SeriesCol) else ([v] if isinstance(v, Lane) else []))
            fq = 'copulas.datasets.' + nm
            chk.add(Ob('C15.datasets.%s.global_state_restored.%d' % (nm, k), r.pc, ir.eq(r.state['G_after'], G0),
                       function=fq, free_ufs_ok=True, replay=rng_replay, clause='leaves the global NumPy state untouched'))
            chk.add(Ob('C15.datasets.%s.deterministic_in_size_seed.%d' % (nm, k), [],
                       ir.const(bool(ts) and not any(mentions(t, G0) for t in ts)), backends=('syntactic',), function=fq,
                       replay=rng_replay, clause='the data are a function of (size, seed) only'))
            goal = ir.and_(*[ir.eq(l.n.t if isinstance(l.n, Sym) else ir.const(l.n), SIZE) for l in lanes]) if lanes else ir.FALSE
            chk.add(Ob('C15.datasets.%s.rows.%d' % (nm, k), r.pc, goal, function=fq, free_ufs_ok=True,
                       clause='returns exactly `size` rows'))
        if k == 0 and not chk.undecided:
            chk.engine_error('C15.datasets.%s: no returning path' % nm)
