"""C19 - model lifecycle: fit is a pure function of its inputs; misuse fails loudly.

Functions under contract: every fit entry point executed after an EARLIER fit (and queries) on other symbolic data and
compared, observable by observable, with the same fit on a fresh equal model; every query / sample method on an
unfitted object; utils.check_valid_values; utils.get_instance (the C05 obligations are re-generated here).
Vines: unfitted misuse, invalid data, refit = fresh fit, and the uninitialised-memory clause (np.empty cells are
arbitrary values named undef!k; no observable and no branch condition may mention one).
"""
import itertools

from pyvc import ir, engine, smt, pdmodel, libmodel, values
from pyvc.report import Ob
from pyvc.values import Sym, Lane, Arr2, State
from pyvc.interp import Obj, PyRaise, ATTR_HOOKS
from . import uni, biv, gm, vine
from .uni import term

_REPLAY_CACHE = {}
LEVEL = 'proof'
TRUSTED = ['observational equality is checked on the outputs of the query / sample methods for arbitrary (symbolic) queries, '
           'and on the fitted parameter dictionary; two models with equal outputs for all queries are observably identical',
           'library functions are deterministic functions of their arguments (uninterpreted)']
M = ir.var('m', 'I')
G0 = ir.var('G0', 'U')


def lifecycle_replay(env):
    import numpy as np
    import pandas as pd
    import warnings
    warnings.simplefilter('ignore')
    from copulas.univariate import (GaussianUnivariate, BetaUnivariate, GammaUnivariate, GaussianKDE, TruncatedGaussian,
                                    UniformUnivariate, StudentTUnivariate, LogLaplace, Univariate)
    from copulas.bivariate import Clayton, Frank, Gumbel
    from copulas.multivariate import GaussianMultivariate
    from copulas.errors import NotFittedError
    rs = np.random.RandomState(0)
    bad = []
    A = rs.normal(3, 1, 200)
    B = rs.normal(50, 2, 300)
    Cc = np.full(20, 2.0)
    x = np.array([48.0, 50.0, 52.0])
    for K_ in (GaussianUnivariate, BetaUnivariate, GammaUnivariate, GaussianKDE, TruncatedGaussian, UniformUnivariate,
               StudentTUnivariate, LogLaplace):
        fresh = K_()
        fresh.fit(B)
        for name, first in (('other data', A), ('constant data', Cc)):
            m = K_()
            m.fit(first)
            m.fit(B)
            if not np.allclose(m.cumulative_distribution(x), fresh.cumulative_distribution(x), atol=1e-9):
                bad.append('%s: re-fit after %s differs from a fresh fit: cdf %r vs %r' %
                           (K_.__name__, name, m.cumulative_distribution(x).tolist(), fresh.cumulative_distribution(x).tolist()))
    k1 = GaussianKDE(sample_size=None)
    X1 = pd.DataFrame(rs.multivariate_normal([0, 0, 0], [[1, .9, 0], [.9, 1, 0], [0, 0, 1]], 500), columns=['a', 'b', 'c'])
    X2 = pd.DataFrame(rs.multivariate_normal([0, 0, 0], [[1, -.9, 0], [-.9, 1, 0], [0, 0, 1]], 500), columns=['a', 'b', 'c'])
    q = X2.iloc[:4]
    m = GaussianMultivariate(distribution=GaussianUnivariate, random_state=1)
    m.fit(X1)
    m.probability_density(q)
    m.sample(5, conditions={'a': 1.0})
    m.fit(X2)
    f = GaussianMultivariate(distribution=GaussianUnivariate, random_state=1)
    f.fit(X2)
    if not np.allclose(m.probability_density(q), f.probability_density(q), rtol=1e-9):
        bad.append('GaussianMultivariate: density after a re-fit differs from a fresh fit')
    m.set_random_state(1)
    f.set_random_state(1)
    s1, s2 = m.sample(2000, conditions={'a': 1.0}), f.sample(2000, conditions={'a': 1.0})
    if abs(s1['b'].mean() - s2['b'].mean()) > 1e-9:
        bad.append('GaussianMultivariate: conditional sample after a re-fit differs from a fresh fit (mean b %.3f vs %.3f)' %
                   (s1['b'].mean(), s2['b'].mean()))
    for K_ in (Clayton, Frank, Gumbel):
        try:
            K_().cumulative_distribution(np.array([[.2, .3]]))
            bad.append('%s: unfitted query did not raise' % K_.__name__)
        except NotFittedError:
            pass
        except Exception as e:
            bad.append('%s: unfitted query raised %s' % (K_.__name__, type(e).__name__))
    for kw in ({}, {'conditions': {'a': 0.5}}, {'conditions': pd.Series({'a': 0.5})}):
        try:
            GaussianMultivariate().sample(3, **kw)
            bad.append('GaussianMultivariate: unfitted sample(%s) returned a value' % ('conditions' if kw else ''))
        except NotFittedError:
            pass
        except Exception as e:
            bad.append('GaussianMultivariate: unfitted sample(%s) raised %s' % (type(kw.get('conditions')).__name__ if kw else '',
                                                                                  type(e).__name__))
    g = GaussianMultivariate()
    for name, Xbad in (('empty', pd.DataFrame({'a': []})), ('nan', pd.DataFrame({'a': [1.0, np.nan]})),
                       ('strings', pd.DataFrame({'a': ['x', 'y']})),
                       ('boolean', pd.DataFrame({'a': [1.0, 2.5, 4.0, 0.5], 'b': [True, False, True, True]})),
                       ('digit strings', pd.DataFrame({'a': [1.0, 2.5, 4.0, 0.5], 'b': ['1', '2', '3', '5']})),
                       ('python objects', pd.DataFrame({'a': [1.0, 2.5], 'b': [object(), object()]}))):
        try:
            g = GaussianMultivariate(distribution=GaussianUnivariate)
            g.fit(Xbad)
            bad.append('GaussianMultivariate.fit accepted %s data' % name)
        except ValueError:
            if g.fitted:
                bad.append('GaussianMultivariate is marked fitted after rejecting %s data' % name)
        except Exception as e:
            bad.append('GaussianMultivariate.fit(%s) raised %s' % (name, type(e).__name__))
    return {'confirmed': bool(bad), 'detail': '; '.join(bad[:6]) if bad else 'native lifecycle scenarios behave as specified'}


def replay_for(keyword):
    def rep(env):
        r = lifecycle_replay(env)
        msgs = [m_ for m_ in r['detail'].split('; ') if keyword.lower() in m_.lower()]
        return {'confirmed': bool(r['confirmed'] and msgs), 'detail': '; '.join(msgs) if msgs else
                'native lifecycle scenarios for %s behave as specified' % keyword}
    return rep


def observe_uni(I, c, m, tag):
    out = {}
    for meth in ('cumulative_distribution', 'percent_point', 'probability_density', 'sample'):
        State.rng = G0
        if meth == 'sample':
            out[meth] = I.call_method(m, meth, [Sym(M)])
        else:
            q = Lane(ir.var('q@i'), Sym(M))
            if meth == 'percent_point':
                values.assume_all_lanes(ir.and_(ir.ge(q.t, 0), ir.le(q.t, 1)))
            out[meth] = I.call_method(m, meth, [q])
    return out


def compare(chk, tag, fq, resA, resB, keys, replay=lifecycle_replay):
    """every pair (fresh path, history path) that is jointly feasible must give equal observations"""
    n = 0
    A = [r for r in resA if r.outcome == 'return']
    B = [r for r in resB if r.outcome == 'return']
    for r in resA + resB:
        if r.outcome == 'unsupported':
            chk.undecided.append(('C19.%s.exec' % tag, 'executor', str(r.value)))
    for rb in [r for r in resB if r.outcome == 'raise']:
        # a fit that succeeds on a fresh model must also succeed after an earlier fit
        for ra in A:
            sat, _ = smt.satisfiable(list(ra.pc) + list(rb.pc), timeout_ms=3000)
            if sat is not False:
                chk.add(Ob('C19.%s.refit_raises.%s' % (tag, rb.value.clsname), list(ra.pc) + list(rb.pc), ir.FALSE,
                           function=fq, free_ufs_ok=True, replay=replay,
                           clause='re-fitting raises although a fresh model fits the same data [%s]' % (rb.value,)))
                break
    for (i, ra), (j, rb) in itertools.product(enumerate(A), enumerate(B)):
        hy = list(ra.pc) + [p for p in rb.pc if p not in ra.pc]
        sat, _ = smt.satisfiable(hy, timeout_ms=3000)
        if sat is False:
            continue
        for k in keys:
            a, b = ra.state['obs'].get(k), rb.state['obs'].get(k)
            ta, tb = obs_terms(a), obs_terms(b)
            if ta is None or tb is None or len(ta) != len(tb):
                goal = ir.const(ta == tb)
            else:
                goal = ir.and_(*[ir.eq(x, y) if x.sort == y.sort else ir.FALSE for x, y in zip(ta, tb)]) if ta else ir.TRUE
            n += 1
            chk.add(Ob('C19.%s.same_as_fresh.%s.%d_%d' % (tag, k, i, j), hy, goal, function=fq, free_ufs_ok=True,
                       replay=replay, clause='after an earlier fit (and queries) on other data, fit(X) gives the same `%s` as '
                       'fit(X) on a fresh equal model' % k))
    if n == 0 and not chk.undecided:
        chk.engine_error('C19.%s: nothing compared' % tag)


def obs_terms(v):
    if v is None:
        return []
    if isinstance(v, (Sym, Lane)):
        return [v.t]
    if isinstance(v, Arr2):
        return [c.t for c in v.cols]
    if isinstance(v, pdmodel.Frame):
        return [v.cols[l].t for l in v.labels]
    if isinstance(v, pdmodel.LabeledMat):
        return [x.t for row in v.data for x in row]
    if isinstance(v, dict):
        out = []
        for k in sorted(v, key=str):
            t = obs_terms(v[k])
            if t is None:
                return None
            out += t
        return out
    if isinstance(v, (int, float, bool)):
        return [ir.const(v)]
    if isinstance(v, (list, tuple)):
        out = []
        for x in v:
            t = obs_terms(x)
            if t is None:
                return None
            out += t
        return out
    if isinstance(v, str):
        return [ir.const(v)]
    return None


def build(chk):
    I0 = engine.new_interp()
    src = I0.source
    chk.under_contract(src, [uni.BASE + 'ScipyModel.fit', uni.BASE + 'Univariate.fit', uni.BASE + 'Univariate.check_fit',
                             uni.BASE + 'Univariate._restore_constant_methods', 'copulas.bivariate.base.Bivariate.fit',
                             'copulas.bivariate.base.Bivariate.check_fit', gm.GM + '.fit',
                             'copulas.multivariate.base.Multivariate.check_fit', 'copulas.utils.check_valid_values',
                             'copulas.utils.get_instance'])
    build_univariate(chk)
    build_wrapper(chk)
    build_wrapper_refit(chk)
    build_bivariate(chk)
    build_gaussian(chk)
    build_unfitted(chk)
    build_invalid(chk)
    build_vines(chk)
    from . import C05
    n0 = len(chk.obs)
    C05.build_get_instance(chk)
    for ob in chk.obs[n0:]:
        ob.name = ob.name.replace('C05.', 'C19.', 1)
    chk.assumptions += [
        'earlier history: one fit on arbitrary other data (constant or not) followed by queries; by induction every longer '
        'history reduces to this step because the step leaves a state observably equal to a fresh fit',
        'reals not floats; library calls deterministic',
    ]


def vine_replay(kind, vt, d):
    """the native driver depends only on its arguments: run it once per group of obligations"""
    inner = _vine_replay_uncached(kind, vt, d)

    def replay(env, _key=('vine_replay', kind, vt, d)):
        if _key not in _REPLAY_CACHE:
            _REPLAY_CACHE[_key] = inner(env)
        return _REPLAY_CACHE[_key]
    return replay


def _vine_replay_uncached(kind, vt, d):
    def replay(env):
        import warnings
        import numpy as np
        import pandas as pd
        warnings.simplefilter('ignore')
        from copulas.multivariate import VineCopula
        from copulas.errors import NotFittedError
        bad = []
        if kind == 'unfitted':
            for meth, arg in (('sample', 3), ('get_likelihood', np.array([[0.3, 0.6]]))):
                try:
                    getattr(VineCopula(vt), meth)(arg)
                    bad.append('unfitted %s returned a value' % meth)
                except NotFittedError:
                    pass
                except Exception as e:      # noqa
                    bad.append('unfitted VineCopula.%s raises %s, not NotFittedError' % (meth, type(e).__name__))
        elif kind == 'invalid':
            for name, X in (('empty', pd.DataFrame({'a': [], 'b': []})), ('nan', pd.DataFrame({'a': [1., np.nan], 'b': [0., 1.]})),
                            ('text', pd.DataFrame({'a': ['x', 'y'], 'b': [0., 1.]}))):
                v = VineCopula(vt)
                try:
                    v.fit(X)
                    bad.append('fit accepted %s data' % name)
                except ValueError:
                    if v.fitted:
                        bad.append('%s data: ValueError but fitted is True' % name)
                except Exception as e:      # noqa
                    bad.append('%s data: %s instead of ValueError' % (name, type(e).__name__))
        else:
            for seed in range(6):
                rs = np.random.RandomState(seed)
                A = rs.normal(size=(d, d))
                X = pd.DataFrame(rs.multivariate_normal(np.zeros(d), A @ A.T + 0.3 * np.eye(d), 70), columns=vine.LABELS[:d])
                z0 = rs.normal(size=40)
                z1 = z0 + 0.3 * rs.normal(size=40)
                X0 = pd.DataFrame({'p': z0 + 5, 'q': z1 + 5, 'r': z1 + 0.3 * rs.normal(size=40) + 5})     # a chain p - q - r
                u = rs.uniform(0.2, 0.8, size=(1, d))
                outs = []
                for fill, hist in ((np.nan, False), (7.0, False), (7.0, True)):
                    with vine.poisoned_empty(fill):
                        v = VineCopula(vt)
                        if hist:
                            v.fit(X0, truncated=1)
                            v.sample(2)
                        v.fit(X, truncated=d)
                        dd = v.to_dict()
                        v.set_random_state(11)
                        try:
                            rows = repr(np.round(v.sample(6).to_numpy(), 9).tolist())
                        except Exception as e:          # noqa
                            rows = 'sample raised %s' % type(e).__name__
                        outs.append((repr(dd), float(v.get_likelihood(u)), rows))
                if kind == 'undef' and repr(outs[0]) != repr(outs[1]):
                    a, b = outs[0][0], outs[1][0]
                    i = next((k for k in range(min(len(a), len(b))) if a[k] != b[k]), 0)
                    bad.append('seed %d: the fitted model differs when np.empty is filled with NaN or with 7: ...%s... vs ...%s...' %
                               (seed, a[max(0, i - 60):i + 30], b[max(0, i - 60):i + 30]))
                if kind == 'refit' and repr(outs[1]) != repr(outs[2]):
                    bad.append('seed %d: fit(X) after an earlier fit differs from fit(X) on a fresh model' % seed)
                if bad:
                    break
        return {'confirmed': bool(bad), 'detail': bad[0] if bad else 'native %s vines: %s clause holds on the tried tables' % (vt, kind),
                'input': {'vine_type': vt, 'd': d, 'kind': kind}}
    return replay


def build_vines(chk):
    """VineCopula: unfitted misuse, invalid training data, no dependence on np.empty contents, refit = fresh fit"""
    VINE = vine.VINE
    chk.under_contract(engine.new_interp().source, [VINE + '.fit', VINE + '.sample', VINE + '.get_likelihood',
                                                    vine.TREE + 'Tree.get_tau_matrix', vine.TREE + 'Tree.get_likelihood',
                                                    vine.TREE + 'Edge.get_likelihood', vine.TREE + 'Tree._sort_tau_by_y',
                                                    vine.TREE + 'CenterTree.get_anchor'])
    # -- unfitted --------------------------------------------------------------------------------------------------
    for vt in ('center', 'direct', 'regular'):
        for meth in ('sample', 'get_likelihood'):
            I = engine.new_interp()

            def body(c, I=I, vt=vt, meth=meth):
                m = I.call_qual(VINE, [vt], {})
                c.assume(ir.ge(M, 1))
                arg = Sym(M) if meth == 'sample' else Arr2([Lane(ir.var('qa'), 1), Lane(ir.var('qb'), 1)], 1)
                return I.call_method(m, meth, [arg])
            with vine.mode():
                res, _ = engine.run_paths(I, body)
            for j, r in enumerate(res):
                if r.outcome == 'unsupported':
                    chk.undecided.append(('C19.unfitted.vine.%s.%s.exec' % (vt, meth), 'executor', str(r.value)))
                    continue
                okk = r.outcome == 'raise' and r.value.clsname == 'NotFittedError'
                what = r.value.clsname if r.outcome == 'raise' else 'returned a value'
                chk.add(Ob('C19.unfitted.vine.%s.%s.%d' % (vt, meth, j), r.pc, ir.const(bool(okk)), function=VINE + '.' + meth,
                           free_ufs_ok=True, replay=vine_replay('unfitted', vt, 2),
                           clause='querying or sampling an unfitted vine raises NotFittedError [%s]' % what))
    # -- invalid training data -----------------------------------------------------------------------------------------
    labels = ['a', 'b']
    for scen in ('empty', 'non_numeric', 'nan'):
        I = engine.new_interp()
        gm.install_rootfinders(I)
        vine.install_contracts(I)

        def body(c, I=I, scen=scen):
            m = I.call_qual(VINE, ['regular'], {})
            X = gm.training_frame(labels)
            c.assume(ir.eq(gm.N, 0) if scen == 'empty' else ir.ge(gm.N, 1))
            if scen == 'non_numeric':
                X.np_dtype = 'object'
            if scen == 'nan':
                for l in labels:
                    values.NANABLE.add(gm.colvar(l))
                c.assume(ir.uf('isnan', [gm.colvar(labels[0])], 'B'))
            writes = []
            hook = lambda obj, name, v: writes.append(name) if obj is m else None      # noqa: E731
            ATTR_HOOKS.append(hook)
            try:
                I.call_method(m, 'fit', [X])
            finally:
                ATTR_HOOKS.remove(hook)
                c.out['writes'] = list(writes)
                c.out['fitted'] = I.getattr(m, 'fitted')
                for l in labels:
                    values.NANABLE.discard(gm.colvar(l))
            return None
        with vine.mode():
            res, _ = engine.run_paths(I, body)
        for j, r in enumerate(res):
            if r.outcome == 'unsupported':
                chk.undecided.append(('C19.invalid.vine.%s.exec' % scen, 'executor', str(r.value)))
                continue
            st = r.state or {}
            okk = r.outcome == 'raise' and r.value.clsname == 'ValueError' and not st.get('writes') and st.get('fitted') is False
            chk.add(Ob('C19.invalid.vine.%s.%d' % (scen, j), r.pc, ir.const(bool(okk)), function='copulas.utils.check_valid_values',
                       free_ufs_ok=True, replay=vine_replay('invalid', 'regular', 2),
                       clause='VineCopula.fit rejects %s training data with ValueError before writing anything, and stays unfitted '
                              '[%s; wrote %r; fitted=%r]' % (scen, r.value.clsname if r.outcome == 'raise' else r.outcome,
                                                             st.get('writes'), st.get('fitted'))))
    # -- no result depends on uninitialised memory; a refit equals a fresh fit -------------------------------------------
    dims = (2, 3, 4) if chk.tier == 'quick' else (2, 3, 4, 5)
    for vt in ('center', 'direct', 'regular'):
        for d in dims:
            for hist in (False, True):
                if hist and d != 3:
                    continue
                I = engine.new_interp()
                gm.install_rootfinders(I)
                vine.install_contracts(I)
                uq = [ir.var('uq_%d' % i) for i in range(d)]

                def body(c, I=I, d=d, vt=vt, hist=hist, uq=uq):
                    m = vine.fit_vine(I, c, d, vt, truncated=d)
                    c.assume(ir.and_(*[ir.and_(ir.gt(x, 0), ir.lt(x, 1)) for x in uq]))
                    c.out['dict'] = I.call_method(m, 'to_dict', [])
                    c.out['lik'] = I.call_method(m, 'get_likelihood', [Arr2([Lane(x, 1) for x in uq], 1)])
                    if hist:
                        n0 = Sym(ir.var('n0', 'I'))
                        c.assume(ir.ge(n0.t, 2))
                        labels0 = ['p', 'q', 'r']
                        X0 = pdmodel.Frame(labels0, {l: Lane(ir.var('w_%s@i' % l), n0) for l in labels0}, n0)
                        for l in labels0:
                            c.assume(ir.gt(ir.uf('n_unique', [ir.var('w_%s' % l, 'U')], 'I'), 1))
                        m2 = I.call_qual(VINE, [vt], {})
                        I.call_method(m2, 'fit', [X0, 1])
                        I.call_method(m2, 'get_likelihood', [Arr2([Lane(ir.var('uu_%d' % i), 1) for i in range(3)], 1)])
                        State.rng = ir.var('Ghist', 'U')                 # ... and sampled, from an arbitrary generator state
                        I.call_method(m2, '_sample_row', [])
                        m2 = vine.fit_vine(I, c, d, vt, truncated=d, model=m2)
                        c.out['dict2'] = I.call_method(m2, 'to_dict', [])
                        try:
                            State.rng = G0
                            c.out['row'] = I.call_method(m, '_sample_row', [])
                            State.rng = G0
                            c.out['row2'] = I.call_method(m2, '_sample_row', [])
                        except engine.paths.Unsupported as e:
                            c.out['row2'] = 'unsupported: %s' % str(e)[:120]
                        try:
                            c.out['lik2'] = I.call_method(m2, 'get_likelihood', [Arr2([Lane(x, 1) for x in uq], 1)])
                        except engine.paths.Unsupported as e:
                            c.out['lik2'] = 'unsupported: %s' % str(e)[:120]
                    return None
                with vine.mode():
                    res, _ = engine.run_paths(I, body, max_paths=200000)
                k = 0
                for r in res:
                    tag = 'vine.%s.d%d%s' % (vt, d, '.refit' if hist else '')
                    if r.outcome == 'unsupported':
                        chk.undecided.append(('C19.%s.exec' % tag, 'executor', str(r.value)))
                        continue
                    if r.outcome != 'return':
                        chk.add(Ob('C19.%s.no_exception.%s' % (tag, getattr(r.value, 'clsname', '?')), r.pc, ir.FALSE,
                                   function=VINE + '.fit', free_ufs_ok=True, replay=vine_replay('refit' if hist else 'undef', vt, d),
                                   clause='fit%s succeeds [%s]' % (' after an earlier fit' if hist else '',
                                                                   str(getattr(r.value, 'args', ''))[:80])))
                        continue
                    k += 1
                    st = r.state
                    if not hist:
                        where = []
                        for pth, x in vine.flatten(st['dict']):
                            if isinstance(x, ir.T) and vine.mentions_undef(x):
                                where.append('to_dict()%s' % pth)
                        if isinstance(st['lik'], Sym) and vine.mentions_undef(st['lik'].t):
                            where.append('get_likelihood(u)')
                        for p in r.pc:
                            if vine.mentions_undef(p):
                                where.append('a branch condition: %s' % ir.show(p)[:80])
                                break
                        chk.add(Ob('C19.%s.no_uninitialised_memory.%d' % (tag, k), r.pc, ir.const(not where),
                                   backends=('syntactic',), function=vine.TREE + 'Tree.get_tau_matrix',
                                   replay=vine_replay('undef', vt, d),
                                   clause='no observable of the fitted vine (to_dict, get_likelihood, the choices made while '
                                          'building the trees) depends on a cell of an np.empty array that was never written%s'
                                          % (' [%s]' % '; '.join(where[:3]) if where else '')))
                    else:
                        goal, diff = vine.same_tree(st['dict'], st['dict2'])
                        chk.add(Ob('C19.%s.same_as_fresh.to_dict.%d' % (tag, k), r.pc, goal, function=VINE + '.fit',
                                   free_ufs_ok=True, replay=vine_replay('refit', vt, d),
                                   clause='after an earlier fit (and a query) on another table, fit(X) gives the same to_dict() as '
                                          'fit(X) on a fresh vine%s' % (' [%s]' % diff if diff else '')))
                        if isinstance(st.get('row2'), str) or 'row' not in st:
                            chk.undecided.append(('C19.%s.same_as_fresh.sample_row.%d' % (tag, k), 'executor', str(st.get('row2'))))
                        else:
                            goal, diff = vine.same_tree(st['row'], st['row2'])
                            chk.add(Ob('C19.%s.same_as_fresh.sample_row.%d' % (tag, k), r.pc, goal, function=VINE + '.fit',
                                       free_ufs_ok=True, replay=vine_replay('refit', vt, d),
                                       clause='... and the same sampled row under the same generator state (marginal quantile '
                                              'functions, pair copulas and traversal of the refitted vine are those of a fresh fit)%s'
                                              % (' [%s]' % diff if diff else '')))
                        a, b = st['lik'], st['lik2']
                        if isinstance(b, str):
                            chk.undecided.append(('C19.%s.same_as_fresh.get_likelihood.%d' % (tag, k), 'executor', b))
                            continue
                        chk.add(Ob('C19.%s.same_as_fresh.get_likelihood.%d' % (tag, k), r.pc,
                                   ir.eq(a.t, b.t) if isinstance(a, Sym) and isinstance(b, Sym) else ir.FALSE,
                                   function=VINE + '.fit', free_ufs_ok=True, replay=vine_replay('refit', vt, d),
                                   clause='... and the same get_likelihood(u)'))
                if k == 0 and not chk.undecided:
                    chk.engine_error('C19.vine.%s.d%d: no returning path' % (vt, d))


def build_univariate(chk):
    Y = ir.var('y', 'U')
    for cls, (qual, dist) in uni.CLASSES.items():
        kws = [('default', {})]
        if cls == 'GaussianKDE':
            kws.append(('sample_size', {'sample_size': Sym(ir.var('ss', 'I'))}))
        for cfg, kw in kws:
            tag = '%s.%s' % (cls, cfg)

            def run(history, cls=cls, kw=kw):
                I = engine.new_interp()
                gm.install_rootfinders(I)

                def body(c):
                    m = uni.new_model(I, cls, (), dict(kw))
                    c.assume(ir.ge(uni.N, 2))
                    c.assume(ir.ge(M, 1))
                    if kw:
                        c.assume(ir.ge(ir.var('ss', 'I'), 2))
                    if history:
                        ny = Sym(ir.var('ny', 'I'))
                        c.assume(ir.ge(ny.t, 2))
                        I.call_method(m, 'fit', [Lane(ir.var('y@i'), ny)])
                        State.rng = ir.var('G_hist', 'U')
                        observe_uni(I, c, m, 'hist')
                    State.rng = G0
                    I.call_method(m, 'fit', [uni.data_lane()])
                    obs = observe_uni(I, c, m, 'x')
                    obs['_params'] = m.attrs.get('_params')
                    c.out['obs'] = obs
                    return None
                return engine.run_paths(I, body)[0]
            compare(chk, tag, qual + '.fit', run(False), run(True),
                    ('cumulative_distribution', 'percent_point', 'probability_density', 'sample', '_params'),
                    replay=replay_for(cls))


def build_wrapper(chk):
    """the selecting Univariate with the REAL select_univariate and a single candidate family: the fitted instance must be
    what a fresh model of that family fitted on X is, and fitting must not consume randomness"""
    for cls, (qual, dist) in uni.CLASSES.items():
        def run(wrapper, cls=cls, qual=qual):
            I = engine.new_interp()
            gm.install_rootfinders(I)

            def body(c):
                c.assume(ir.ge(uni.N, 2))
                c.assume(ir.ge(M, 1))
                c.assume(ir.gt(ir.uf('n_unique', [uni.XW], 'I'), 1))
                if wrapper:
                    from pyvc.interp import PyList
                    m = I.call_qual(uni.BASE + 'Univariate', [], {'candidates': PyList([I.resolve(qual)])})
                    I.call_method(m, 'fit', [uni.data_lane()])
                    inst = m.attrs['_instance']
                else:
                    m = uni.new_model(I, cls)
                    I.call_method(m, 'fit', [uni.data_lane()])
                    inst = m
                c.out['rng_during_fit'] = State.rng is not G0
                obs = observe_uni(I, c, m, 'x')
                obs['_params'] = inst.attrs.get('_params') if isinstance(inst, Obj) else None
                obs['fit_consumes_randomness'] = bool(c.out['rng_during_fit'])
                c.out['obs'] = obs
                return None
            return engine.run_paths(I, body)[0]
        compare(chk, 'Univariate_of_' + cls, uni.BASE + 'Univariate.fit', run(False), run(True),
                ('cumulative_distribution', 'percent_point', 'probability_density', 'sample', '_params',
                 'fit_consumes_randomness'), replay=wrapper_replay)


def build_wrapper_refit(chk):
    """the selecting Univariate fitted a second time on other data: the family is selected again, for the new data.
    select_univariate enters through its contract (C05): the choice is a function of the data - here an uninterpreted
    boolean picks between two families"""
    def run(history):
        I = engine.new_interp()
        gm.install_rootfinders(I)

        def select_summary(interp, args, kwargs):
            w = libmodel._whole(args[0])
            if State.ctx.branch(ir.uf('sel.prefers_gaussian', [w], 'B')):
                return uni.new_model(interp, 'GaussianUnivariate')
            return uni.new_model(interp, 'UniformUnivariate')
        I.summaries['copulas.univariate.selection.select_univariate'] = select_summary

        def body(c):
            c.assume(ir.ge(uni.N, 2))
            c.assume(ir.ge(M, 1))
            c.assume(ir.gt(ir.uf('n_unique', [uni.XW], 'I'), 1))
            m = I.call_qual(uni.BASE + 'Univariate', [], {})
            if history:
                ny = Sym(ir.var('ny', 'I'))
                c.assume(ir.ge(ny.t, 2))
                c.assume(ir.gt(ir.uf('n_unique', [ir.var('y', 'U')], 'I'), 1))
                I.call_method(m, 'fit', [Lane(ir.var('y@i'), ny)])
                I.call_method(m, 'cdf', [Lane(ir.var('q0@i'), Sym(M))])
            I.call_method(m, 'fit', [uni.data_lane()])
            inst = m.attrs['_instance']
            obs = observe_uni(I, c, m, 'x')
            obs['_params'] = inst.attrs.get('_params') if isinstance(inst, Obj) else None
            obs['selected_class'] = inst.cls.name if isinstance(inst, Obj) else repr(inst)
            c.out['obs'] = obs
            return None
        return engine.run_paths(I, body)[0]
    compare(chk, 'Univariate_wrapper_refit', uni.BASE + 'Univariate.fit', run(False), run(True),
            ('selected_class', 'cumulative_distribution', 'percent_point', 'probability_density', 'sample', '_params'),
            replay=wrapper_replay)


def wrapper_replay(env):
    import numpy as np
    import warnings
    warnings.simplefilter('ignore')
    from copulas.univariate import Univariate, GaussianKDE, GaussianUnivariate
    rs = np.random.RandomState(0)
    X = np.concatenate([rs.normal(0, 1, 150), rs.normal(9, 1, 150)])
    bad = []
    outs = []
    for seed in (1, 2):
        np.random.seed(seed)
        u = Univariate(candidates=[GaussianKDE, GaussianUnivariate])
        u.fit(X)
        outs.append(u.cumulative_distribution(np.array([0.0, 4.5, 9.0])).tolist())
    k = GaussianKDE()
    k.fit(X)
    ref = k.cumulative_distribution(np.array([0.0, 4.5, 9.0])).tolist()
    if outs[0] != outs[1]:
        bad.append('two fresh equal Univariate models fitted on the same data differ: %r vs %r' % (outs[0], outs[1]))
    if not np.allclose(outs[0], ref, atol=1e-12):
        bad.append('Univariate (KDE selected) differs from a fresh GaussianKDE fit: %r vs %r' % (outs[0], ref))
    # a second fit on data of another shape must select again
    from copulas.univariate import UniformUnivariate
    Y = rs.normal(0, 1, 400)
    Z = rs.uniform(2, 5, 400)
    r = Univariate(candidates=[GaussianUnivariate, UniformUnivariate])
    r.fit(Y)
    r.fit(Z)
    f = Univariate(candidates=[GaussianUnivariate, UniformUnivariate])
    f.fit(Z)
    if r.to_dict() != f.to_dict():
        bad.append('Univariate fitted on normal data and then on uniform data is %s, a fresh model fitted on the uniform data is %s'
                   % (r.to_dict()['type'].rsplit('.', 1)[-1], f.to_dict()['type'].rsplit('.', 1)[-1]))
    return {'confirmed': bool(bad), 'detail': '; '.join(bad) if bad else 'wrapper fit equals the fresh family fit'}


def build_bivariate(chk):
    for fam, F in biv.FAMILIES.items():
        def run(history, fam=fam):
            I = engine.new_interp()

            def body(c):
                obj = biv.make_copula(I, fam, c, theta=None, tau=None, havoc=False)
                n = Sym(biv.N)
                c.assume(ir.ge(biv.N, 2))
                if history:
                    ny = Sym(ir.var('ny', 'I'))
                    c.assume(ir.ge(ny.t, 2))
                    Yh = Arr2([Lane(ir.var('yu@i'), ny), Lane(ir.var('yv@i'), ny)], ny)
                    try:
                        I.call_method(obj, 'fit', [Yh])
                        Q = Arr2([Lane(ir.var('hu@i'), Sym(M)), Lane(ir.var('hv@i'), Sym(M))], Sym(M))
                        for meth in ('cumulative_distribution', 'probability_density', 'partial_derivative'):
                            try:
                                I.call_method(obj, meth, [Q])
                            except PyRaise:
                                pass
                    except PyRaise:
                        pass                      # the earlier fit may have been refused: the object keeps what it wrote
                X = Arr2([Lane(biv.U, n), Lane(biv.V, n)], n)
                I.call_method(obj, 'fit', [X])
                obs = {'theta': obj.attrs.get('theta'), 'tau': obj.attrs.get('tau')}
                Q = Arr2([Lane(ir.var('qu@i'), Sym(M)), Lane(ir.var('qv@i'), Sym(M))], Sym(M))
                c.assume(ir.and_(ir.gt(Q.cols[0].t, 0), ir.lt(Q.cols[0].t, 1), ir.gt(Q.cols[1].t, 0), ir.lt(Q.cols[1].t, 1)))
                for meth in ('cumulative_distribution', 'probability_density', 'partial_derivative'):
                    obs[meth] = I.call_method(obj, meth, [Q])
                c.out['obs'] = obs
                return None
            return engine.run_paths(I, body)[0]
        compare(chk, 'bivariate.' + fam, F['cls'] + '.fit', run(False), run(True),
                ('theta', 'tau', 'cumulative_distribution', 'probability_density', 'partial_derivative'),
                replay=replay_for(fam))


def build_gaussian(chk):
    labels = gm.NAMES[:2]

    def run(history):
        I = engine.new_interp()
        gm.install_rootfinders(I)

        def body(c):
            G = I.resolve(uni.CLASSES['GaussianUnivariate'][0])
            m = I.call_qual(gm.GM, [], {'distribution': G})
            c.assume(ir.ge(gm.N, 2))
            c.assume(ir.ge(M, 1))
            msym = Sym(M)
            if history:
                nh = Sym(ir.var('nh', 'I'))
                c.assume(ir.ge(nh.t, 2))
                H = pdmodel.Frame(labels, {l: Lane(ir.var('h_%s@i' % l), nh) for l in labels}, nh)
                for l in labels:
                    c.assume(ir.gt(ir.uf('n_unique', [ir.var('h_%s' % l, 'U')], 'I'), 1))
                I.call_method(m, 'fit', [H])
                qh = pdmodel.Frame(labels, {l: Lane(ir.var('hq_%s@i' % l), msym) for l in labels}, msym)
                I.call_method(m, 'probability_density', [qh])
                I.call_method(m, 'cumulative_distribution', [qh])
                State.rng = ir.var('G_hist', 'U')
                I.call_method(m, 'sample', [msym], {'conditions': {labels[0]: Sym(ir.var('hcond'))}})
                I.call_method(m, 'sample', [msym])
            for l in labels:
                c.assume(ir.gt(gm.nunique(l), 1))
            I.call_method(m, 'fit', [gm.training_frame(labels)])
            q = pdmodel.Frame(labels, {l: Lane(ir.var('q_%s@i' % l), msym) for l in labels}, msym)
            obs = {'correlation': m.attrs['correlation'], 'columns': list(m.attrs['columns'])}
            obs['pdf'] = I.call_method(m, 'probability_density', [q])
            obs['cdf'] = I.call_method(m, 'cumulative_distribution', [q])
            State.rng = G0
            obs['conditional_sample'] = I.call_method(m, 'sample', [msym], {'conditions': {labels[0]: Sym(ir.var('condv'))}})
            State.rng = G0
            obs['sample'] = I.call_method(m, 'sample', [msym])
            c.out['obs'] = obs
            return None
        return engine.run_paths(I, body)[0]
    compare(chk, 'GaussianMultivariate', gm.GM + '.fit', run(False), run(True),
            ('correlation', 'columns', 'pdf', 'cdf', 'conditional_sample', 'sample'), replay=replay_for('GaussianMultivariate'))


def build_unfitted(chk):
    """every query / sample method of an unfitted model raises NotFittedError (and nothing else happens first)"""
    I = engine.new_interp()
    gm.install_rootfinders(I)
    cases = []
    for cls in list(uni.CLASSES) + ['Univariate']:
        q = uni.CLASSES[cls][0] if cls in uni.CLASSES else uni.BASE + 'Univariate'
        for meth in ('probability_density', 'log_probability_density', 'cumulative_distribution', 'percent_point', 'sample',
                     'to_dict'):
            cases.append((cls, q, meth, 'lane'))
    for fam, F in biv.FAMILIES.items():
        for meth in ('probability_density', 'log_probability_density', 'cumulative_distribution', 'partial_derivative',
                     'generator'):
            cases.append((fam, F['cls'], meth, 'arr2' if meth != 'generator' else 'lane'))
        cases.append((fam, F['cls'], 'percent_point', 'two'))
        cases.append((fam, F['cls'], 'sample', 'n'))
    for meth in ('probability_density', 'log_probability_density', 'cumulative_distribution', 'sample', 'to_dict'):
        cases.append(('GaussianMultivariate', gm.GM, meth, 'frame'))
    # every documented argument form of the sampler: with conditions given as a dict and as a Series
    cases.append(('GaussianMultivariate', gm.GM, 'sample', 'conditions_dict'))
    cases.append(('GaussianMultivariate', gm.GM, 'sample', 'conditions_series'))
    for cls, q, meth, shape in cases:
        def body(c, q=q, meth=meth, shape=shape):
            m = I.call_qual(q, [])
            msym = Sym(M)
            c.assume(ir.ge(M, 1))
            if shape.startswith('conditions'):
                cv = Sym(ir.var('condv'))
                cond = {'a': cv} if shape == 'conditions_dict' else pdmodel.SeriesRow(['a'], [cv])
                return I.call_method(m, meth, [msym], {'conditions': cond})
            if meth == 'to_dict':
                args = []
            elif meth == 'sample' or shape == 'n':
                args = [msym]
            elif shape == 'lane':
                args = [Lane(ir.var('q@i'), msym)]
            elif shape == 'arr2':
                args = [Arr2([Lane(ir.var('qu@i'), msym), Lane(ir.var('qv@i'), msym)], msym)]
            elif shape == 'two':
                args = [Lane(ir.var('qu@i'), msym), Lane(ir.var('qv@i'), msym)]
            else:
                args = [pdmodel.Frame(['a', 'b'], {'a': Lane(ir.var('qa@i'), msym), 'b': Lane(ir.var('qb@i'), msym)}, msym)]
            return I.call_method(m, meth, args)
        res, ctx = engine.run_paths(I, body)
        for j, r in enumerate(res):
            if r.outcome == 'unsupported':
                chk.undecided.append(('C19.unfitted.%s.%s.exec' % (cls, meth), 'executor', str(r.value)))
                continue
            okk = r.outcome == 'raise' and r.value.clsname == 'NotFittedError'
            what = r.value.clsname if r.outcome == 'raise' else 'returned a value'
            chk.add(Ob('C19.unfitted.%s.%s%s.%d' % (cls, meth, '.' + shape if shape.startswith('conditions') else '', j), r.pc,
                       ir.const(bool(okk)), function=q + '.' + meth,
                       free_ufs_ok=True, replay=lifecycle_replay,
                       clause='querying or sampling an unfitted model raises NotFittedError [%s]' % what))


def build_invalid(chk):
    """check_valid_values: empty / non-numeric / NaN training data -> ValueError before anything is written"""
    labels = ['a', 'b']
    for scen in ('empty', 'non_numeric', 'nan'):
        I = engine.new_interp()
        gm.install_rootfinders(I)

        def body(c, scen=scen):
            G = I.resolve(uni.CLASSES['GaussianUnivariate'][0])
            m = I.call_qual(gm.GM, [], {'distribution': G})
            n = Sym(gm.N)
            X = gm.training_frame(labels)
            if scen == 'empty':
                c.assume(ir.eq(gm.N, 0))
            else:
                c.assume(ir.ge(gm.N, 1))
            if scen == 'non_numeric':
                X.np_dtype = 'object'
            if scen == 'nan':
                for l in labels:
                    values.NANABLE.add(gm.colvar(l))
                # some cell is NaN: the adversarial reduction may see it in another row; make the generic row NaN
                c.assume(ir.uf('isnan', [gm.colvar(labels[0])], 'B'))
            writes = []
            hook = lambda obj, name, v: writes.append(name) if obj is m else None
            ATTR_HOOKS.append(hook)
            try:
                I.call_method(m, 'fit', [X])
            finally:
                ATTR_HOOKS.remove(hook)
                c.out['writes'] = list(writes)
                c.out['fitted'] = I.getattr(m, 'fitted')
                for l in labels:
                    values.NANABLE.discard(gm.colvar(l))
            return None
        res, ctx = engine.run_paths(I, body)
        for j, r in enumerate(res):
            if r.outcome == 'unsupported':
                chk.undecided.append(('C19.invalid.%s.exec' % scen, 'executor', str(r.value)))
                continue
            st = r.state or {}
            okk = r.outcome == 'raise' and r.value.clsname == 'ValueError' and not st.get('writes') and st.get('fitted') is False
            chk.add(Ob('C19.invalid_training_data.%s.%d' % (scen, j), r.pc, ir.const(bool(okk)), function=gm.GM + '.fit',
                       free_ufs_ok=True, replay=lifecycle_replay,
                       clause='%s training data are rejected with ValueError and the model stays unfitted (no attribute '
                              'written) [%s, writes %r]' % (scen, r.value.clsname if r.outcome == 'raise' else r.outcome,
                                                           st.get('writes'))))
