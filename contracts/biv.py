"""Shared contract machinery for the bivariate copula families (C06-C11)."""
import ast
from fractions import Fraction

import sympy as sp

from pyvc import ir, engine, values, cas, smt, paths as P
from pyvc.values import Sym, Lane, Arr2, State
from pyvc.interp import Obj, PyRaise

TH = ir.var('theta')
TAU = ir.var('tau')
U = ir.var('u@i')
V = ir.var('v@i')
N = ir.var('n', 'I')
EPS32 = Fraction(1, 2 ** 23)

FAMILIES = {
    'clayton': dict(cls='copulas.bivariate.clayton.Clayton', module='copulas.bivariate.clayton',
                    theta=lambda th: ir.and_(ir.gt(th, 0), ir.le(th, 8)), box=(Fraction(1, 100), 8),
                    native='Clayton'),
    'frank': dict(cls='copulas.bivariate.frank.Frank', module='copulas.bivariate.frank',
                  theta=lambda th: ir.and_(ir.ne(th, 0), ir.ge(th, ir.const(Fraction(-182, 10))),
                                           ir.le(th, ir.const(Fraction(182, 10)))),
                  box=(Fraction(-182, 10), Fraction(182, 10)), native='Frank'),
    'gumbel': dict(cls='copulas.bivariate.gumbel.Gumbel', module='copulas.bivariate.gumbel',
                   theta=lambda th: ir.and_(ir.ge(th, 1), ir.le(th, 5)), box=(1, 5), native='Gumbel'),
}
STATE_FIELDS = ('theta', 'tau', 'random_state')


def written_attrs(I, cls):
    """names X with an assignment `self.X = ...` / setattr in any method of the class hierarchy"""
    out = set()
    for c in cls.mro:
        for v in c.ns.values():
            f = getattr(v, 'func', v)
            node = getattr(f, 'node', None)
            if node is None:
                continue
            for n in ast.walk(node):
                if isinstance(n, ast.Attribute) and isinstance(n.ctx, ast.Store) and isinstance(n.value, ast.Name) \
                        and n.value.id == 'self':
                    out.add(n.attr)
    return out


def make_copula(I, fam, ctx, theta=TH, tau=TAU, havoc=True):
    """a model object in an ARBITRARY state with the given theta/tau: every other attribute some method may
    write is absent or holds an arbitrary real (so a query result may depend on (theta, tau) only)."""
    cls = I.resolve(FAMILIES[fam]['cls'])
    obj = I.call(cls, [], {})
    obj.attrs['theta'] = Sym(theta) if theta is not None else None
    obj.attrs['tau'] = Sym(tau) if tau is not None else None
    if havoc:
        for name in sorted(written_attrs(I, cls) - set(STATE_FIELDS)):
            k = ctx.choose(['%s absent' % name, '%s arbitrary' % name])
            if k == 1:
                obj.attrs[name] = Sym(ctx.fresh('attr_' + name))
    return obj


def unit_lanes(closed_at_zero=False, open_at_one=False):
    n = Sym(N)
    u, v = Lane(U, n), Lane(V, n)
    lo = ir.le if closed_at_zero else ir.lt
    hi = ir.lt if open_at_one else ir.le
    dom = ir.and_(lo(0, U), hi(U, 1), lo(0, V), hi(V, 1), ir.ge(N, 1))
    return u, v, dom


THI = ir.var('theta_int', 'I')          # a theta stored as a Python / numpy integer (e.g. read back from JSON)


def run_method(fam, method, closed_at_zero=False, open_at_one=False, safety=True, extra_req=(), I=None,
               args='X', havoc=True, theta_req=True, theta_term=None):
    """symbolically execute  <family>.<method>(X)  over all paths.
    returns (I, results, ctx): each result has .pc, .value (Lane/Sym/exception), .obligations (safety)."""
    I = I or engine.new_interp()

    def body(c):
        obj = make_copula(I, fam, c, havoc=havoc) if theta_term is None else make_copula(I, fam, c, theta=theta_term, havoc=havoc)
        u, v, dom = unit_lanes(closed_at_zero, open_at_one)
        if theta_req:
            c.assume(FAMILIES[fam]['theta'](TH if theta_term is None else theta_term))
        c.assume(dom)
        for r in extra_req:
            c.assume(r)
        if args == 'X':
            a = [Arr2([u, v], Sym(N), owner='X')]
        elif args == 'yV':
            a = [u, v]          # percent_point(y, V): y := u-lane, V := v-lane
            u.owner, v.owner = 'y', 'V'
        elif args == 't':
            a = [u]
        else:
            raise ValueError(args)
        return I.call_method(obj, method, a)
    res, ctx = engine.run_paths(I, body, safety=safety)
    return I, res, ctx


def lane_term(v):
    if isinstance(v, Lane):
        return v.t
    if isinstance(v, Sym):
        return v.t
    if isinstance(v, (int, float)):
        return ir.const(v)
    raise TypeError('not a lane/scalar result: %r' % (v,))


def eqs_of(pc):
    """equalities var == const in a path condition (used to specialise CAS identities to a branch)"""
    sub = {}
    for c in pc:
        if c.op == 'eq':
            a, b = c.args
            if a.op == 'const' and b.op == 'var':
                a, b = b, a
            if a.op == 'var' and b.op == 'const':
                sub[a] = b
    return sub


def sym_env(fam, gumbel_sub=False):
    """sympy symbols for theta,u,v with the family's sign assumptions; optional substitution u=e^-p, v=e^-q"""
    if fam == 'frank':
        th = sp.Symbol('theta', real=True, nonzero=True)
    else:
        th = sp.Symbol('theta', positive=True)
    u, v = sp.symbols('u v', positive=True)
    syms = {'theta': th, 'u@i': u, 'v@i': v}
    return syms, th, u, v


def to_sp(t, syms):
    e = ir.to_sympy(t, syms)
    return sp.piecewise_fold(e) if e.has(sp.Piecewise) else e


def gumbel_subs(u, v):
    p, q = sp.symbols('p q', positive=True)
    return {u: sp.exp(-p), v: sp.exp(-q)}


def on_path(pc):
    """(accept, seeds) for cas.identity: a sampled point counts only if it satisfies the path condition
    (decided by z3 with the point's coordinates fixed); a solver model of the path condition seeds the search"""
    names = {'theta': TH, 'u': U, 'v': V}

    def accept(pt):
        eqs = []
        for k, val in pt.items():
            t = names.get(k) or ir.var(k)
            eqs.append(ir.eq(t, ir.const(Fraction(str(float(val))))))
        sat, _ = smt.satisfiable(list(pc) + eqs, timeout_ms=3000)
        return sat is True
    seeds = []
    sat, env = smt.satisfiable(list(pc), timeout_ms=3000)
    if sat and env:
        seeds.append({'theta': env.get('theta'), 'u': env.get('u@i'), 'v': env.get('v@i')})
        seeds[0].update({k: v for k, v in env.items() if k.startswith('attr_')})
    return accept, seeds


def cas_identity(fam, lhs_t, rhs_fn, sub_eqs, name, pc=()):
    """returns a closure for Ob(cas=...): proves  lhs == rhs_fn(syms)  for the family (after branch equalities)"""
    def run():
        accept, seeds = on_path(pc)
        syms, th, u, v = sym_env(fam)
        m = {k: val for k, val in sub_eqs.items()}
        lt = ir.substitute(lhs_t, m) if m else lhs_t
        lhs = to_sp(lt, syms)
        rhs = rhs_fn(syms, m)
        box = FAMILIES[fam]['box']
        dom = {u: (0.05, 0.95), v: (0.05, 0.95)}
        if not any(k is TH for k in m):
            dom[th] = (float(box[0]), float(box[1]))
        subs = gumbel_subs(u, v) if fam == 'gumbel' else None
        return with_eqs(cas.identity(lhs, rhs, dom, subs=subs, accept=accept, seeds=seeds), m)
    return run


def with_eqs(res, eqs):
    """complete a CAS witness with the branch equalities that were substituted (e.g. theta == 1)"""
    if res.model is not None:
        for k, val in eqs.items():
            if k.op == 'var' and val.op == 'const':
                res.model[k.args[0]] = float(val.args[0]) if not isinstance(val.args[0], (str, bool)) else val.args[0]
    return res


def native_copula(fam, theta, tau=None, attrs=None):
    import importlib
    mod = importlib.import_module('copulas.bivariate')
    c = getattr(mod, FAMILIES[fam]['native'])()
    c.theta = theta
    c.tau = tau
    for k, v in (attrs or {}).items():
        setattr(c, k, v)
    return c


def model_floats(env):
    out = {}
    for k, v in (env or {}).items():
        try:
            out[k] = float(v)
        except Exception:
            out[k] = v
    return out


# ------------------------------------------------------------------------------------------------------------------
# CPython cross-check of the encoding: the terms the executor derived from the real source are evaluated at concrete
# points and compared with what the real method returns there (a soundness guard on the executor itself: a mismatch
# is an ENGINE error, never a property violation)
# ------------------------------------------------------------------------------------------------------------------

def crosscheck(chk, fam, method, res, args='X', n_points=24, tag=None):
    import random
    import warnings
    import mpmath
    import numpy as np
    warnings.simplefilter('ignore')
    import copulas.bivariate as cb
    rnd = random.Random(1000 + (chk.seed or 0))
    lo, hi = FAMILIES[fam]['box']
    rets = [r for r in res if r.outcome == 'return']
    if not rets:
        return
    checked, skipped = 0, 0
    worst = 0.0
    for k in range(n_points):
        th = float(lo) + (float(hi) - float(lo)) * rnd.random()
        if fam == 'frank' and abs(th) < 0.05:
            th = 0.5
        if fam == 'gumbel' and k % 6 == 0:
            th = 1.0
        u, v = 0.02 + 0.96 * rnd.random(), 0.02 + 0.96 * rnd.random()
        env = {'theta': Fraction(th), 'u@i': Fraction(u), 'v@i': Fraction(v), 'n': 1}
        pin = [ir.eq(TH, ir.const(Fraction(th))), ir.eq(U, ir.const(Fraction(u))), ir.eq(V, ir.const(Fraction(v))), ir.eq(N, 1)]
        cands = []
        for r in rets:
            sat, _m = smt.satisfiable(list(r.pc) + pin, timeout_ms=3000)
            if sat is not False:
                try:
                    old = mpmath.mp.dps
                    mpmath.mp.dps = 40
                    try:
                        cands.append(float(ir.evaluate(lane_term(r.value), env)))
                    finally:
                        mpmath.mp.dps = old
                except Exception:
                    pass
        try:
            m = getattr(cb, FAMILIES[fam]['native'])()
            m.theta = th
            m.tau = 0.3
            if args == 'X':
                got = getattr(m, method)(np.array([[u, v]]))
            elif args == 'yV':
                got = getattr(m, method)(np.array([u]), np.array([v]))
            else:
                got = getattr(m, method)(np.array([u]))
            got = float(np.ravel(got)[0])
        except Exception:
            skipped += 1
            continue
        if not cands or got != got:
            skipped += 1
            continue
        err = min(abs(c - got) / max(1.0, abs(got)) for c in cands)
        worst = max(worst, err)
        checked += 1
        if err > 1e-7:
            chk.engine_error('cross-check %s.%s at theta=%r u=%r v=%r: the executor\'s term gives %r, CPython gives %r'
                             % (fam, method, th, u, v, cands, got))
            break
    chk.crosschecks = getattr(chk, 'crosschecks', [])
    chk.crosschecks.append({'function': '%s.%s' % (FAMILIES[fam]['cls'], method), 'points': checked, 'skipped': skipped,
                            'max_relative_error': worst})
    if checked == 0:
        chk.engine_error('cross-check %s.%s: no point could be compared' % (fam, method))


def int_theta_replay(fam, meth):
    def replay(env):
        import warnings
        import numpy as np
        warnings.simplefilter('ignore')
        import copulas.bivariate as cb
        cls = getattr(cb, FAMILIES[fam]['native'])
        bad = []
        X = np.array([[0.3, 0.6], [0.9999, 0.9999], [0.05, 0.5]])
        for th in (1, 2, 3, 5):
            if fam == 'gumbel' and th < 1:
                continue
            try:
                a, b = cls(), cls()
                a.theta, b.theta = th, float(th)
                a.tau = b.tau = 0.3
                ra, rb = getattr(a, meth)(X), getattr(b, meth)(X)
                if not np.allclose(ra, rb, rtol=1e-12, equal_nan=True):
                    bad.append('%s.%s with theta=%d (int) gives %r, with theta=%.1f gives %r' %
                               (fam, meth, th, np.round(ra, 6).tolist(), th, np.round(rb, 6).tolist()))
                    break
            except Exception as e:      # noqa
                bad.append('%s: %s' % (type(e).__name__, str(e)[:80]))
        return {'confirmed': bool(bad), 'detail': bad[0] if bad else 'integer and float theta agree natively'}
    return replay


def int_theta_obs(chk, prefix, fam, meth, tagi, resR, **run_kw):
    """a theta stored as an INTEGER (assigned by the user, or read back from a JSON file) gives the same function: the paths of
    `meth` run with an integer-sorted theta are compared, pairwise where both path conditions can hold, with the paths `resR`
    of the run with a real theta"""
    from pyvc.report import Ob
    F = FAMILIES[fam]
    _, resI, _ = run_method(fam, meth, theta_term=THI, safety=False, **run_kw)
    sub = {TH: THI}
    n_int = 0
    for a, ri in enumerate(resI):
        if ri.outcome == 'unsupported':
            chk.undecided.append(('%s.%s.%s.int_theta.exec' % (prefix, fam, tagi), 'executor', str(ri.value)))
            continue
        for b_, rr in enumerate(resR):
            if rr.outcome != ri.outcome or rr.outcome != 'return':
                continue
            pcr = [ir.substitute(p_, sub) for p_ in rr.pc]
            hy = list(ri.pc) + [p_ for p_ in pcr if p_ not in ri.pc]
            sat, _m = smt.satisfiable(hy, timeout_ms=3000)
            if sat is False:
                continue
            n_int += 1
            chk.add(Ob('%s.%s.%s.int_theta_same_as_float.%d_%d' % (prefix, fam, tagi, a, b_), hy,
                       ir.eq(lane_term(ri.value), ir.substitute(lane_term(rr.value), sub)),
                       function=F['cls'] + '.' + meth, free_ufs_ok=True, replay=int_theta_replay(fam, meth),
                       clause='%s with an integer-typed theta (int, numpy integer, a theta read from JSON) is the same '
                              'function as with the equal float theta' % meth))
    if n_int == 0 and not chk.undecided:
        chk.engine_error('%s.%s.%s.int_theta: nothing compared' % (prefix, fam, tagi))
