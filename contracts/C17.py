"""C17 - vine pair-copula data flow, likelihood and sampling are coherent.

The real VineCopula.fit / Tree.prepare_next_tree / Edge.get_child_edge / get_likelihood / _sample_row / sample are
executed symbolically for a concrete number of columns (every ordering of the taus, see C16); select_copula, the pair
copula's h / density / inverse h and the KDE marginals enter through their contracts as uninterpreted functions, so that
"which column went into which copula" is visible in the terms and compared with an independently written specification.
"""
import itertools
from fractions import Fraction

from pyvc import ir, engine, smt, libmodel, pdmodel
from pyvc.report import Ob
from pyvc.values import Sym, Lane, Arr2, State
from pyvc.interp import LoopInv, PyList
from . import gm, uni, vine

_REPLAY_CACHE = {}
LEVEL = 'proof'
TRUSTED = ['select_copula (C11), pair-copula h / density / inverse h (C06-C08) and GaussianKDE cdf / ppf (C03) enter as '
           'contracts: deterministic functions of their arguments, h and inverse h in [0,1], density >= 0',
           'the law of the sampled rows (marginals and Kendall tau of a 2-column vine) follows from the verified row formula '
           'by the inverse-transform lemma (cited, not checked): w ~ U(0,1) => F^-1(w) ~ F; (w, h^-1(w\'|w)) ~ C',
           'numpy legacy generator: ghost-state model (deterministic in the state before the call)']
EPS = Fraction(1, 2 ** 23)
TREE = vine.TREE
G0 = ir.var('G0', 'U')
FUNCS = [TREE + 'Tree.prepare_next_tree', TREE + 'Edge.get_conditional_uni', TREE + 'Edge.get_child_edge',
         TREE + 'Tree.get_likelihood', TREE + 'Edge.get_likelihood', vine.VINE + '.get_likelihood', vine.VINE + '._sample_row',
         vine.VINE + '.sample', TREE + 'Tree.get_adjacent_matrix', TREE + 'CenterTree._build_first_tree',
         TREE + 'DirectTree._build_first_tree', TREE + 'RegularTree._build_first_tree']


def corrected(t):
    """the 0/1 correction of prepare_next_tree"""
    return ir.ite(ir.eq(t, 1), ir.const(1 - EPS), ir.ite(ir.eq(t, 0), ir.const(EPS), t))


def row_terms(U):
    """edge.U -> [term of row 0, term of row 1] (generic element)"""
    rows = getattr(U, 'rows', None)
    if rows is None or len(rows) != 2:
        return None
    return [rows[0].t, rows[1].t]


def fit_dataflow(chk, tag, r, d, vt, replay):
    """obligations on one path of fit: copula = select_copula(inputs), U = corrected h of the inputs, inside (0,1),
    inputs of deeper edges are rows of their two parents' U"""
    m = r.state['m']
    trees = vine.read_vine(m)
    um = m.attrs['u_matrix']
    ok_sel, ok_feed, inside, u_goals = True, True, [], []
    why = []
    for k, T in enumerate(trees):
        for e in T:
            if k == 0:
                cands = [(um.cols[e.L].t, um.cols[e.R].t)]
            else:
                if e.parents is None or None in e.parents:
                    ok_feed = False
                    why.append('tree %d edge %d has no parents in tree %d' % (k + 1, e.pos, k))
                    continue
                p, q = trees[k - 1][e.parents[0]], trees[k - 1][e.parents[1]]
                # the parent whose conditioned pair holds the edge's L supplies the conditional CDF of L given the rest
                # (row 0 of its U if L is its own left variable, row 1 otherwise); likewise for R and the other parent
                if e.L not in (p.L, p.R):
                    p, q = q, p
                rp, rq = row_terms(p.U), row_terms(q.U)
                if rp is None or rq is None or e.L not in (p.L, p.R) or e.R not in (q.L, q.R):
                    ok_feed = False
                    why.append('tree %d edge (%s,%s|%s): its conditioned variables are not those of its parents' %
                               (k + 1, e.L, e.R, sorted(e.D)))
                    continue
                cands = [(rp[0] if p.L == e.L else rp[1], rq[0] if q.L == e.R else rq[1])]
            nt = e.name.t if isinstance(e.name, Sym) else None
            tt = e.theta.t if isinstance(e.theta, Sym) else None
            ut = row_terms(e.U)
            if nt is None or tt is None or ut is None:
                ok_sel = False
                why.append('tree %d edge %d: no family / theta / U' % (k + 1, e.pos))
                continue
            hit = None
            for a, b in cands:
                wa, wb = ir.uf('arr', [a], 'U'), ir.uf('arr', [b], 'U')
                for x, y in ((wa, wb), (wb, wa)):
                    if nt is ir.uf('sel.family', [x, y], 'U') and tt is ir.uf('sel.theta', [x, y]):
                        hit = (a, b)
            if hit is None:
                (ok_sel if k == 0 else ok_feed)
                if k == 0:
                    ok_sel = False
                else:
                    # distinguish: a select_copula result at all?  (then the inputs are not rows of the parents' U)
                    if nt.op == 'uf' and nt.args[0] == 'sel.family':
                        ok_feed = False
                    else:
                        ok_sel = False
                why.append('tree %d edge (%s,%s|%s): family/theta are not select_copula of its two input columns' %
                           (k + 1, e.L, e.R, sorted(e.D)))
                continue
            a, b = hit
            want = [corrected(ir.uf('h', [nt, tt, a, b])), corrected(ir.uf('h', [nt, tt, b, a]))]
            u_goals += [ir.eq(ut[0], want[0]), ir.eq(ut[1], want[1])]
            inside += [ir.and_(ir.gt(ut[0], 0), ir.lt(ut[0], 1)), ir.and_(ir.gt(ut[1], 0), ir.lt(ut[1], 1))]
    fq = TREE + 'Tree.prepare_next_tree'
    chk.add(Ob('C17.%s.copula_is_select_of_inputs' % tag, r.pc, ir.const(ok_sel), backends=('syntactic',), function=fq,
               replay=replay, clause='every edge\'s (family, theta) is select_copula of the edge\'s two input columns%s' %
                                      (' [%s]' % why[0] if not ok_sel and why else '')))
    chk.add(Ob('C17.%s.U_is_h_of_inputs' % tag, r.pc, ir.and_(*u_goals) if u_goals else ir.TRUE, function=fq, replay=replay,
               free_ufs_ok=True,
               clause='edge.U = [h(in1|in2), h(in2|in1)] of that copula, with exact 0 -> EPSILON and exact 1 -> 1 - EPSILON'))
    chk.add(Ob('C17.%s.next_tree_fed_by_parents_U' % tag, r.pc, ir.const(ok_feed), backends=('syntactic',),
               function=TREE + 'Edge.get_child_edge', replay=replay,
               clause='the two inputs of an edge (L,R|D) of tree k >= 2 are the conditional CDF of L from the parent holding L and the '
                      'conditional CDF of R from the parent holding R (rows of the parents\' U)%s' %
                      (' [%s]' % why[0] if not ok_feed and why else '')))
    chk.add(Ob('C17.%s.U_strictly_inside_unit_interval' % tag, r.pc, ir.and_(*inside) if inside else ir.TRUE, function=fq,
               free_ufs_ok=True, replay=replay, clause='every pseudo-observation is strictly inside (0,1)'))
    return trees


def spec_likelihood(trees, u):
    """sum over edges of log c_e(args), args h-propagated: written from the vine density formula, not from the code.
    u: list of d terms. returns (term, ok)"""
    H = {}
    total = []
    for k, T in enumerate(trees):
        for e in T:
            nt, tt = e.name.t, e.theta.t
            if k == 0:
                a, b = u[e.L], u[e.R]
            else:
                p, q = trees[k - 1][e.parents[0]], trees[k - 1][e.parents[1]]
                if e.L not in (p.L, p.R):
                    p, q = q, p
                if e.L not in (p.L, p.R) or e.R not in (q.L, q.R):
                    return None
                # conditional of L given the rest of p, of R given the rest of q
                a = H.get((k - 1, p.pos, e.L))
                b = H.get((k - 1, q.pos, e.R))
                if a is None or b is None:
                    return None
            total.append(ir.log(ir.uf('c', [nt, tt, a, b])))
            H[(k, e.pos, e.L)] = ir.uf('h', [nt, tt, a, b])
            H[(k, e.pos, e.R)] = ir.uf('h', [nt, tt, b, a])
    return ir.add(*total) if len(total) > 1 else total[0]


def native_replay(kind, vt, d):
    """the native driver depends only on its arguments: run it once per group of obligations"""
    inner = _native_replay_uncached(kind, vt, d)

    def replay(env, _key=('native_replay', kind, vt, d)):
        if _key not in _REPLAY_CACHE:
            _REPLAY_CACHE[_key] = inner(env)
        return _REPLAY_CACHE[_key]
    return replay


def _native_replay_uncached(kind, vt, d, seeds=range(8)):
    def replay(env):
        import warnings
        import numpy as np
        import pandas as pd
        warnings.simplefilter('ignore')
        from copulas.multivariate import VineCopula
        from copulas.bivariate import Bivariate
        bad = []
        for seed in seeds:
            rs = np.random.RandomState(seed)
            A = rs.normal(size=(d, d))
            X = pd.DataFrame(rs.multivariate_normal(np.zeros(d), A @ A.T + 0.3 * np.eye(d), 80), columns=vine.LABELS[:d])
            try:
                outs = []
                u = rs.uniform(0.2, 0.8, size=(1, d))
                for fill in (np.nan, 7.0):
                    with vine.poisoned_empty(fill):
                        v = VineCopula(vt)
                        v.fit(X, truncated=d)
                        outs.append(float(v.get_likelihood(u)))
                # independent evaluation of the vine density from the fitted structure
                S = vine.native_structure(v)
                H, tot = {}, 0.0
                for k, t in enumerate(v.trees):
                    for j, e in enumerate(t.edges):
                        c = Bivariate(copula_type=e.name)
                        c.theta = e.theta
                        if k == 0:
                            a, b = u[0, e.L], u[0, e.R]
                        else:
                            pi, qi = S[k][j]['parents']
                            p, q = v.trees[k - 1].edges[pi], v.trees[k - 1].edges[qi]
                            if e.L not in (p.L, p.R):
                                p, q, pi, qi = q, p, qi, pi
                            a, b = H[(k - 1, pi, e.L)], H[(k - 1, qi, e.R)]
                        tot += float(np.log(np.sum(c.probability_density(np.array([[a, b]])))))
                        H[(k, j, e.L)] = float(np.ravel(c.partial_derivative(np.array([[a, b]])))[0])
                        H[(k, j, e.R)] = float(np.ravel(c.partial_derivative(np.array([[b, a]])))[0])
                if not (outs[0] == outs[1] or (outs[0] != outs[0] and outs[1] != outs[1])):
                    bad.append('seed %d: get_likelihood = %r with np.empty NaN-filled, %r with np.empty 7-filled' %
                               (seed, outs[0], outs[1]))
                elif not np.isclose(outs[1], tot, rtol=1e-9, equal_nan=False):
                    bad.append('seed %d: get_likelihood = %r, the sum of log pair densities at the h-propagated arguments = %r' %
                               (seed, outs[1], tot))
                from copulas.utils import EPSILON
                for k, t in enumerate(v.trees):
                    for j, e in enumerate(t.edges):
                        if k == 0:
                            continue
                        pi, qi = S[k][j]['parents']
                        p, q = v.trees[k - 1].edges[pi], v.trees[k - 1].edges[qi]
                        if e.L not in (p.L, p.R):
                            p, q = q, p
                        a = np.asarray(p.U[0] if p.L == e.L else p.U[1], dtype=float)
                        b = np.asarray(q.U[0] if q.L == e.R else q.U[1], dtype=float)
                        c = Bivariate(copula_type=e.name)
                        c.theta = e.theta
                        want = np.array([c.partial_derivative(np.column_stack([a, b])), c.partial_derivative(np.column_stack([b, a]))])
                        want[want == 0] = EPSILON
                        want[want == 1] = 1 - EPSILON
                        if not np.allclose(np.asarray(e.U, dtype=float), want, rtol=1e-9, atol=1e-12):
                            bad.append('seed %d: the pseudo-observations of the tree-%d edge (%d,%d|%s) are not the h-functions of the '
                                       'conditional CDFs of %d and %d taken from its parents (max difference %.3g)' %
                                       (seed, k + 1, e.L, e.R, sorted(e.D), e.L, e.R,
                                        float(np.max(np.abs(np.asarray(e.U, dtype=float) - want)))))
                            break
                for t in v.trees:
                    for e in t.edges:
                        U = np.asarray(e.U, dtype=float)
                        if not ((U > 0).all() and (U < 1).all()):
                            bad.append('seed %d: edge (%d,%d) has pseudo-observations outside (0,1)' % (seed, e.L, e.R))
                if kind == 'sample':
                    s = v.sample(7)
                    if list(s.columns) != list(X.columns) or s.shape != (7, d) or s.isna().any().any():
                        bad.append('seed %d: sample(7) has shape %r, columns %r, missing %d' %
                                   (seed, s.shape, list(s.columns), int(s.isna().sum().sum())))
            except Exception as e:          # noqa
                bad.append('seed %d: %s: %s' % (seed, type(e).__name__, str(e)[:100]))
            if bad:
                break
        return {'confirmed': bool(bad), 'detail': bad[0] if bad else 'native %s-vines on 8 random %d-column tables: likelihood '
                'deterministic and equal to the vine density formula, U inside (0,1)' % (vt, d),
                'input': {'vine_type': vt, 'd': d}}
    return replay


def build(chk):
    I0 = engine.new_interp()
    chk.under_contract(I0.source, FUNCS)
    dims = (2, 3, 4) if chk.tier == 'quick' else (2, 3, 4, 5)
    npaths = 0
    for vt in ('center', 'direct', 'regular'):
        for d in dims:
            I = engine.new_interp()
            gm.install_rootfinders(I)
            vine.install_contracts(I)
            uq = [ir.var('uq_%d' % i) for i in range(d)]

            def body(c, I=I, d=d, vt=vt, uq=uq):
                m = vine.fit_vine(I, c, d, vt, truncated=d)
                c.out['m'] = m
                c.assume(ir.and_(*[ir.and_(ir.gt(x, 0), ir.lt(x, 1)) for x in uq]))
                U = Arr2([Lane(x, 1) for x in uq], 1, owner='U')
                n_ev = len(c.events)
                rng0 = State.rng
                c.out['lik'] = I.call_method(m, 'get_likelihood', [U])
                c.out['lik_events'] = [e for e in c.events[n_ev:] if e.kind in ('rng', 'rng_set', 'mutate')]
                c.out['rng_same'] = State.rng is rng0
                return None
            with vine.mode():
                res, ctx = engine.run_paths(I, body, max_paths=200000)
            k = 0
            for r in res:
                tag = '%s.d%d.%d' % (vt, d, k + 1)
                if r.outcome == 'unsupported':
                    chk.undecided.append(('C17.%s.d%d.exec' % (vt, d), 'executor', str(r.value)))
                    continue
                if r.outcome != 'return':
                    chk.add(Ob('C17.%s.no_exception.%s' % (tag, getattr(r.value, 'clsname', '?')), r.pc, ir.FALSE,
                               function=vine.VINE + '.get_likelihood', free_ufs_ok=True, replay=native_replay('lik', vt, d),
                               clause='fit and get_likelihood succeed [%s]' % str(getattr(r.value, 'args', ''))[:80]))
                    continue
                k += 1
                trees = fit_dataflow(chk, tag, r, d, vt, native_replay('lik', vt, d))
                spec = None
                try:
                    spec = spec_likelihood(trees, uq)
                except Exception:
                    spec = None
                lik = r.state['lik']
                got = lik.t if isinstance(lik, Sym) else None
                undef = sorted(v.args[0] for v in ir.free_vars(got) if v.args[0].startswith('undef!')) if got is not None else []
                chk.add(Ob('C17.%s.likelihood_is_vine_density' % tag, r.pc,
                           ir.eq(got, spec) if got is not None and spec is not None else ir.FALSE,
                           function=vine.VINE + '.get_likelihood', free_ufs_ok=True, replay=native_replay('lik', vt, d),
                           clause='get_likelihood(u) = sum over all edges of log c_e at the h-propagated arguments%s' %
                                  (' [reads uninitialised cells %s]' % undef[:3] if undef else '')))
                chk.add(Ob('C17.%s.likelihood_deterministic' % tag, r.pc,
                           ir.const(not undef and not r.state['lik_events'] and r.state['rng_same']), backends=('syntactic',),
                           function=vine.VINE + '.get_likelihood', replay=native_replay('lik', vt, d),
                           clause='get_likelihood is a function of (model, u): no generator use, no uninitialised cell, u not '
                                  'modified%s' % (' [depends on %s]' % undef[:3] if undef else '')))
                if k == 1 and d == 3:
                    wrong = ir.add(spec, 1) if spec is not None else ir.TRUE
                    chk.add(Ob('C17.%s.canary.likelihood_plus_one' % tag, r.pc, ir.eq(got, wrong) if got is not None else ir.TRUE,
                               free_ufs_ok=True, canary=True))
            npaths += k
            if k == 0 and not chk.undecided:
                chk.engine_error('C17.%s.d%d: no returning path' % (vt, d))
    build_sampling(chk)
    # ---- larger vines: BOUNDED native stand-in (never counted as proved) -------------------------------------------------
    from pyvc import report as report_mod
    bdims = (5,) if chk.tier == 'quick' else (5, 6)
    bseeds = range(2) if chk.tier == 'quick' else range(5)
    evals = 0
    for d in bdims:
        for vt in ('center', 'direct', 'regular'):
            try:
                with report_mod.time_limit(600):
                    res_ = _native_replay_uncached('sample', vt, d, seeds=bseeds)({})
            except report_mod.NativeTimeout:
                res_ = {'confirmed': True, 'detail': 'native %s vine, d=%d: no result within 600 s' % (vt, d)}
            evals += len(bseeds)
            if res_.get('confirmed'):
                chk.bounded_violation('C17.vine.dataflow.bounded', {'vine_type': vt, 'd': d, 'seeds': list(bseeds)}, res_['detail'])
    chk.bounded.append({'name': 'C17.vine.dataflow.bounded',
                        'clause': 'likelihood = vine density, independent of np.empty contents, U inside (0,1), sample schema, d = %s'
                                  % (bdims,),
                        'bound': 'real VineCopula on %d random tables per (d, type), 80 rows, full depth' % len(bseeds),
                        'evaluations': evals, 'distinct_nontrivial': evals, 'rule': 'one case = (d, type, table)'})
    from . import C16
    C16.build_helpers(chk, prefix='C17', parts=('edge_likelihood',))
    chk.assumptions += ['d = %s, full depth (truncated = d), %d paths (every ordering of the taus); n >= 2 rows, non-constant '
                        'columns; u in (0,1)^d; reals not floats' % (dims, npaths)]


T = ir.var('t', 'I')
MROWS = ir.var('m', 'I')
ONE_M_EPS = 1 - EPS


def sample_replay(vt, d):
    """the native driver depends only on its arguments: run it once per group of obligations"""
    inner = _sample_replay_uncached(vt, d)

    def replay(env, _key=('sample_replay', vt, d)):
        if _key not in _REPLAY_CACHE:
            _REPLAY_CACHE[_key] = inner(env)
        return _REPLAY_CACHE[_key]
    return replay


def _sample_replay_uncached(vt, d):
    def replay(env):
        import warnings
        import numpy as np
        import pandas as pd
        warnings.simplefilter('ignore')
        from copulas.multivariate import VineCopula
        bad = []
        rs = np.random.RandomState(3)
        A = rs.normal(size=(d, d))
        X = pd.DataFrame(rs.multivariate_normal(np.zeros(d), A @ A.T + 0.3 * np.eye(d), 120), columns=vine.LABELS[:d])
        try:
            v = VineCopula(vt, random_state=5)
            v.fit(X)
            s_ = v.sample(400)
            if list(s_.columns) != list(X.columns) or s_.shape != (400, d) or s_.isna().any().any():
                bad.append('sample(400): shape %r, columns %r, %d missing values' % (s_.shape, list(s_.columns),
                                                                                    int(s_.isna().sum().sum())))
            if d == 2:
                big = v.sample(4000)
                for j, col in enumerate(X.columns):
                    q = float(np.ravel(v.unis[j].percent_point(np.array([0.99])))[0])
                    vals = big[col].to_numpy()
                    frac = float((vals > q + 1e-9).mean())
                    atom = float((np.abs(vals - q) < 1e-9).mean())
                    if atom > 0.001 or frac < 0.002:
                        bad.append('2-column vine, 4000 rows: %.2f%% of the values of column %r sit exactly on its fitted 99%% '
                                   'quantile %.4f (a continuous marginal has no atom) and %.2f%% exceed it (1%% expected)' %
                                   (100 * atom, col, q, 100 * frac))
                        break
        except Exception as e:      # noqa
            bad.append('%s: %s' % (type(e).__name__, str(e)[:120]))
        return {'confirmed': bool(bad), 'detail': bad[0] if bad else 'native %s vine, d=%d: sample has the training columns, no '
                'missing values%s' % (vt, d, ', upper tail of both marginals present' if d == 2 else ''),
                'input': {'vine_type': vt, 'd': d, 'seed': 3}}
    return replay


def build_sampling(chk):
    """_sample_row as a function under contract (arbitrary generator state in, one full row out), then sample(n) with that
    contract and an invariant on the loop"""
    dims = (2, 3) if chk.tier == 'quick' else (2, 3, 4)
    VINE = vine.VINE
    for vt in ('center', 'direct', 'regular'):
        for d, hist in [(d_, False) for d_ in dims] + [(2, True)]:
            I = engine.new_interp()
            gm.install_rootfinders(I)
            vine.install_contracts(I)
            labels = vine.LABELS[:d]

            def body(c, I=I, d=d, vt=vt, hist=hist):
                c.assume(ir.ge(T, 1))
                m0 = None
                if hist:
                    # history: the same object was fitted before on another table
                    n0 = Sym(ir.var('n0', 'I'))
                    c.assume(ir.ge(n0.t, 2))
                    labels0 = ['p', 'q', 'r']
                    X0 = pdmodel.Frame(labels0, {l: Lane(ir.var('w_%s@i' % l), n0) for l in labels0}, n0)
                    for l in labels0:
                        c.assume(ir.gt(ir.uf('n_unique', [ir.var('w_%s' % l, 'U')], 'I'), 1))
                    m0 = I.call_qual(VINE, [vt], {})
                    I.call_method(m0, 'fit', [X0, 1])
                    State.rng = ir.var('Ghist', 'U')                     # the earlier model was also sampled from
                    I.call_method(m0, '_sample_row', [])
                m = vine.fit_vine(I, c, d, vt, truncated=Sym(T), model=m0)
                State.rng = G0
                n_ev = len(c.events)
                c.out['row'] = I.call_method(m, '_sample_row', [])
                c.out['ev'] = [e for e in c.events[n_ev:] if e.kind in ('rng', 'rng_set', 'rng_foreign', 'rng_object', 'mutate')]
                c.out['m'] = m
                return None
            with vine.mode():
                res, _ = engine.run_paths(I, body, max_paths=200000)
            k = 0
            for r in res:
                tag = 'sample_row.%s.d%d%s' % (vt, d, '.refit' if hist else '')
                if r.outcome == 'unsupported':
                    chk.undecided.append(('C17.%s.exec' % tag, 'executor', str(r.value)))
                    continue
                if r.outcome != 'return':
                    chk.add(Ob('C17.%s.no_exception.%s.%d' % (tag, getattr(r.value, 'clsname', '?'), k), r.pc, ir.FALSE,
                               function=VINE + '._sample_row', free_ufs_ok=True, replay=sample_replay(vt, d),
                               clause='_sample_row returns a row [%s]' % str(getattr(r.value, 'args', ''))[:80]))
                    continue
                k += 1
                row = r.state['row']
                cells = list(getattr(row, 'data', []))
                # every cell is the marginal quantile function of ITS column, applied to a number in [0, 1]
                ok_shape = len(cells) == d
                args, why = [], ''
                for j, x in enumerate(cells):
                    t = x.t if isinstance(x, Sym) else None
                    if t is None or t.op != 'uf' or t.args[0] != 'kde.ppf' or t.args[1] is not gm.colwhole(labels[j]):
                        ok_shape = False
                        why = 'cell %d is %s' % (j, ir.show(t)[:60] if t is not None else repr(x))
                        break
                    args.append(t.args[2])
                chk.add(Ob('C17.%s.row_of_marginal_quantiles.%d' % (tag, k), r.pc, ir.const(ok_shape), backends=('syntactic',),
                           function=VINE + '._sample_row', replay=sample_replay(vt, d),
                           clause='the row has one cell per training column, in order, each the quantile function of that column\'s '
                                  'fitted marginal (so every node was visited and no cell keeps its initial 0)%s' %
                                  (' [%s]' % why if why else '')))
                if ok_shape:
                    chk.add(Ob('C17.%s.quantile_levels_in_unit_interval.%d' % (tag, k), r.pc,
                               ir.and_(*[ir.and_(ir.ge(a, 0), ir.le(a, 1)) for a in args]), function=VINE + '._sample_row',
                               free_ufs_ok=True, replay=sample_replay(vt, d),
                               clause='each quantile level is in [0,1]: the marginal returns a number, never a missing value'))
                evs = r.state['ev']
                only_global = all(e.kind == 'rng' for e in evs) and len(evs) >= 2
                chk.add(Ob('C17.%s.draws_from_global_generator_only.%d' % (tag, k), r.pc, ir.const(bool(only_global)),
                           backends=('syntactic',), function=VINE + '._sample_row',
                           clause='the row is a function of the model and the global generator state: it draws d uniforms and the '
                                  'start node, reseeds nothing and modifies no argument'))
                if d == 2 and ok_shape:
                    # the law: (F_a^-1(w_a), F_b^-1(h^-1(w_b | w_a))) with the pair copula of the single edge
                    trees = vine.read_vine(r.state['m'])
                    e = trees[0][0]
                    w = [ir.uf('rng.uniform.elem', [G0, ir.const(0), ir.const(1), ir.const(2), ir.const(i)]) for i in range(2)]
                    goals = []
                    for root in (0, 1):
                        o = 1 - root
                        cond = ir.eq(args[root], w[root])
                        want = ir.min_(ir.max_(ir.uf('hinv', [e.name.t, e.theta.t, w[o], w[root]]), ir.const(EPS)),
                                       ir.const(ONE_M_EPS))
                        goals.append(ir.and_(cond, ir.eq(args[o], want)))
                    chk.add(Ob('C17.%s.two_column_law.%d' % (tag, k), r.pc, ir.or_(*goals), function=VINE + '._sample_row',
                               free_ufs_ok=True, replay=sample_replay(vt, d),
                               clause='2 columns: the row is (F_r^-1(w_r), F_o^-1(h^-1(w_o | w_r))) for the start column r, its '
                                      'pair copula\'s inverse h, independent uniforms w, the inverse-h value only guarded to '
                                      '[EPSILON, 1 - EPSILON]: by the inverse-transform lemma the rows have the fitted marginals '
                                      'and the Kendall tau of the selected copula'))
            if k == 0 and not chk.undecided:
                chk.engine_error('C17.sample_row.%s.d%d: no returning path' % (vt, d))
    # ---- sample(n): the loop over rows, with _sample_row replaced by its contract -----------------------------------------
    for vt in ('center', 'regular'):
        d = 3
        I = engine.new_interp()
        gm.install_rootfinders(I)
        vine.install_contracts(I)
        labels = vine.LABELS[:d]

        class RowSeq(object):
            """list of rows of symbolic length (ghost view of `sampled_values`)"""
            def __init__(self, n, width, ok=True):
                self.n, self.width, self.ok = n, width, ok

            def sym_getattr(self, interp, name):
                if name == 'append':
                    def append(row):
                        cells = getattr(row, 'data', None)
                        if cells is None or len(cells) != self.width:
                            self.ok = False
                        self.n = Sym(ir.add(libmodel.to_term(self.n), 1))
                    return append
                raise engine.paths.Unsupported('RowSeq.' + name)

            def sym_rows_frame(self, columns):
                cols = list(columns.labels) if hasattr(columns, 'labels') else list(columns)
                if len(cols) != self.width:
                    libmodel._raise('ValueError', '%d columns passed, passed data had %d columns' % (len(cols), self.width))
                return pdmodel.Frame(cols, {l: Lane(ir.uf('vine.cell', [G0, libmodel.values.IDX, ir.const(j)]), self.n)
                                            for j, l in enumerate(cols)}, self.n)

        def row_summary(interp, args, kwargs):
            g = libmodel.RNG.advance('vine.row', [])
            return libmodel.ConcArr([Sym(ir.uf('vine.row.cell', [g, ir.const(j)])) for j in range(d)])
        I.summaries[VINE + '._sample_row'] = row_summary

        def inv(view):
            sv = view.cur['sampled_values']
            if not isinstance(sv, RowSeq):
                # establish leg: the real (empty) list
                return [ir.const(isinstance(sv, list) and len(sv) == 0 and view.ghost['it'] is ir.ZERO)]
            return [ir.eq(libmodel.to_term(sv.n), view.ghost['it']), ir.const(bool(sv.ok))]
        I.loop_invs[(VINE + '.sample', 0)] = LoopInv(
            'C17.sample.rows_invariant.%s' % vt, inv,
            havoc={'sampled_values': lambda c: RowSeq(Sym(c.fresh('h_rows', 'I')), d),
                   '$rng': lambda c: c.fresh('h_rng', 'U')})

        def body(c, I=I, vt=vt):
            m = vine.fit_vine(I, c, d, vt)
            c.assume(ir.ge(MROWS, 0))
            State.rng = G0
            return I.call_method(m, 'sample', [Sym(MROWS)])
        with vine.mode():
            res, _ = engine.run_paths(I, body, max_paths=200000)
        k = 0
        for r in res:
            tag = 'sample.%s.d%d' % (vt, d)
            if r.outcome == 'unsupported':
                chk.undecided.append(('C17.%s.exec' % tag, 'executor', str(r.value)))
                continue
            for o in r.obligations:
                if o.kind == 'invariant':
                    chk.add(Ob('%s.%d' % (o.name, len(chk.obs)), o.hyps, o.goal, kind='invariant', function=VINE + '.sample',
                               free_ufs_ok=True, replay=sample_replay(vt, d),
                               clause='loop invariant of sample: after i iterations the list holds i rows of d cells'))
            if r.outcome == 'end':
                continue
            if r.outcome != 'return':
                chk.add(Ob('C17.%s.no_exception.%s' % (tag, getattr(r.value, 'clsname', '?')), r.pc, ir.FALSE,
                           function=VINE + '.sample', free_ufs_ok=True, replay=sample_replay(vt, d),
                           clause='sample(n) returns [%s]' % str(getattr(r.value, 'args', ''))[:80]))
                continue
            k += 1
            fr = r.value
            okf = isinstance(fr, pdmodel.Frame) and list(fr.labels) == labels
            chk.add(Ob('C17.%s.columns_in_training_order.%d' % (tag, k), r.pc, ir.const(bool(okf)), backends=('syntactic',),
                       function=VINE + '.sample', replay=sample_replay(vt, d),
                       clause='sample(n) is a table with the training columns, in order'))
            chk.add(Ob('C17.%s.n_rows.%d' % (tag, k), r.pc,
                       ir.eq(libmodel.to_term(fr.n), MROWS) if okf else ir.FALSE, function=VINE + '.sample', free_ufs_ok=True,
                       replay=sample_replay(vt, d), clause='sample(n) has exactly n rows'))
        if k == 0 and not chk.undecided:
            chk.engine_error('C17.sample.%s: no returning path' % vt)
