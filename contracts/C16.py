"""C16 - a fitted vine is a regular vine of the requested type and depth.

Functions under contract: VineCopula.fit / train_vine, Tree.fit, the three _build_first_tree / _build_kth_tree, _sort_tau_by_y,
get_anchor, _check_constraint, _get_constraints, get_tau_matrix, prepare_next_tree, Edge.__init__, _identify_eds_ing,
sort_edge, is_adjacent, get_conditional_uni, get_child_edge, get_tree.

The real code is executed symbolically for a CONCRETE number of columns d and a SYMBOLIC truncation t >= 1, on a symbolic
table (n >= 2 rows, non-constant columns). The Kendall matrix and every later tau are symbolic reals with no assumption on
their order: each comparison the builders make (argsort, argmax, sorted(...)[0], valL > valR) splits the path, so the set
of paths covers every ordering of the pairwise taus, ties included. On each path the tree structure is concrete and the
regular-vine predicate (written independently in contracts/vine.py) is evaluated on it; the maximum-spanning-tree clause
is a z3 obligation over the symbolic taus. select_copula, the pair-copula methods and the KDE marginals enter through
their contracts (C11, C07, C03).
"""
import itertools

from pyvc import ir, engine, smt, libmodel
from pyvc.report import Ob
from pyvc import report as report_mod
from pyvc.values import Sym, Lane, Arr2, State
from . import gm, uni, vine

LEVEL = 'proof'
TRUSTED = ['select_copula returns a fitted copula of one of the three families with an admissible theta (C11 contract)',
           'pair-copula partial_derivative in [0,1] (C07 contract); GaussianKDE cdf in [0,1] (C03 contract)',
           'pandas DataFrame.corr(kendall), scipy kendalltau: assumed contracts (symmetric / deterministic, NaN only for a '
           'constant column)',
           'Python set iteration order and list.sort stability as in CPython (the executor uses the same objects)']
T = ir.var('t', 'I')
TREE = vine.TREE
FUNCS = [vine.VINE + '.fit', vine.VINE + '.train_vine', TREE + 'Tree.fit', TREE + 'Tree._check_constraint',
         TREE + 'Tree._get_constraints', TREE + 'Tree._sort_tau_by_y', TREE + 'Tree.get_tau_matrix',
         TREE + 'Tree.prepare_next_tree', TREE + 'CenterTree._build_first_tree', TREE + 'CenterTree._build_kth_tree',
         TREE + 'CenterTree.get_anchor', TREE + 'DirectTree._build_first_tree', TREE + 'DirectTree._build_kth_tree',
         TREE + 'RegularTree._build_first_tree', TREE + 'RegularTree._build_kth_tree', TREE + 'get_tree',
         TREE + 'Edge.__init__', TREE + 'Edge._identify_eds_ing', TREE + 'Edge.is_adjacent', TREE + 'Edge.sort_edge',
         TREE + 'Edge.get_conditional_uni', TREE + 'Edge.get_child_edge']


_NATIVE_CACHE = {}


def native_search(vine_type, d, trunc, seeds, rows=80, refit=False):
    """memoised (the same native search serves every obligation of one (type, d, truncation) group)"""
    key = (vine_type, d, trunc, tuple(seeds), rows, refit)
    if key not in _NATIVE_CACHE:
        _NATIVE_CACHE[key] = _native_search(vine_type, d, trunc, seeds, rows, refit)
    return _NATIVE_CACHE[key]


def _native_search(vine_type, d, trunc, seeds, rows=80, refit=False):
    """fit the real VineCopula on random tables (ties injected in every second one) and evaluate the same predicates"""
    import warnings
    import numpy as np
    import pandas as pd
    warnings.simplefilter('ignore')
    from copulas.multivariate import VineCopula
    found = []
    for seed in seeds:
        rs = np.random.RandomState(seed)
        A = rs.normal(size=(d, d))
        X = rs.multivariate_normal(np.zeros(d), A @ A.T + 0.3 * np.eye(d), rows)
        if seed % 2:
            X = np.round(X, 1)                      # ties
        X = pd.DataFrame(X, columns=vine.LABELS[:d])
        try:
          with report_mod.time_limit(60):
            v = VineCopula(vine_type)
            if refit:
                v.fit(pd.DataFrame(rs.normal(size=(50, 3)) @ rs.normal(size=(3, 3)), columns=['p', 'q', 'r']), truncated=1)
            if trunc is None:
                v.fit(X)
            else:
                v.fit(X, truncated=trunc)
        except report_mod.NativeTimeout:
            found.append({'seed': seed, 'violations': [('fit_raises', 'fit did not return within 60 s')]})
            break
        except Exception as e:                      # noqa
            found.append({'seed': seed, 'violations': [('fit_raises', '%s: %s' % (type(e).__name__, str(e)[:120]))]})
            continue
        S = vine.native_structure(v)
        tt = 3 if trunc is None else trunc
        bad = vine.structure_violations(S, d, vine_type, max(1, min(d - 1, tt)))
        kendall = X.corr(method='kendall').to_numpy()
        if not np.allclose(np.asarray(v.tau_mat, dtype=float), kendall, rtol=0, atol=1e-12):
            i, j = np.unravel_index(np.argmax(np.abs(np.asarray(v.tau_mat) - kendall)), kendall.shape)
            bad.append(('kendall_matrix', 'tau_mat[%d,%d] = %.6f but the Kendall tau of the two columns is %.6f' %
                        (i, j, v.tau_mat[i, j], kendall[i, j])))
        if vine_type == 'regular':
            tau = np.abs(kendall)
            pairs = vine.tree_pairs(S, 0)
            for a, b in itertools.combinations(range(d), 2):
                if (a, b) in pairs or (b, a) in pairs:
                    continue
                path = vine.tree_path(d, pairs, a, b) or []
                for i in path:
                    x, y = pairs[i]
                    if tau[a, b] > tau[x, y]:
                        bad.append(('maximum_spanning_tree', '|tau(%d,%d)|=%.4f exceeds tree edge |tau(%d,%d)|=%.4f on its cycle'
                                    % (a, b, tau[a, b], x, y, tau[x, y])))
        for t_ in v.trees:
            for e in t_.edges:
                if e.name is None or e.theta is None:
                    bad.append(('family', 'edge without a family / theta'))
        if bad:
            found.append({'seed': seed, 'violations': bad[:4]})
    return found


def struct_replay(vine_type, d, trunc, clause, refit=False):
    def replay(env):
        found = native_search(vine_type, d, trunc, range(12), refit=refit)
        hit = [f for f in found if any(c == clause or clause == '*' for c, _ in f['violations'])] or found
        if hit:
            return {'confirmed': True, 'detail': 'VineCopula(%r).fit %son the random %d-column table with seed %d: %s' %
                    (vine_type, '(after an earlier fit on a 3-column table) ' if refit else '', d, hit[0]['seed'], '; '.join(m for _c, m in hit[0]['violations'][:2])),
                    'input': {'vine_type': vine_type, 'd': d, 'truncated': trunc, 'seed': hit[0]['seed']}}
        return {'confirmed': False, 'detail': 'native fits of 12 random %d-column tables satisfy the predicate' % d}
    return replay


def run_fit(d, vt, trunc='sym', max_paths=200000, refit_from=None):
    I = engine.new_interp()
    gm.install_rootfinders(I)
    vine.install_contracts(I)

    def body(c):
        if trunc == 'sym':
            c.assume(ir.ge(T, 1))
            t = Sym(T)
        else:
            t = trunc
        m = None
        if refit_from is not None:
            # history: the same object was fitted before, on ANOTHER table (other labels, other size, other truncation)
            d0, t0 = refit_from
            labels0 = ['p', 'q', 'r', 's', 'u'][:d0]
            n0 = Sym(ir.var('n0', 'I'))
            c.assume(ir.ge(n0.t, 2))
            from pyvc import pdmodel
            X0 = pdmodel.Frame(labels0, {l: Lane(ir.var('w_%s@i' % l), n0) for l in labels0}, n0, owner='X0')
            for l in labels0:
                c.assume(ir.gt(ir.uf('n_unique', [ir.var('w_%s' % l, 'U')], 'I'), 1))
            m = I.call_qual(vine.VINE, [vt], {})
            I.call_method(m, 'fit', [X0, t0])
        m = vine.fit_vine(I, c, d, vt, truncated=t, model=m)
        c.out['m'] = m
        return None
    with vine.mode():
        res, ctx = engine.run_paths(I, body, max_paths=max_paths)
    return I, res


def trunc_of(pc, d):
    """the truncation cases a path stands for, read off its path condition"""
    for v in range(1, d):
        if ir.eq(T, v) in pc or ir.eq(v, T) in pc:
            return v
    return None


def build(chk):
    I0 = engine.new_interp()
    chk.under_contract(I0.source, FUNCS)
    dims = (2, 3, 4) if chk.tier == 'quick' else (2, 3, 4, 5)
    total_paths = 0
    cases = [(vt, d, None, 'sym') for vt in ('center', 'direct', 'regular') for d in dims] + \
            [(vt, 3, (3, 1), 'sym') for vt in ('center', 'direct', 'regular')]
    if chk.tier == 'quick':
        # the k-th tree builder of a regular vine has its first non-trivial choices with 5 columns (a hub of degree >= 3 in
        # the first tree): two trees of a 5-column regular vine in the quick tier, everything for d = 5 in the thorough one
        cases.append(('regular', 5, None, 2))
    for vt, d, hist, trunc_ in cases:
        if True:
            I, res = run_fit(d, vt, trunc=trunc_, refit_from=hist)
            if trunc_ != 'sym':
                for r_ in res:
                    r_.pc = list(r_.pc) + [ir.eq(T, trunc_)]
            tag = '%s.d%d%s%s' % (vt, d, '.refit' if hist else '', '' if trunc_ == 'sym' else '.t%d' % trunc_)
            k = 0
            depth_cases = set()
            for r in res:
                if r.outcome == 'unsupported':
                    chk.undecided.append(('C16.%s.exec' % tag, 'executor', str(r.value)))
                    continue
                if r.outcome != 'return':
                    chk.add(Ob('C16.%s.fit_succeeds.%s' % (tag, getattr(r.value, 'clsname', '?')), r.pc, ir.FALSE,
                               function=vine.VINE + '.fit', free_ufs_ok=True, replay=struct_replay(vt, d, None, 'fit_raises', refit=bool(hist)),
                               clause='fit succeeds on every numeric table with non-constant columns [%s]' %
                                      str(getattr(r.value, 'args', ''))[:80]))
                    continue
                k += 1
                m = r.state['m']
                trees = vine.read_vine(m)
                S = vine.plain_structure(trees)
                n_trees = len(S)
                depth_cases.add(n_trees)
                # -- number of trees = max(1, min(d-1, t)) -----------------------------------------------------------
                # only the path-condition conjuncts about t matter for this integer goal (the others do not mention t, and
                # the path is feasible): keeps the query free of the uninterpreted tau terms
                chk.add(Ob('C16.%s.tree_count.%d' % (tag, k), [p_ for p_ in r.pc if T in ir.free_vars(p_)],
                           ir.eq(n_trees, ir.max_(1, ir.min_(d - 1, T))), function=vine.VINE + '.train_vine',
                           replay=struct_replay(vt, d, None, 'tree_count', refit=bool(hist)),
                           clause='the model holds min(d-1, t) trees, at least one [%d trees]' % n_trees))
                # -- the matrix driving the structure is the Kendall tau matrix of the training columns ---------------
                from pyvc import pdmodel
                labels = vine.LABELS[:d]
                tm = m.attrs['tau_mat']
                okk = hasattr(tm, 'data') and len(tm.data) == d and all(
                    isinstance(tm.data[i][j], Sym) and tm.data[i][j].t is pdmodel.corr_term(
                        'kendall', gm.colwhole(labels[i]), gm.colwhole(labels[j]))
                    for i in range(d) for j in range(d))
                chk.add(Ob('C16.%s.kendall_matrix.%d' % (tag, k), r.pc, ir.const(bool(okk)), backends=('syntactic',),
                           function=vine.VINE + '.fit', replay=struct_replay(vt, d, None, 'kendall_matrix', refit=bool(hist)),
                           clause='tau_mat[i][j] is the Kendall tau of training columns i and j (DataFrame.corr contract)'))
                # -- regular-vine predicate on the concrete structure of this path --------------------------------------
                bad = vine.structure_violations(S, d, vt)
                by_clause = {}
                for c_, msg in bad:
                    by_clause.setdefault(c_, []).append(msg)
                for clause, text in (('edge_count', 'tree k has d-k edges'),
                                     ('spanning_tree', 'the edges of tree k form a spanning tree on its d-k+1 nodes'),
                                     ('parents', 'every edge of tree k >= 2 joins two edges of tree k-1'),
                                     ('proximity', 'the two parents share a node of tree k-1'),
                                     ('conditioned_pair', 'the conditioned pair is two distinct variables, the symmetric '
                                                          'difference of the parents\' variable sets'),
                                     ('conditioning_set', 'the conditioning set has k-1 variables, the intersection of the '
                                                          'parents\' variable sets'),
                                     ('pair_once', 'no pair of variables is conditioned twice'),
                                     ('variables', 'variables are column indices'),
                                     ('star', 'a center vine has a star in every tree'),
                                     ('path', 'a direct vine has a path in every tree')):
                    if clause == 'star' and vt != 'center' or clause == 'path' and vt != 'direct':
                        continue
                    msgs = by_clause.get(clause, [])
                    trunc = trunc_of(r.pc, d)
                    chk.add(Ob('C16.%s.%s.%d' % (tag, clause, k), r.pc, ir.const(not msgs), backends=('syntactic',),
                               function=TREE + 'Tree.fit', replay=struct_replay(vt, d, trunc, clause, refit=bool(hist)),
                               clause=text + (' [%s]' % msgs[0] if msgs else '')))
                # -- first tree of a regular vine: maximum spanning tree of |tau| --------------------------------------
                if vt == 'regular':
                    tau = m.attrs['tau_mat']
                    pairs = vine.tree_pairs(S, 0)
                    goals = []
                    if any(not (0 <= a < d and 0 <= b < d) for a, b in pairs) or len(getattr(tau, 'data', [])) != d:
                        pairs, goals = [], [ir.FALSE]
                    for a, b in itertools.combinations(range(d), 2):
                        if (a, b) in pairs or (b, a) in pairs:
                            continue
                        path = vine.tree_path(d, pairs, a, b)
                        if path is None:
                            goals.append(ir.FALSE)
                            continue
                        for i in path:
                            x, y = pairs[i]
                            goals.append(ir.le(ir.abs_(libmodel.to_term(tau.data[a][b])),
                                               ir.abs_(libmodel.to_term(tau.data[x][y]))))
                    chk.add(Ob('C16.%s.maximum_spanning_tree.%d' % (tag, k), r.pc, ir.and_(*goals) if goals else ir.TRUE,
                               function=TREE + 'RegularTree._build_first_tree', free_ufs_ok=True,
                               replay=struct_replay(vt, d, None, 'maximum_spanning_tree', refit=bool(hist)),
                               clause='first tree of a regular vine: every non-tree pair has |tau| <= |tau| of each tree edge on '
                                      'its cycle (cycle property <=> maximum spanning tree of the |Kendall tau| graph)'))
                # -- every edge carries a family with an admissible theta: it is what select_copula returned --------------
                ok = True
                for t_ in trees:
                    for e in t_:
                        nt = e.name.t if isinstance(e.name, Sym) else None
                        tt = e.theta.t if isinstance(e.theta, Sym) else None
                        if nt is None or tt is None or nt.op != 'uf' or nt.args[0] != 'sel.family' or tt.op != 'uf' or \
                                tt.args[0] != 'sel.theta' or nt.args[1:] != tt.args[1:]:
                            ok = False
                chk.add(Ob('C16.%s.family_and_theta.%d' % (tag, k), r.pc, ir.const(ok), backends=('syntactic',),
                           function=TREE + 'Edge.get_child_edge', replay=struct_replay(vt, d, None, 'family', refit=bool(hist)),
                           clause='every edge carries the family and theta of ONE select_copula result (admissible by the C11 '
                                  'contract)'))
                if k == 1 and d == 4:
                    chk.add(Ob('C16.%s.canary.one_tree_less' % tag, r.pc, ir.eq(n_trees - 1, ir.max_(1, ir.min_(d - 1, T))),
                               canary=True))
            total_paths += k
            if k == 0 and not chk.undecided:
                chk.engine_error('C16.%s: no returning path' % tag)
            # every truncation case must have been reached (vacuity guard on the symbolic t)
            if trunc_ == 'sym' and k and not set(range(1, max(2, d))) <= depth_cases and not chk.undecided:
                chk.engine_error('C16.%s: tree counts reached %r, expected 1..%d' % (tag, sorted(depth_cases), max(1, d - 1)))
    build_helpers(chk)
    crosscheck_builders(chk)
    bounded_native(chk)
    chk.assumptions += [
        'd = %s columns, each with at least two distinct values (a constant column makes Kendall tau NaN: excluded and '
        'listed under not_addressed); symbolic truncation t >= 1; n >= 2 rows; reals not floats' % (dims,),
        '%d paths: every ordering of the pairwise taus (ties resolved as numpy / sorted resolve them; equal keys in argsort in '
        'either order)' % total_paths,
    ]
    chk.not_addressed += [
        {'clause': 'd = %s columns' % ('5, 6, 7' if chk.tier == 'quick' else '6, 7'),
         'reason': 'the number of orderings grows factorially (d = 5: 288 / 384 / 2640 paths, minutes; d = 6: hours): BOUNDED '
                   'native stand-in on random tables with ties, not a proof'},
        {'clause': 'tables with a constant column', 'reason': 'Kendall tau is NaN there; the builders replace NaN by -10 only '
                                                              'in _sort_tau_by_y; outside the contract of this check'},
    ]


def bounded_native(chk):
    dims = (5, 6) if chk.tier == 'quick' else (5, 6, 7)
    seeds = range(4) if chk.tier == 'quick' else range(8)
    evals = 0
    for d in dims:
        for vt in ('center', 'direct', 'regular'):
            for trunc in ((None,) if chk.tier == 'quick' else (None, 1, d)):
                found = native_search(vt, d, trunc, [s + 100 * (chk.seed or 0) for s in seeds], rows=60)
                evals += len(seeds)
                if found:
                    chk.bounded_violation('C16.vine.structure.bounded', {'vine_type': vt, 'd': d, 'truncated': trunc,
                                                                         'seed': found[0]['seed']},
                                          '; '.join(m for _c, m in found[0]['violations'][:2]))
                    break
    # one long table per vine type: every statement about tau is about ALL rows of the table, however many there are
    for vt in ('center', 'direct', 'regular'):
        found = native_search(vt, 4, None, [7 + 100 * (chk.seed or 0)], rows=2400)
        evals += 1
        if found:
            chk.bounded_violation('C16.vine.structure.long_table.bounded', {'vine_type': vt, 'd': 4, 'rows': 2400,
                                                                            'seed': found[0]['seed']},
                                  '; '.join(m for _c, m in found[0]['violations'][:2]))
    chk.bounded.append({'name': 'C16.vine.structure.long_table.bounded', 'clause': 'tau matrix = Kendall tau of all rows; tree '
                        'predicates', 'bound': 'one table of 2400 rows, d = 4, per vine type', 'evaluations': 3,
                        'distinct_nontrivial': 3, 'rule': 'one case = (type, table)'})
    chk.bounded.append({'name': 'C16.vine.structure.bounded', 'clause': 'regular-vine predicate for d = %s' % (dims,),
                        'bound': 'real VineCopula.fit on %d random tables per (d, type, truncation), 60 rows, ties in every '
                                 'second table, seed base %d' % (len(seeds), chk.seed or 0),
                        'evaluations': evals, 'distinct_nontrivial': evals, 'rule': 'one case = (d, type, truncation, table)'})


# ------------------------------------------------------------------------------------------------------------------
# the set-algebra helpers as functions under contract, for ALL column counts d <= 7 and ALL levels at once:
# edge variables are symbolic integers in 0..6, conditioning sets are symbolic sets (7 membership bits)
# ------------------------------------------------------------------------------------------------------------------

def sym_edge(I, c, tag, level_k):
    """an arbitrary well-formed edge of tree k: L < R in 0..6, D a set of k-1 other variables"""
    L, R = ir.var('%s_L' % tag, 'I'), ir.var('%s_R' % tag, 'I')
    D = libmodel.SymSet([ir.var('%s_D%d' % (tag, i), 'B') for i in range(7)])
    e = I.call_qual(TREE + 'Edge', [Sym(ir.var('%s_idx' % tag, 'I')), Sym(L), Sym(R), Sym(ir.var('%s_name' % tag, 'U')),
                                     Sym(ir.var('%s_theta' % tag))])
    e.attrs['D'] = D
    inD = lambda x: ir.or_(*[ir.and_(ir.eq(x, i), D.bits[i]) for i in range(7)])        # noqa: E731
    c.assume(ir.and_(ir.ge(L, 0), ir.lt(L, R), ir.lt(R, 7), ir.not_(inD(L)), ir.not_(inD(R)), ir.eq(D.size(), ir.sub(level_k, 1))))
    return e, L, R, D


def vars_of(L, R, D):
    return libmodel.SymSet([ir.or_(ir.eq(L, i), ir.eq(R, i), D.bits[i]) for i in range(7)])


def build_helpers(chk, prefix='C16', parts=('identify', 'check_constraint', 'child')):
    K = ir.var('k', 'I')
    EDGE = TREE + 'Edge.'

    def run(name, fn):
        I = engine.new_interp()
        gm.install_rootfinders(I)
        vine.install_contracts(I)
        with vine.mode():
            res, _ = engine.run_paths(I, lambda c: fn(I, c), max_paths=20000)
        out = []
        for r in res:
            if r.outcome == 'unsupported':
                chk.undecided.append((prefix + '.helpers.%s.exec' % name, 'executor', str(r.value)))
            else:
                out.append(r)
        if not out and not chk.undecided:
            chk.engine_error(prefix + '.helpers.%s: no path' % name)
        return out

    def proximal(p, q):
        (pL, pR, pD), (qL, qR, qD) = p, q
        u = vars_of(pL, pR, pD).sym_binop(None, 'BitOr', vars_of(qL, qR, qD), False)
        return ir.eq(u.size(), ir.add(K, 2))

    def bits_eq(a, b):
        return ir.and_(*[ir.eq(x, y) for x, y in zip(a.bits, b.bits)])

    # ---- _identify_eds_ing ---------------------------------------------------------------------------------------------
    def f1(I, c):
        c.assume(ir.and_(ir.ge(K, 1), ir.le(K, 6)))
        p, pL, pR, pD = sym_edge(I, c, 'p', K)
        q, qL, qR, qD = sym_edge(I, c, 'q', K)
        c.assume(proximal((pL, pR, pD), (qL, qR, qD)))
        out = I.call(I.getattr(I.resolve(TREE + 'Edge'), '_identify_eds_ing'), [p, q], {})
        c.out['out'] = out
        c.out['spec'] = (vars_of(pL, pR, pD), vars_of(qL, qR, qD))
        return None
    for j, r in enumerate(run('identify', f1) if 'identify' in parts else []):
        fq = EDGE + '_identify_eds_ing'
        if r.outcome != 'return':
            chk.add(Ob(prefix + '.helpers.identify.no_exception.%d' % j, r.pc, ir.FALSE, function=fq, free_ufs_ok=True,
                       clause='two edges of tree k that share a node of tree k have exactly two variables not in common: the '
                              'unpacking of sorted(A ^ B) cannot fail [%s]' % getattr(r.value, 'clsname', '?')))
            continue
        left, right, dep = r.state['out']
        A, B = r.state['spec']
        sd = A.sym_binop(None, 'BitXor', B, False)
        it = A.sym_binop(None, 'BitAnd', B, False)
        got_pair = libmodel.SymSet.from_elems([left, right])
        chk.add(Ob(prefix + '.helpers.identify.conditioned_pair.%d' % j, r.pc,
                   ir.and_(ir.lt(left.t, right.t), bits_eq(got_pair, sd)), function=fq, free_ufs_ok=True,
                   clause='(left, right) are the two distinct variables of the symmetric difference, left < right  [all d <= 7, '
                          'all levels]'))
        chk.add(Ob(prefix + '.helpers.identify.conditioning_set.%d' % j, r.pc,
                   ir.and_(bits_eq(dep, it), ir.eq(dep.size(), K)), function=fq, free_ufs_ok=True,
                   clause='the conditioning set is the intersection of the parents\' variable sets and has k elements'))
        if j == 0:
            chk.add(Ob(prefix + '.helpers.canary.identify_union', r.pc, bits_eq(dep, A.sym_binop(None, 'BitOr', B, False)),
                       free_ufs_ok=True, canary=True))

    # ---- _check_constraint  <=>  the two edges share a node ---------------------------------------------------------------
    def f2(I, c):
        c.assume(ir.and_(ir.ge(K, 1), ir.le(K, 6)))
        p, pL, pR, pD = sym_edge(I, c, 'p', K)
        q, qL, qR, qD = sym_edge(I, c, 'q', K)
        t = I.call_qual(TREE + 'RegularTree', [])
        t.attrs['level'] = Sym(ir.add(K, 1))
        c.out['got'] = I.call_method(t, '_check_constraint', [p, q])
        c.out['want'] = proximal((pL, pR, pD), (qL, qR, qD))
        return None
    for j, r in enumerate(run('check_constraint', f2) if 'check_constraint' in parts else []):
        if r.outcome != 'return':
            chk.add(Ob(prefix + '.helpers.check_constraint.no_exception.%d' % j, r.pc, ir.FALSE, free_ufs_ok=True,
                       function=TREE + 'Tree._check_constraint', clause='total'))
            continue
        got = r.state['got']
        gt = got.t if isinstance(got, Sym) else ir.const(bool(got))
        chk.add(Ob(prefix + '.helpers.check_constraint.iff_proximity.%d' % j, r.pc, ir.eq(gt, r.state['want']), free_ufs_ok=True,
                   function=TREE + 'Tree._check_constraint',
                   clause='_check_constraint(e1, e2) in the tree of level k+1 <=> |vars(e1) U vars(e2)| = k+2 (the edges share a '
                          'node of tree k)'))

    # ---- get_child_edge: the child is a well-formed edge of the next tree --------------------------------------------------
    def f3(I, c):
        c.assume(ir.and_(ir.ge(K, 1), ir.le(K, 5)))
        p, pL, pR, pD = sym_edge(I, c, 'p', K)
        q, qL, qR, qD = sym_edge(I, c, 'q', K)
        c.assume(proximal((pL, pR, pD), (qL, qR, qD)))
        n = Sym(gm.N)
        for e, nm in ((p, 'p'), (q, 'q')):
            e.attrs['U'] = libmodel.RowsArr([Lane(ir.var('%s_U0@i' % nm), n), Lane(ir.var('%s_U1@i' % nm), n)])
        child = I.call(I.getattr(I.resolve(TREE + 'Edge'), 'get_child_edge'), [Sym(ir.var('idx', 'I')), p, q], {})
        c.out['child'] = child
        c.out['pq'] = (p, q, vars_of(pL, pR, pD), vars_of(qL, qR, qD))
        return None
    for j, r in enumerate(run('get_child_edge', f3) if 'child' in parts else []):
        fq = EDGE + 'get_child_edge'
        if r.outcome != 'return':
            chk.add(Ob(prefix + '.helpers.child.no_exception.%d' % j, r.pc, ir.FALSE, function=fq, free_ufs_ok=True,
                       clause='get_child_edge succeeds on two proximal edges [%s]' % getattr(r.value, 'clsname', '?')))
            continue
        ch = r.state['child']
        p, q, A, B = r.state['pq']
        a = ch.attrs
        L, R, D = a['L'], a['R'], a['D']
        okp = isinstance(a['parents'], list) and len(a['parents']) == 2 and a['parents'][0] is p and a['parents'][1] is q
        if not (isinstance(L, Sym) and isinstance(R, Sym) and isinstance(D, libmodel.SymSet)):
            chk.add(Ob(prefix + '.helpers.child.well_formed.%d' % j, r.pc, ir.FALSE, function=fq, clause='child has L, R, D'))
            continue
        inD = lambda x: ir.or_(*[ir.and_(ir.eq(x, i), D.bits[i]) for i in range(7)])      # noqa: E731
        chk.add(Ob(prefix + '.helpers.child.well_formed.%d' % j, r.pc,
                   ir.and_(ir.ge(L.t, 0), ir.lt(L.t, R.t), ir.lt(R.t, 7), ir.not_(inD(L.t)), ir.not_(inD(R.t)),
                           ir.eq(D.size(), K), bits_eq(vars_of(L.t, R.t, D), A.sym_binop(None, 'BitOr', B, False)),
                           ir.const(bool(okp))),
                   function=fq, free_ufs_ok=True,
                   clause='the child of two proximal edges of tree k is a well-formed edge of tree k+1: two distinct conditioned '
                          'variables outside D, |D| = k, its variables are the union of the parents\', parents recorded in order'))

    # ---- Edge.get_likelihood: the two conditionals are read from cells the parents write -------------------------------------
    class ReadMatrix(object):
        is_ndarray = True

        def __init__(self):
            self.reads = []

        def sym_getitem(self, interp, key):
            if isinstance(key, tuple) and len(key) == 2 and all(isinstance(k, (Sym, int)) for k in key):
                i, j = (libmodel.to_term(k) for k in key)
                self.reads.append((i, j))
                return Sym(ir.uf('uni', [i, j]))
            raise engine.paths.Unsupported('uni_matrix index %r' % (key,))

        def sym_getattr(self, interp, name):
            if name == 'shape':
                return (7, 7)
            raise engine.paths.Unsupported('uni_matrix.' + name)

    def f4(I, c):
        c.assume(ir.and_(ir.ge(K, 1), ir.le(K, 5)))
        p, pL, pR, pD = sym_edge(I, c, 'p', K)
        q, qL, qR, qD = sym_edge(I, c, 'q', K)
        c.assume(proximal((pL, pR, pD), (qL, qR, qD)))
        A, B = vars_of(pL, pR, pD), vars_of(qL, qR, qD)
        e, eL, eR, eD = sym_edge(I, c, 'e', ir.add(K, 1))
        # e is the child of p and q in a regular vine: conditioned pair = symmetric difference, D = intersection, and the
        # parents' conditioning sets lie inside D (they are the variables of the edge of tree k-1 the parents share)
        c.assume(ir.and_(*[ir.eq(eD.bits[i], ir.and_(A.bits[i], B.bits[i])) for i in range(7)]))
        sd = A.sym_binop(None, 'BitXor', B, False)
        c.assume(ir.and_(*[ir.eq(ir.or_(ir.eq(eL, i), ir.eq(eR, i)), sd.bits[i]) for i in range(7)]))
        c.assume(ir.and_(*[ir.and_(ir.implies(pD.bits[i], eD.bits[i]), ir.implies(qD.bits[i], eD.bits[i])) for i in range(7)]))
        e.attrs['parents'] = [p, q]
        um = ReadMatrix()
        I.call_method(e, 'get_likelihood', [um])
        c.out['reads'] = list(um.reads)
        c.out['e'] = (eL, eR)
        c.out['p'] = (pL, pR)
        c.out['q'] = (qL, qR)
        return None
    if True:
        order = 'any'           # p and q are arbitrary: either may be the parent holding L
        for j, r in enumerate(run('edge_likelihood', f4) if 'edge_likelihood' in parts else []):
            fq = EDGE + 'get_likelihood'
            if r.outcome != 'return':
                chk.add(Ob(prefix + '.helpers.edge_likelihood.no_exception.%s.%d' % (order, j), r.pc, ir.FALSE, function=fq,
                           free_ufs_ok=True, clause='get_likelihood of a child edge succeeds [%s %s]' %
                                                    (getattr(r.value, 'clsname', '?'), str(getattr(r.value, 'args', ''))[:60])))
                continue
            reads = r.state['reads']
            (eL, eR), (pL, pR), (qL, qR) = r.state['e'], r.state['p'], r.state['q']

            def written_by(i, j, PL, PR):
                return ir.or_(ir.and_(ir.eq(i, PL), ir.eq(j, PR)), ir.and_(ir.eq(i, PR), ir.eq(j, PL)))
            ok = len(reads) == 2
            goal = ir.FALSE
            if ok:
                (i1, j1), (i2, j2) = reads
                goal = ir.and_(ir.eq(i1, eL), ir.eq(i2, eR),
                               ir.or_(ir.and_(written_by(i1, j1, pL, pR), written_by(i2, j2, qL, qR)),
                                      ir.and_(written_by(i1, j1, qL, qR), written_by(i2, j2, pL, pR))))
            chk.add(Ob(prefix + '.helpers.edge_likelihood.reads_written_cells.%s.%d' % (order, j), r.pc, goal, function=fq,
                       free_ufs_ok=True,
                       clause='for an edge of tree k+1 >= 2 the two arguments are uni_matrix[L, x] and uni_matrix[R, y] where (L, x) '
                              'is the conditioned pair of one parent and (R, y) that of the other: exactly the cells the previous '
                              'tree writes (C17, C19: no uninitialised read)  [all d <= 7, all levels]'))


# ------------------------------------------------------------------------------------------------------------------
# CPython cross-check of the executor on the tree builders: with CONCRETE tau matrices (random, ties included) the real
# builders are run natively and in the executor; both must produce the same trees (a mismatch is an engine error)
# ------------------------------------------------------------------------------------------------------------------

def crosscheck_builders(chk):
    import random
    import warnings
    from fractions import Fraction
    import numpy as np
    warnings.simplefilter('ignore')
    import copulas.multivariate.tree as T
    from copulas.bivariate.base import CopulaTypes
    rnd = random.Random(77 + (chk.seed or 0))
    cases = 0
    dims = (3, 4, 5) if chk.tier == 'quick' else (3, 4, 5, 6)
    reps = 3 if chk.tier == 'quick' else 12
    for d in dims:
        for vt in ('center', 'direct', 'regular'):
            for rep in range(reps):
                # one symmetric tau matrix per level, entries on a coarse grid so that ties occur
                taus = []
                for k in range(d - 1):
                    m = d - k
                    M = [[0.0] * m for _ in range(m)]
                    for i in range(m):
                        for j in range(i + 1, m):
                            M[i][j] = M[j][i] = rnd.choice([-0.8, -0.5, -0.25, 0.1, 0.25, 0.5, 0.6, 0.9]) if rep % 2 else \
                                round(rnd.uniform(-0.95, 0.95), 3)
                        M[i][i] = 1.0
                    taus.append(M)
                # ---- native --------------------------------------------------------------------------------------
                class Stub(object):
                    copula_type, theta = CopulaTypes.FRANK, 1.0
                saved = (T.Bivariate.select_copula, T.Tree.prepare_next_tree)

                def prep(self):
                    for e in self.edges:
                        e.U = np.full((2, 3), 0.5)
                T.Bivariate.select_copula = classmethod(lambda cls, X: Stub())
                T.Tree.prepare_next_tree = prep
                native = []
                try:
                    with report_mod.time_limit(30):
                        prev = np.full((3, d), 0.5)
                        for k in range(min(d - 1, 3)):
                            t = T.get_tree(vt)
                            t.fit(k, d - k, np.array(taus[k]), prev)
                            native.append([(int(e.L), int(e.R), tuple(sorted(int(x) for x in e.D))) for e in t.edges])
                            prev = t
                except report_mod.NativeTimeout:
                    native = 'did not return within 30 s'
                except Exception as e:          # noqa
                    native = 'raised %s' % type(e).__name__
                finally:
                    T.Bivariate.select_copula, T.Tree.prepare_next_tree = saved
                # ---- executor --------------------------------------------------------------------------------------
                I = engine.new_interp()
                gm.install_rootfinders(I)
                vine.install_contracts(I)

                def prep_summary(interp, args, kwargs):
                    n = Sym(gm.N)
                    for e in args[0].attrs['edges']:
                        if e.attrs.get('U') is None:
                            e.attrs['U'] = libmodel.RowsArr([Lane(ir.var('U0_%d@i' % id(e)), n), Lane(ir.var('U1_%d@i' % id(e)), n)])
                I.summaries[TREE + 'Tree.prepare_next_tree'] = prep_summary

                def body(c, I=I, d=d, vt=vt, taus=taus):
                    out = []
                    prev = Arr2([Lane(ir.var('um%d@i' % j), Sym(gm.N)) for j in range(d)], Sym(gm.N))
                    for k in range(min(d - 1, 3)):
                        t = I.call_qual(TREE + 'get_tree', [vt])
                        tau = libmodel.ConcArr([[Sym(ir.const(Fraction(str(x)))) for x in row] for row in taus[k]])
                        I.call_method(t, 'fit', [k, d - k, tau, prev])
                        out.append([(int(ir._num(libmodel.to_term(e.attrs['L']))), int(ir._num(libmodel.to_term(e.attrs['R']))),
                                     tuple(sorted(int(x) for x in e.attrs['D']))) for e in t.attrs['edges']])
                        prev = t
                    c.out['trees'] = out
                    return None
                try:
                    with vine.mode():
                        res, _ = engine.run_paths(I, body, max_paths=2000)
                except Exception as e:          # noqa
                    chk.engine_error('cross-check of the tree builders: executor crashed: %s' % str(e)[:200])
                    return
                sym = [r.state['trees'] for r in res if r.outcome == 'return' and r.state]
                other = [r for r in res if r.outcome != 'return']
                cases += 1
                if isinstance(native, str):
                    if sym and not other:
                        chk.engine_error('cross-check of the tree builders (%s, d=%d, taus=%r): CPython %s, the executor returns'
                                         % (vt, d, taus[0], native))
                        return
                    continue
                # ties in argsort may legitimately give several executor paths: CPython's result must be one of them
                if native not in sym:
                    chk.engine_error('cross-check of the tree builders (%s, d=%d): CPython builds %r, the executor %r (tau %r)'
                                     % (vt, d, native, sym[:2], taus[0]))
                    return
    chk.crosschecks = getattr(chk, 'crosschecks', [])
    chk.crosschecks.append({'function': 'Tree.fit / _build_first_tree / _build_kth_tree (three types)', 'points': cases,
                            'what': 'concrete random tau matrices with ties, d in %r, up to three levels: same (L, R, D) lists'
                                    % (dims,)})
