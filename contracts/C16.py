"""C16 - a fitted vine is a regular vine of the requested type and depth.

Functions under contract: VineCopula.fit / train_vine, Tree.fit, the three _build_first_tree / _build_kth_tree, _sort_tau_by_y,
get_anchor, _check_constraint, _get_constraints, get_tau_matrix, prepare_next_tree, Edge.__init__, _identify_eds_ing,
sort_edge, is_adjacent, get_conditional_uni, get_child_edge, get_tree.

The real code is executed symbolically for a CONCRETE number of columns d and a SYMBOLIC truncation t >= 1, on a symbolic
table (n >= 2 rows, non-constant columns). The Kendall matrix and every later tau are symbolic reals with no assumption on
their order: each comparison the builders make (argsort, argmax, sorted(...)[0], valL > valR) splits the path, so the set
of paths covers every ordering of the pairwise taus, ties included. On each path the tree structure is concrete and the
regular-vine predicate (written independently in contracts/vine.py) is evaluated on it; the maximum-spanning-tree clause
is a z3 obligation over the symbolic taus. select_copula, the pair-copula methods and the KDE marginals enter through
their contracts (C11, C07, C03).
"""
import itertools

from pyvc import ir, engine, smt, libmodel
from pyvc.report import Ob
from pyvc.values import Sym, Lane, Arr2, State
from . import gm, uni, vine

LEVEL = 'proof'
TRUSTED = ['select_copula returns a fitted copula of one of the three families with an admissible theta (C11 contract)',
           'pair-copula partial_derivative in [0,1] (C07 contract); GaussianKDE cdf in [0,1] (C03 contract)',
           'pandas DataFrame.corr(kendall), scipy kendalltau: assumed contracts (symmetric / deterministic, NaN only for a '
           'constant column)',
           'Python set iteration order and list.sort stability as in CPython (the executor uses the same objects)']
T = ir.var('t', 'I')
TREE = vine.TREE
FUNCS = [vine.VINE + '.fit', vine.VINE + '.train_vine', TREE + 'Tree.fit', TREE + 'Tree._check_constraint',
         TREE + 'Tree._get_constraints', TREE + 'Tree._sort_tau_by_y', TREE + 'Tree.get_tau_matrix',
         TREE + 'Tree.prepare_next_tree', TREE + 'CenterTree._build_first_tree', TREE + 'CenterTree._build_kth_tree',
         TREE + 'CenterTree.get_anchor', TREE + 'DirectTree._build_first_tree', TREE + 'DirectTree._build_kth_tree',
         TREE + 'RegularTree._build_first_tree', TREE + 'RegularTree._build_kth_tree', TREE + 'get_tree',
         TREE + 'Edge.__init__', TREE + 'Edge._identify_eds_ing', TREE + 'Edge.is_adjacent', TREE + 'Edge.sort_edge',
         TREE + 'Edge.get_conditional_uni', TREE + 'Edge.get_child_edge']


def native_search(vine_type, d, trunc, seeds, rows=80, refit=False):
    """fit the real VineCopula on random tables (ties injected in every second one) and evaluate the same predicates"""
    import warnings
    import numpy as np
    import pandas as pd
    warnings.simplefilter('ignore')
    from copulas.multivariate import VineCopula
    found = []
    for seed in seeds:
        rs = np.random.RandomState(seed)
        A = rs.normal(size=(d, d))
        X = rs.multivariate_normal(np.zeros(d), A @ A.T + 0.3 * np.eye(d), rows)
        if seed % 2:
            X = np.round(X, 1)                      # ties
        X = pd.DataFrame(X, columns=vine.LABELS[:d])
        try:
            v = VineCopula(vine_type)
            if refit:
                v.fit(pd.DataFrame(rs.normal(size=(50, 3)) @ rs.normal(size=(3, 3)), columns=['p', 'q', 'r']), truncated=1)
            if trunc is None:
                v.fit(X)
            else:
                v.fit(X, truncated=trunc)
        except Exception as e:                      # noqa
            found.append({'seed': seed, 'violations': [('fit_raises', '%s: %s' % (type(e).__name__, str(e)[:120]))]})
            continue
        S = vine.native_structure(v)
        tt = 3 if trunc is None else trunc
        bad = vine.structure_violations(S, d, vine_type, max(1, min(d - 1, tt)))
        kendall = X.corr(method='kendall').to_numpy()
        if not np.allclose(np.asarray(v.tau_mat, dtype=float), kendall, rtol=0, atol=1e-12):
            i, j = np.unravel_index(np.argmax(np.abs(np.asarray(v.tau_mat) - kendall)), kendall.shape)
            bad.append(('kendall_matrix', 'tau_mat[%d,%d] = %.6f but the Kendall tau of the two columns is %.6f' %
                        (i, j, v.tau_mat[i, j], kendall[i, j])))
        if vine_type == 'regular':
            tau = np.abs(kendall)
            pairs = vine.tree_pairs(S, 0)
            for a, b in itertools.combinations(range(d), 2):
                if (a, b) in pairs or (b, a) in pairs:
                    continue
                path = vine.tree_path(d, pairs, a, b) or []
                for i in path:
                    x, y = pairs[i]
                    if tau[a, b] > tau[x, y]:
                        bad.append(('maximum_spanning_tree', '|tau(%d,%d)|=%.4f exceeds tree edge |tau(%d,%d)|=%.4f on its cycle'
                                    % (a, b, tau[a, b], x, y, tau[x, y])))
        for t_ in v.trees:
            for e in t_.edges:
                if e.name is None or e.theta is None:
                    bad.append(('family', 'edge without a family / theta'))
        if bad:
            found.append({'seed': seed, 'violations': bad[:4]})
    return found


def struct_replay(vine_type, d, trunc, clause, refit=False):
    def replay(env):
        found = native_search(vine_type, d, trunc, range(12), refit=refit)
        hit = [f for f in found if any(c == clause or clause == '*' for c, _ in f['violations'])] or found
        if hit:
            return {'confirmed': True, 'detail': 'VineCopula(%r).fit %son the random %d-column table with seed %d: %s' %
                    (vine_type, '(after an earlier fit on a 3-column table) ' if refit else '', d, hit[0]['seed'], '; '.join(m for _c, m in hit[0]['violations'][:2])),
                    'input': {'vine_type': vine_type, 'd': d, 'truncated': trunc, 'seed': hit[0]['seed']}}
        return {'confirmed': False, 'detail': 'native fits of 12 random %d-column tables satisfy the predicate' % d}
    return replay


def run_fit(d, vt, trunc='sym', max_paths=200000, refit_from=None):
    I = engine.new_interp()
    gm.install_rootfinders(I)
    vine.install_contracts(I)

    def body(c):
        if trunc == 'sym':
            c.assume(ir.ge(T, 1))
            t = Sym(T)
        else:
            t = trunc
        m = None
        if refit_from is not None:
            # history: the same object was fitted before, on ANOTHER table (other labels, other size, other truncation)
            d0, t0 = refit_from
            labels0 = ['p', 'q', 'r', 's', 'u'][:d0]
            n0 = Sym(ir.var('n0', 'I'))
            c.assume(ir.ge(n0.t, 2))
            from pyvc import pdmodel
            X0 = pdmodel.Frame(labels0, {l: Lane(ir.var('w_%s@i' % l), n0) for l in labels0}, n0, owner='X0')
            for l in labels0:
                c.assume(ir.gt(ir.uf('n_unique', [ir.var('w_%s' % l, 'U')], 'I'), 1))
            m = I.call_qual(vine.VINE, [vt], {})
            I.call_method(m, 'fit', [X0, t0])
        m = vine.fit_vine(I, c, d, vt, truncated=t, model=m)
        c.out['m'] = m
        return None
    with vine.mode():
        res, ctx = engine.run_paths(I, body, max_paths=max_paths)
    return I, res


def trunc_of(pc, d):
    """the truncation cases a path stands for, read off its path condition"""
    for v in range(1, d):
        if ir.eq(T, v) in pc or ir.eq(v, T) in pc:
            return v
    return None


def build(chk):
    I0 = engine.new_interp()
    chk.under_contract(I0.source, FUNCS)
    dims = (2, 3, 4) if chk.tier == 'quick' else (2, 3, 4, 5)
    total_paths = 0
    cases = [(vt, d, None) for vt in ('center', 'direct', 'regular') for d in dims] + \
            [(vt, 3, (3, 1)) for vt in ('center', 'direct', 'regular')]
    for vt, d, hist in cases:
        if True:
            I, res = run_fit(d, vt, refit_from=hist)
            tag = '%s.d%d%s' % (vt, d, '.refit' if hist else '')
            k = 0
            depth_cases = set()
            for r in res:
                if r.outcome == 'unsupported':
                    chk.undecided.append(('C16.%s.exec' % tag, 'executor', str(r.value)))
                    continue
                if r.outcome != 'return':
                    chk.add(Ob('C16.%s.fit_succeeds.%s' % (tag, getattr(r.value, 'clsname', '?')), r.pc, ir.FALSE,
                               function=vine.VINE + '.fit', free_ufs_ok=True, replay=struct_replay(vt, d, None, 'fit_raises', refit=bool(hist)),
                               clause='fit succeeds on every numeric table with non-constant columns [%s]' %
                                      str(getattr(r.value, 'args', ''))[:80]))
                    continue
                k += 1
                m = r.state['m']
                trees = vine.read_vine(m)
                S = vine.plain_structure(trees)
                n_trees = len(S)
                depth_cases.add(n_trees)
                # -- number of trees = max(1, min(d-1, t)) -----------------------------------------------------------
                chk.add(Ob('C16.%s.tree_count.%d' % (tag, k), r.pc,
                           ir.eq(n_trees, ir.max_(1, ir.min_(d - 1, T))), function=vine.VINE + '.train_vine',
                           replay=struct_replay(vt, d, None, 'tree_count', refit=bool(hist)),
                           clause='the model holds min(d-1, t) trees, at least one [%d trees]' % n_trees))
                # -- the matrix driving the structure is the Kendall tau matrix of the training columns ---------------
                from pyvc import pdmodel
                labels = vine.LABELS[:d]
                tm = m.attrs['tau_mat']
                okk = hasattr(tm, 'data') and len(tm.data) == d and all(
                    isinstance(tm.data[i][j], Sym) and tm.data[i][j].t is pdmodel.corr_term(
                        'kendall', gm.colwhole(labels[i]), gm.colwhole(labels[j]))
                    for i in range(d) for j in range(d))
                chk.add(Ob('C16.%s.kendall_matrix.%d' % (tag, k), r.pc, ir.const(bool(okk)), backends=('syntactic',),
                           function=vine.VINE + '.fit', replay=struct_replay(vt, d, None, 'kendall_matrix', refit=bool(hist)),
                           clause='tau_mat[i][j] is the Kendall tau of training columns i and j (DataFrame.corr contract)'))
                # -- regular-vine predicate on the concrete structure of this path --------------------------------------
                bad = vine.structure_violations(S, d, vt)
                by_clause = {}
                for c_, msg in bad:
                    by_clause.setdefault(c_, []).append(msg)
                for clause, text in (('edge_count', 'tree k has d-k edges'),
                                     ('spanning_tree', 'the edges of tree k form a spanning tree on its d-k+1 nodes'),
                                     ('parents', 'every edge of tree k >= 2 joins two edges of tree k-1'),
                                     ('proximity', 'the two parents share a node of tree k-1'),
                                     ('conditioned_pair', 'the conditioned pair is two distinct variables, the symmetric '
                                                          'difference of the parents\' variable sets'),
                                     ('conditioning_set', 'the conditioning set has k-1 variables, the intersection of the '
                                                          'parents\' variable sets'),
                                     ('pair_once', 'no pair of variables is conditioned twice'),
                                     ('variables', 'variables are column indices'),
                                     ('star', 'a center vine has a star in every tree'),
                                     ('path', 'a direct vine has a path in every tree')):
                    if clause == 'star' and vt != 'center' or clause == 'path' and vt != 'direct':
                        continue
                    msgs = by_clause.get(clause, [])
                    trunc = trunc_of(r.pc, d)
                    chk.add(Ob('C16.%s.%s.%d' % (tag, clause, k), r.pc, ir.const(not msgs), backends=('syntactic',),
                               function=TREE + 'Tree.fit', replay=struct_replay(vt, d, trunc, clause, refit=bool(hist)),
                               clause=text + (' [%s]' % msgs[0] if msgs else '')))
                # -- first tree of a regular vine: maximum spanning tree of |tau| --------------------------------------
                if vt == 'regular':
                    tau = m.attrs['tau_mat']
                    pairs = vine.tree_pairs(S, 0)
                    goals = []
                    if any(not (0 <= a < d and 0 <= b < d) for a, b in pairs) or len(getattr(tau, 'data', [])) != d:
                        pairs, goals = [], [ir.FALSE]
                    for a, b in itertools.combinations(range(d), 2):
                        if (a, b) in pairs or (b, a) in pairs:
                            continue
                        path = vine.tree_path(d, pairs, a, b)
                        if path is None:
                            goals.append(ir.FALSE)
                            continue
                        for i in path:
                            x, y = pairs[i]
                            goals.append(ir.le(ir.abs_(libmodel.to_term(tau.data[a][b])),
                                               ir.abs_(libmodel.to_term(tau.data[x][y]))))
                    chk.add(Ob('C16.%s.maximum_spanning_tree.%d' % (tag, k), r.pc, ir.and_(*goals) if goals else ir.TRUE,
                               function=TREE + 'RegularTree._build_first_tree', free_ufs_ok=True,
                               replay=struct_replay(vt, d, None, 'maximum_spanning_tree', refit=bool(hist)),
                               clause='first tree of a regular vine: every non-tree pair has |tau| <= |tau| of each tree edge on '
                                      'its cycle (cycle property <=> maximum spanning tree of the |Kendall tau| graph)'))
                # -- every edge carries a family with an admissible theta: it is what select_copula returned --------------
                ok = True
                for t_ in trees:
                    for e in t_:
                        nt = e.name.t if isinstance(e.name, Sym) else None
                        tt = e.theta.t if isinstance(e.theta, Sym) else None
                        if nt is None or tt is None or nt.op != 'uf' or nt.args[0] != 'sel.family' or tt.op != 'uf' or \
                                tt.args[0] != 'sel.theta' or nt.args[1:] != tt.args[1:]:
                            ok = False
                chk.add(Ob('C16.%s.family_and_theta.%d' % (tag, k), r.pc, ir.const(ok), backends=('syntactic',),
                           function=TREE + 'Edge.get_child_edge', replay=struct_replay(vt, d, None, 'family', refit=bool(hist)),
                           clause='every edge carries the family and theta of ONE select_copula result (admissible by the C11 '
                                  'contract)'))
                if k == 1 and d == 4:
                    chk.add(Ob('C16.%s.canary.one_tree_less' % tag, r.pc, ir.eq(n_trees - 1, ir.max_(1, ir.min_(d - 1, T))),
                               canary=True))
            total_paths += k
            if k == 0 and not chk.undecided:
                chk.engine_error('C16.%s: no returning path' % tag)
            # every truncation case must have been reached (vacuity guard on the symbolic t)
            if k and depth_cases != set(range(1, max(2, d))):
                chk.engine_error('C16.%s: tree counts reached %r, expected 1..%d' % (tag, sorted(depth_cases), max(1, d - 1)))
    bounded_native(chk)
    chk.assumptions += [
        'd = %s columns, each with at least two distinct values (a constant column makes Kendall tau NaN: excluded and '
        'listed under not_addressed); symbolic truncation t >= 1; n >= 2 rows; reals not floats' % (dims,),
        '%d paths: every ordering of the pairwise taus (ties resolved as numpy / sorted resolve them; equal keys in argsort in '
        'either order)' % total_paths,
    ]
    chk.not_addressed += [
        {'clause': 'd = %s columns' % ('5, 6, 7' if chk.tier == 'quick' else '6, 7'),
         'reason': 'the number of orderings grows factorially (d = 5: 288 / 384 / 2640 paths, minutes; d = 6: hours): BOUNDED '
                   'native stand-in on random tables with ties, not a proof'},
        {'clause': 'tables with a constant column', 'reason': 'Kendall tau is NaN there; the builders replace NaN by -10 only '
                                                              'in _sort_tau_by_y; outside the contract of this check'},
    ]


def bounded_native(chk):
    dims = (5, 6) if chk.tier == 'quick' else (5, 6, 7)
    seeds = range(2) if chk.tier == 'quick' else range(6)
    evals = 0
    for d in dims:
        for vt in ('center', 'direct', 'regular'):
            for trunc in ((None,) if chk.tier == 'quick' else (None, 1, d)):
                found = native_search(vt, d, trunc, [s + 100 * (chk.seed or 0) for s in seeds], rows=60)
                evals += len(seeds)
                if found:
                    chk.bounded_violation('C16.vine.structure.bounded', {'vine_type': vt, 'd': d, 'truncated': trunc,
                                                                         'seed': found[0]['seed']},
                                          '; '.join(m for _c, m in found[0]['violations'][:2]))
                    break
    chk.bounded.append({'name': 'C16.vine.structure.bounded', 'clause': 'regular-vine predicate for d = %s' % (dims,),
                        'bound': 'real VineCopula.fit on %d random tables per (d, type, truncation), 60 rows, ties in every '
                                 'second table, seed base %d' % (len(seeds), chk.seed or 0),
                        'evaluations': evals, 'distinct_nontrivial': evals, 'rule': 'one case = (d, type, truncation, table)'})
