"""C08 - percent_point inverts the conditional CDF of every bivariate copula.

Functions under contract: Clayton.percent_point (closed form), Bivariate.percent_point (brentq search, used by Frank
and Gumbel) with its closure f, Frank/Gumbel.percent_point (shortcuts), Bivariate.partial_derivative_scalar,
<Family>.partial_derivative (as the function to invert).
scipy.optimize.brentq is an ASSUMED contract whose preconditions are proof obligations at the call site.
"""
import itertools
from fractions import Fraction

import sympy as sp

from pyvc import ir, engine, smt, cas
from pyvc.report import Ob
from . import biv
from .biv import TH, U, V, N, FAMILIES
from .C07 import returned, rename_reductions, joint_feasible
from .C06 import _diff_ir

LEVEL = 'proof'
TRUSTED = ['scipy.optimize.brentq contract (assumed): root in [a,b] of a continuous f with a sign change',
           'L4 (cited, intermediate value theorem)',
           'inverse of a non-decreasing function is non-decreasing (cited) - used for Frank/Gumbel monotonicity in y']
LO, HI = Fraction(1, 10000), 1 - Fraction(1, 10000)
Y = U          # percent_point(y, V): the y-lane plays the role of the first lane variable


def ppf_replay(fam, what='h(percent_point(y,v), v) = y and 0 <= u <= 1'):
    def rep(env):
        import numpy as np
        env = biv.model_floats(env)
        th = env.get('theta')
        y = env.get('u@i', env.get('u', env.get('y')))
        v = env.get('v@i', env.get('v'))
        if th is None or y is None or v is None:
            return {'confirmed': False, 'detail': 'model lacks theta/y/v: %r' % (env,)}
        attrs = {k[5:].split('!')[0]: val for k, val in env.items() if k.startswith('attr_')}
        c = biv.native_copula(fam, th, attrs=attrs)
        try:
            with np.errstate(all='ignore'):
                u = float(np.ravel(c.percent_point(np.array([y]), np.array([v])))[0])
                back = float(np.ravel(biv.native_copula(fam, th).partial_derivative(np.array([[u, v]])))[0])
        except Exception as e:
            return {'confirmed': True, 'detail': '%s.percent_point(theta=%r, y=%r, v=%r) raised %s: %s' %
                    (fam, th, y, v, type(e).__name__, e), 'input': {'theta': th, 'y': y, 'v': v}}
        ok = (0 <= u <= 1) and abs(back - y) <= 1e-6
        return {'confirmed': not ok, 'detail': '%s.percent_point(theta=%r, y=%r, v=%r) = %r; partial_derivative(u, v) = %r'
                % (fam, th, y, v, u, back), 'input': {'theta': th, 'y': y, 'v': v, 'attrs': attrs}}
    return rep


def ppf_obligations(chk, P, fam, F, resP, Hs, box, thbox, fq=None):
    """obligations for paths of a call that computes u = percent_point(y, v) with y := U lane, v := V lane"""
    cls = F['cls']
    for r in resP:
        if r.outcome == 'unsupported':
            chk.undecided.append((P + '.%s.ppf.exec' % fam, 'executor', str(r.value)))
        pre = [e for e in r.events if e.kind == 'brentq_pre']
        if r.outcome == 'raise' and r.value.clsname == 'ValueError' and pre and \
                'different signs' in str(r.value.args[:1]):
            # brentq's bracket precondition, split into its two halves (each implies the raise path is dead)
            e = pre[-1]
            hy = list(e.pc)
            if fam == 'frank':
                hy.append(ir.or_(ir.ge(TH, ir.const(Fraction(1, 100))), ir.le(TH, ir.const(Fraction(-1, 100)))))
            ob = Ob(P + '.%s.ppf.brentq.bracket_lo' % fam, hy, ir.le(e.data['fa'], 0), kind='precall',
                    backends=('smt', 'icp'), box=dict(box, n=(1, 1)),
                    function='copulas.bivariate.base.Bivariate.percent_point',
                    clause='brentq precondition f(EPSILON) <= 0, i.e. partial_derivative(EPSILON, v) <= y',
                    replay=ppf_replay(fam))
            ob.max_boxes = 400000 if chk.tier == 'thorough' else 150000
            ob.extended = True
            chk.add(ob)
            # f(1) = h(1, v) - y = 1 - y  (identity, CAS)  and  1 - y >= 0  (trivial)
            def run_hi(fb=e.data['fb'], pc=hy, fam=fam, thbox=thbox):
                syms, th, u, v = biv.sym_env(fam)
                mm = biv.eqs_of(pc)
                lhs = biv.to_sp(ir.substitute(fb, mm) if mm else fb, syms)
                d_ = {u: (float(LO), float(HI)), v: (float(LO), float(HI))}
                if TH not in mm:
                    d_[th] = thbox
                accept, seeds = biv.on_path(pc)
                sub = {v: sp.exp(-sp.Symbol('q', positive=True))} if fam == 'gumbel' else None
                return biv.with_eqs(cas.identity(lhs, 1 - u, d_, subs=sub, accept=accept, seeds=seeds, samples=16), mm)
            chk.add(Ob(P + '.%s.ppf.brentq.bracket_hi' % fam, hy, ir.eq(e.data['fb'], ir.sub(1, Y)), kind='precall',
                       backends=('smt', 'cas'), cas=run_hi,
                       function='copulas.bivariate.base.Bivariate.percent_point',
                       clause='brentq precondition f(1) >= 0: partial_derivative(1, v) - y = 1 - y >= 0',
                       replay=ppf_replay(fam)))
            chk.add(Ob(P + '.%s.ppf.brentq.bracket_hi.sign' % fam, hy, ir.ge(ir.sub(1, Y), 0), kind='precall',
                       function='copulas.bivariate.base.Bivariate.percent_point', clause='1 - y >= 0'))
        elif r.outcome == 'raise':
            hy = list(r.pc)
            if fam == 'frank':
                # removable singularity of Frank's closed forms at theta = 0: interval arithmetic cannot resolve
                # 0/0, so the sliver 0 < |theta| < 0.01 is excluded here and reported as not covered
                hy.append(ir.or_(ir.ge(TH, ir.const(Fraction(1, 100))), ir.le(TH, ir.const(Fraction(-1, 100)))))
            ob = Ob(P + '.%s.ppf.no_exception.%s' % (fam, r.value.clsname), hy, ir.FALSE, kind='precall',
                    backends=('smt', 'icp'), box=dict(box, n=(1, 1)), function=cls + '.percent_point',
                    clause='returns u for every y, v in (0,1) [%s: %s]' % (r.value.clsname,
                                                                          str(r.value.args[:1])[:80]),
                    replay=ppf_replay(fam))
            ob.max_boxes = 400000 if chk.tier == 'thorough' else 120000
            ob.extended = True
            chk.add(ob)
        for o in r.obligations:
            chk.add(Ob(P + '.%s.ppf.%s' % (fam, o.name), o.hyps, o.goal, kind='safety', backends=('smt', 'icp'),
                       box=dict(box, n=(1, 1)), function=cls + '.percent_point', clause='formula defined',
                       where=o.where, replay=ppf_replay(fam)))
    Ps = returned(resP)
    if not Ps or not Hs:
        if not any(r.outcome == 'unsupported' for r in resP):
            chk.engine_error(P + '.%s: no returning path' % fam)
        return
    for j, rp in enumerate(Ps):
        r_t = biv.lane_term(rp.value)
        # frame: y and V must not be written
        for e in rp.events:
            if e.kind == 'mutate':
                chk.add(Ob(P + '.%s.ppf.frame.%s.%d' % (fam, e.data, j), e.pc, ir.FALSE, kind='frame',
                           function=cls + '.percent_point', clause='inputs not modified (shared with C20)'))
        # range
        chk.add(Ob(P + '.%s.ppf.range.%d' % (fam, j), rp.pc, ir.and_(ir.ge(r_t, 0), ir.le(r_t, 1)),
                   backends=('smt', 'icp'), box=dict(box, n=(1, 1)), function=cls + '.percent_point',
                   clause='percent_point(y, v) in [0, 1]', replay=ppf_replay(fam)))
        # inverse: h(r, v) == y   for every jointly feasible h path
        for b, rh in enumerate(Hs):
            pch, m = rename_reductions(rh.pc, 'h')
            pch = [p for p in pch if U not in ir.free_vars(p)]      # conditions on u are re-stated for u := r
            if not joint_feasible(rp.pc, pch):
                continue
            h_t = ir.substitute(ir.substitute(biv.lane_term(rh.value), m), {U: r_t})
            brentq = [e for e in rp.events if e.kind == 'brentq']
            if brentq:
                # modular step: brentq's ENSURES is in the path condition (f(root) == 0 for the closure that was
                # really passed); the closure itself must be  u |-> h(u, v) - y  (checked at an arbitrary probe)
                for e in brentq:
                    d = e.data
                    hx = ir.substitute(ir.substitute(biv.lane_term(rh.value), m), {U: d['probe']})
                    chk.add(Ob(P + '.%s.ppf.brentq.callback_is_h_minus_y.%d_%d' % (fam, j, b), rp.pc + pch,
                               ir.eq(d['f_probe'], ir.sub(hx, Y)), backends=('smt',),
                               function='copulas.bivariate.base.Bivariate.percent_point',
                               clause='the root search is run on u -> partial_derivative(u, v[i]) - y[i] '
                                      '(element-wise: only lane i enters)', replay=ppf_replay(fam)))
                    chk.add(Ob(P + '.%s.ppf.brentq.bracket_in_unit.%d_%d' % (fam, j, b), rp.pc,
                               ir.and_(ir.ge(d['a'], 0), ir.le(d['b'], 1), ir.lt(d['a'], d['b'])),
                               function='copulas.bivariate.base.Bivariate.percent_point',
                               clause='search bracket inside [0,1]'))
                chk.add(Ob(P + '.%s.ppf.inverse.%d_%d' % (fam, j, b), rp.pc + pch, ir.eq(h_t, Y), backends=('smt',),
                           function=cls + '.percent_point', clause='partial_derivative(percent_point(y,v), v) = y',
                           replay=ppf_replay(fam)))
            else:
                subs = biv.eqs_of(rp.pc + pch)

                def run(h_t=h_t, subs=subs, pc=rp.pc + pch, fam=fam, F=F, thbox=thbox):
                    syms, th, u, v = biv.sym_env(fam)
                    mm = dict(subs)
                    lhs = biv.to_sp(ir.substitute(h_t, mm) if mm else h_t, syms)
                    d_ = {u: (float(LO), float(HI)), v: (float(LO), float(HI))}
                    if TH not in mm:
                        d_[th] = thbox
                    accept, seeds = biv.on_path(pc)
                    return biv.with_eqs(cas.identity(lhs, u, d_, accept=accept, seeds=seeds, samples=24), mm)
                chk.add(Ob(P + '.%s.ppf.inverse.%d_%d' % (fam, j, b), rp.pc + pch, ir.eq(h_t, Y),
                           backends=('smt', 'cas'), cas=run, function=cls + '.percent_point',
                           clause='partial_derivative(percent_point(y,v), v) = y', replay=ppf_replay(fam)))
                # closed form: non-decreasing in y
                dr = _diff_ir(r_t, Y)
                ob = Ob(P + '.%s.ppf.monotone_in_y.%d' % (fam, j), rp.pc, ir.ge(dr, 0), backends=('smt', 'icp'),
                        box=dict(box, n=(1, 1)), function=cls + '.percent_point',
                        clause='percent_point non-decreasing in y (d/dy >= 0)')
                ob.max_boxes = 100000
                chk.add(ob)
        if j == 0:
            chk.add(Ob(P + '.%s.canary.ppf_is_v_plus_2' % fam, rp.pc, ir.eq(r_t, ir.add(V, 2)), canary=True, backends=('smt',)))
    # rows independent: result for lane i must not depend on the adversarial reductions
    for (a, r1), (b, r2) in itertools.combinations(enumerate(Ps), 2):
        pc2, m = rename_reductions(r2.pc, 'o')
        if not joint_feasible(r1.pc, pc2):
            continue
        t2 = ir.substitute(biv.lane_term(r2.value), m)
        if any(e.kind == 'brentq' for e in r1.events + r2.events):
            continue      # two different fresh roots: uniqueness of the root is not claimed
        chk.add(Ob(P + '.%s.ppf.rows_independent.%d_%d' % (fam, a, b), r1.pc + pc2,
                   ir.eq(biv.lane_term(r1.value), t2), function=cls + '.percent_point',
                   clause='i-th output depends only on (y[i], v[i])'))


def bounded_elementwise(chk):
    """BOUNDED native stand-in for the element-wise clause on floats (the proof treats the loop over the elements as a map
    and refuses a loop-carried dependence; whether a dependence that only shows in floating point changes results is outside
    the reals): every element of a random batch, computed inside the batch and alone, must agree"""
    import warnings
    import numpy as np
    warnings.simplefilter('ignore')
    import copulas.bivariate as cb
    from pyvc import report as report_mod
    n = 1500 if chk.tier == 'quick' else 20000
    rs = np.random.RandomState(20 + (chk.seed or 0))
    evals = 0
    for fam, cls, theta in (('frank', cb.Frank, 18.19), ('frank', cb.Frank, -18.19), ('gumbel', cb.Gumbel, 5.0),
                            ('gumbel', cb.Gumbel, 1.7), ('clayton', cb.Clayton, 8.0)):
        c = cls()
        c.theta, c.tau = theta, 0.5
        y = rs.uniform(2e-4, 1 - 1e-4, size=n)          # above the recorded Gumbel bracket finding (y, v <= 1.6e-4)
        v = rs.uniform(2e-4, 1 - 1e-4, size=n)
        # adjacent extremes: a root near 1 followed by a small v, a root near 0 followed by v near 1
        y[::50], v[::50] = 0.9, 0.999
        y[1::50], v[1::50] = 0.5, 0.01
        try:
            with report_mod.time_limit(240):
                batch = np.asarray(c.percent_point(y, v), dtype=float)
                idx = np.concatenate([np.arange(0, n, 50), np.arange(1, n, 50), rs.choice(n, size=min(n, 400), replace=False)])
                for i in idx:
                    alone = float(np.ravel(c.percent_point(y[i:i + 1], v[i:i + 1]))[0])
                    evals += 1
                    if not (abs(alone - batch[i]) <= 1e-9):
                        chk.bounded_violation('C08.%s.ppf.elementwise.bounded' % fam,
                                              {'family': fam, 'theta': theta, 'index': int(i), 'y': float(y[i]), 'v': float(v[i]),
                                               'previous': [float(y[i - 1]), float(v[i - 1])] if i else None},
                                              'percent_point of element %d is %.9g inside the batch and %.9g alone' %
                                              (i, batch[i], alone))
                        break
                # the same batch handed over in other one-dimensional containers: a list, a strided view, and pandas Series
                # whose index is not 0..n-1 (the columns of a re-ordered frame) - positions, not labels, pair y with v
                import pandas as pd
                k = 120
                perm = rs.permutation(k)
                yy, vv = y[:k], v[:k]
                forms = {'list': (list(yy), list(vv)),
                         'strided view': (np.repeat(yy, 2)[::2], np.repeat(vv, 2)[::2]),
                         'Series with a shuffled index': (pd.Series(yy, index=perm), pd.Series(vv, index=perm)),
                         'Series with a shifted index': (pd.Series(yy, index=np.arange(5, k + 5)), pd.Series(vv, index=np.arange(5, k + 5)))}
                for form, (ya, va) in forms.items():
                    evals += k
                    try:
                        got = np.asarray(c.percent_point(ya, va), dtype=float)
                        okf = got.shape == (k,) and np.allclose(got, batch[:k], rtol=0, atol=1e-9)
                        detail = 'max difference %.3g' % float(np.abs(got - batch[:k]).max()) if got.shape == (k,) else 'shape %r' % (got.shape,)
                    except Exception as e:      # noqa
                        okf, detail = False, '%s: %s' % (type(e).__name__, str(e)[:80])
                    if not okf:
                        chk.bounded_violation('C08.%s.ppf.containers.bounded' % fam,
                                              {'family': fam, 'theta': theta, 'container': form, 'n': k},
                                              'percent_point(y, v) given as %s differs from the same values given as ndarrays (%s)'
                                              % (form, detail))
                        break
        except report_mod.NativeTimeout:
            pass
        except Exception as e:      # noqa
            chk.notes.append('bounded element-wise run of %s: %s: %s' % (fam, type(e).__name__, str(e)[:80]))
    chk.bounded.append({'name': 'C08.ppf.containers.bounded', 'clause': 'element i of the result pairs y[i] with v[i] by position, '
                        'whatever one-dimensional container the two arguments come in',
                        'bound': '120 values as list / strided view / Series with shuffled index / Series with shifted index, 5 '
                                 '(family, theta) pairs', 'evaluations': 5 * 4 * 120, 'distinct_nontrivial': 20,
                        'rule': 'one case = one (family, theta, container)'})
    chk.bounded.append({'name': 'C08.ppf.elementwise.bounded', 'clause': 'each element independently of the others (floats)',
                        'bound': 'batches of %d random (y, v) in [2e-4, 1-1e-4]^2 with adjacent extreme elements, 5 (family, theta) '
                                 'pairs; elements recomputed alone: the 2 x %d planted ones and 400 random ones' % (n, n // 50),
                        'evaluations': evals, 'distinct_nontrivial': evals, 'rule': 'one case = one element recomputed alone'})


def build(chk):
    I0 = engine.new_interp()
    src = I0.source
    dom = ir.and_(ir.ge(U, ir.const(LO)), ir.le(U, ir.const(HI)), ir.ge(V, ir.const(LO)), ir.le(V, ir.const(HI)))
    chk.under_contract(src, ['copulas.bivariate.base.Bivariate.percent_point',
                             'copulas.bivariate.base.Bivariate.partial_derivative_scalar',
                             'copulas.bivariate.base.Bivariate.check_fit'])
    for fam, F in FAMILIES.items():
        cls = F['cls']
        thbox = tuple(float(x) for x in F['box'])
        if fam == 'clayton':
            thbox = (1e-3, 8.0)
        box = {'theta': thbox, 'u@i': (float(LO), float(HI)), 'v@i': (float(LO), float(HI))}
        chk.under_contract(src, [cls + '.percent_point', cls + '.partial_derivative'])
        # the function to invert: summary of partial_derivative for a generic (u, v)
        _, resH, _ = biv.run_method(fam, 'partial_derivative', open_at_one=True, safety=False, havoc=False)
        Hs = returned(resH)
        _, resP, ctxP = biv.run_method(fam, 'percent_point', args='yV', extra_req=[dom])
        ppf_obligations(chk, 'C08', fam, F, resP, Hs, box, thbox)
    bounded_elementwise(chk)
    chk.lemmas += ['L4 (cited)']
    chk.assumptions += [
        'reals, not floats; brentq tolerance (xtol = 2e-12) neglected: its contract returns an exact root',
        'domain: theta in the family range, (y, v) in [1e-4, 1-1e-4]^2, vectors of any length; arbitrary object state',
        'Frank/Gumbel: h(., v) is continuous on [EPSILON, 1] (closed forms with non-vanishing denominators, C07 safety '
        'obligations) - needed by the brentq contract',
    ]
    chk.not_addressed += [
        {'clause': 'Frank brentq bracket for 0 < |theta| < 0.01', 'reason': 'removable singularity of the closed form at '
         'theta = 0 (0/0): the bracket obligation is proved by interval branch-and-bound for 0.01 <= |theta| <= 18.2 only'},
        {'clause': 'non-decreasing in y for Frank and Gumbel', 'reason': 'follows from h non-decreasing in u (C07) by the '
         'cited lemma on inverses; no separate obligation'},
    ]
