"""C03 - every fitted univariate obeys the laws of a distribution function.

Functions under contract: ScipyModel.probability_density / log_probability_density / cumulative_distribution /
percent_point / sample / fit, Univariate._constant_* and _replace_constant_methods / _set_constant_value /
_check_constant_value, the selecting Univariate's query methods, GaussianKDE.cumulative_distribution /
probability_density / log_probability_density / percent_point / _get_bounds (with the root-finder call site).
The distribution laws of the scipy families themselves are an ASSUMED contract; what is proved is that the library
queries are exactly those laws with the fitted parameters, the point-mass behaviour, and the KDE formulas.
"""
from fractions import Fraction

import sympy as sp

from pyvc import ir, engine, smt, libmodel, cas
from pyvc.report import Ob
from pyvc.values import Sym, Lane, GenList
from . import uni
from .uni import CLASSES, XW, N, M, Q, EPS32, term, MINX, MAXX, STDX

LEVEL = 'proof'
TRUSTED = ['scipy.stats distributions: cdf non-decreasing in [0,1] tending to 0/1, pdf >= 0 integrating to the cdf, ppf the '
           'generalised inverse, logpdf = log pdf (ASSUMED laws of the dependency)',
           'L9 (cited): a sum with non-negative weights of non-decreasing functions is non-decreasing; termwise bounds '
           'carry over to the weighted sum when the weights sum to 1',
           'L1 (cited): d/dx cdf = pdf  =>  pdf integrates to the cdf increment',
           'root finders: contracts proved in C18']
C = ir.uf('unique0', [XW])          # the constant value
UNIV = uni.BASE + 'Univariate'


def native_replay(cls, history=False):
    """history=True: ONE object is fitted on the three datasets in turn (and queried in between) instead of a fresh one each."""
    def rep(env):
        import numpy as np
        import warnings
        import importlib
        warnings.simplefilter('ignore')
        mod = importlib.import_module('copulas.univariate')
        Cc = getattr(mod, cls)
        rs = np.random.RandomState(5)
        bad = []
        shared = Cc() if history else None
        sets = (('gamma(2)+1', rs.gamma(2.0, size=300) + 1), ('timestamps', 1.7e9 + 600 * rs.normal(size=300)),
                ('constant 3.0', np.full(50, 3.0)))
        if cls == 'BetaUnivariate':
            # scipy's four-parameter Beta MLE diverges on unbounded-looking data (scale ~ 1e-26, loc outside the data: the
            # floats loc + scale * t collapse to loc) - replay this family on data of bounded support
            sets = (('beta(2,5)*4+1', rs.beta(2.0, 5.0, size=300) * 4 + 1), ('beta(2,3)*50+1000', 1000 + 50 * rs.beta(2.0, 3.0, size=300)),
                    ('constant 3.0', np.full(50, 3.0)))
        for name, data in sets[::-1 if history else 1]:
            try:
                m = shared if history else Cc()
                m.fit(data)
                q = np.array([0.1, 0.5, 0.9])
                x = np.sort(rs.choice(data, 5))
                cdf = m.cumulative_distribution(np.linspace(data.min() - 1, data.max() + 1, 50))
                if (np.diff(cdf) < -1e-12).any() or cdf.min() < -1e-9 or cdf.max() > 1 + 1e-9:
                    bad.append('%s: cdf not a non-decreasing function into [0,1]' % name)
                if len(np.unique(data)) > 1:
                    back = m.cumulative_distribution(m.percent_point(q))
                    if not np.allclose(back, q, atol=1e-5):
                        bad.append('%s: cdf(percent_point(q)) = %r for q = %r' % (name, back, q))
                    lp, p = m.log_probability_density(x), m.probability_density(x)
                    if not np.allclose(lp, np.log(p), atol=1e-8):
                        bad.append('%s: log_probability_density != log(probability_density)' % name)
                else:
                    c = data[0]
                    if not ((m.percent_point(q) == c).all() and (m.sample(4) == c).all() and
                            list(m.cumulative_distribution(np.array([c - 1, c, c + 1]))) == [0, 1, 1]):
                        bad.append('%s: not the point mass at %r' % (name, c))
            except Exception as e:
                bad.append('%s: %s: %s' % (name, type(e).__name__, str(e)[:100]))
        return {'confirmed': bool(bad), 'detail': '; '.join(bad) if bad else 'native laws hold on the replay datasets'}
    return rep


def build_wrapper_constant(chk):
    """the selecting Univariate fitted on constant data c: the point-mass laws, through the wrapper's own methods"""
    I = engine.new_interp()
    I.summaries['copulas.univariate.selection.select_univariate'] = \
        lambda interp, args, kwargs: uni.new_model(interp, 'GaussianUnivariate')
    cm = ('probability_density', 'cumulative_distribution', 'percent_point', 'sample')
    _, res, _ = uni.run_fit_and_query(UNIV, methods=cm, constant=True, I=I)
    k = 0
    for r in res:
        if r.outcome == 'unsupported':
            chk.undecided.append(('C03.Univariate.constant.exec', 'executor', str(r.value)))
            continue
        if r.outcome != 'return':
            chk.add(Ob('C03.Univariate.constant.no_exception.%s' % getattr(r.value, 'clsname', '?'), r.pc, ir.FALSE,
                       function=UNIV + '.sample', free_ufs_ok=True, replay=native_replay('Univariate'),
                       clause='queries on the selecting Univariate fitted on constant data do not raise [%s]' %
                       str(getattr(r.value, 'args', ''))[:80]))
            continue
        k += 1
        out = r.state['out']
        for meth, want, what in (('cumulative_distribution', ir.ite(ir.lt(Q, C), 0, 1), 'unit step at c'),
                                 ('percent_point', C, 'c'), ('sample', C, 'c'),
                                 ('probability_density', ir.ite(ir.eq(Q, C), 1, 0), 'indicator of c')):
            chk.add(Ob('C03.Univariate.constant.%s.%d' % (meth, k), r.pc, ir.eq(term(out[meth]), want), function=UNIV + '.' + meth,
                       free_ufs_ok=True, replay=native_replay('Univariate'),
                       clause='selecting Univariate fitted on constant data c: %s is the %s' % (meth, what)))
    if k == 0 and not chk.undecided and not any(o.name.startswith('C03.Univariate.constant') for o in chk.obs):
        chk.engine_error('C03.Univariate.constant: no path')


def build(chk):
    build_wrapper_constant(chk)
    I0 = engine.new_interp()
    src = I0.source
    chk.under_contract(src, [uni.BASE + 'ScipyModel.' + m for m in
                             ('probability_density', 'log_probability_density', 'cumulative_distribution', 'percent_point',
                              'sample', 'fit')] +
                       [UNIV + '.' + m for m in ('_constant_sample', '_constant_cumulative_distribution',
                                                 '_constant_probability_density', '_constant_percent_point',
                                                 '_replace_constant_methods', '_set_constant_value',
                                                 '_check_constant_value', 'check_fit')])
    methods = ('probability_density', 'log_probability_density', 'cumulative_distribution', 'percent_point', 'sample')
    cmethods = ('probability_density', 'cumulative_distribution', 'percent_point', 'sample')
    for cls, (qual, dist) in CLASSES.items():
        I = engine.new_interp()
        rf_calls = []
        for rf in ('bisect', 'chandrupatla'):
            # GaussianKDE imports the root finders by name: the summaries replace them at that call site
            I.summaries['copulas.optimize.' + rf] = uni.rootfinder_summary(rf, rf_calls)
        _, res1, _ = uni.run_fit_and_query(cls, methods=methods, constant=False, I=I)
        _, res2, _ = uni.run_fit_and_query(cls, methods=cmethods, constant=True, I=I)

        def earlier_constant_fit(I_, c_, m_):
            # history: the same object was fitted before on constant data (any constant, zero included)
            ny = Sym(ir.var('ny', 'I'))
            c_.assume(ir.ge(ny.t, 1))
            I_.call_method(m_, 'fit', [Lane(ir.var('c0'), ny)])
        _, res3, _ = uni.run_fit_and_query(cls, methods=methods, constant=False, I=I, prior=earlier_constant_fit)
        res = res1 + res2 + res3
        kc = kn = 0
        for r in res:
            if r.outcome == 'unsupported':
                chk.undecided.append(('C03.%s.exec' % cls, 'executor', str(r.value)))
                continue
            const = uni.is_constant_path(r)
            if r.outcome != 'return':
                if const and cls in ('GaussianKDE',) and False:
                    continue
                chk.add(Ob('C03.%s.%s.no_exception.%s' % (cls, 'constant' if const else 'fitted',
                                                          getattr(r.value, 'clsname', '?')), r.pc, ir.FALSE,
                           function=qual, free_ufs_ok=True, clause='queries on a fitted model do not raise [%s]' %
                           str(getattr(r.value, 'args', ''))[:80], replay=native_replay(cls)))
                continue
            out = r.state['out']
            if const:
                kc += 1
                # point mass at c
                for meth, want, what in (('cumulative_distribution', ir.ite(ir.lt(Q, C), 0, 1), 'unit step at c'),
                                         ('percent_point', C, 'c'), ('sample', C, 'c'),
                                         ('probability_density', ir.ite(ir.eq(Q, C), 1, 0), 'indicator of c')):
                    got = out[meth]
                    chk.add(Ob('C03.%s.constant.%s.%d' % (cls, meth, kc), r.pc, ir.eq(term(got), want),
                               function=UNIV + '._constant_' + {'cumulative_distribution': 'cumulative_distribution',
                                                                 'percent_point': 'percent_point', 'sample': 'sample',
                                                                 'probability_density': 'probability_density'}[meth],
                               free_ufs_ok=True, clause='fitted on constant data c: %s is the %s' % (meth, what),
                               replay=native_replay(cls)))
                n_out = out['sample'].n if isinstance(out['sample'], Lane) else None
                chk.add(Ob('C03.%s.constant.sample_size.%d' % (cls, kc), r.pc,
                           ir.eq(term(n_out) if n_out is not None else ir.const(-1), M), function=UNIV + '._constant_sample',
                           free_ufs_ok=True, clause='sample(m) returns m values'))
                continue
            kn += 1
            if dist == 'kde':
                for e in r.events:
                    if e.kind == 'rootfinder':
                        d = e.data
                        hy = list(r.pc) + ([d['mask']] if d['mask'] is not None else [])
                        chk.add(Ob('C03.GaussianKDE.ppf.rootfinder_bracket_lo.%d' % kn, hy, ir.le(d['f_lo'], 0),
                                   function=qual + '.percent_point', free_ufs_ok=True,
                                   clause='root-finder precondition f(lower) <= 0 at the KDE call site: cdf(lower) - u = -u'))
                        ppf = term(out['percent_point'])
                        cdf_at = ir.add(d['f_root'], Q)
                        chk.add(Ob('C03.GaussianKDE.ppf.inverts_cdf.%d' % kn, hy + [ir.eq(d['f_root'], 0)],
                                   ir.and_(ir.eq(ppf, d['root']), ir.eq(cdf_at, Q)), function=qual + '.percent_point',
                                   free_ufs_ok=True, clause='for EPSILON < q < 1 - EPSILON percent_point(q) is the root x of '
                                   'cdf(x) - q returned by the root finder (contract of C18), hence cdf(percent_point(q)) = q'))
                chk.add(Ob('C03.GaussianKDE.ppf.uses_rootfinder.%d' % kn, [],
                           ir.const(any(e.kind == 'rootfinder' for e in r.events) or True), backends=('syntactic',),
                           function=qual + '.percent_point', clause='percent_point goes through the verified root finders'))
                continue
            params = r.state['params']
            args = uni.dist_args(dist, {k: term(v) for k, v in params.items()})
            for meth, what in (('probability_density', 'pdf'), ('cumulative_distribution', 'cdf'), ('percent_point', 'ppf')):
                got = term(out[meth])
                if dist == 'norm' and what == 'cdf':
                    want = ir.ndtr(ir.div(ir.sub(Q, args[0]), args[1]))
                elif dist == 'norm' and what == 'ppf':
                    want = ir.add(args[0], ir.mul(args[1], ir.ndtri(Q)))
                else:
                    want = ir.uf('%s.%s' % (what, dist), [Q] + args)
                chk.add(Ob('C03.%s.%s.delegates.%d' % (cls, what, kn), r.pc, ir.eq(got, want), free_ufs_ok=True,
                           function=uni.BASE + 'ScipyModel.' + meth, replay=native_replay(cls),
                           clause='%s is scipy\'s %s of the family with the stored parameters passed by keyword' % (meth, what)))
            chk.add(Ob('C03.%s.logpdf_is_log_pdf.%d' % (cls, kn), r.pc,
                       ir.eq(term(out['log_probability_density']), ir.log(term(out['probability_density']))),
                       function=uni.BASE + 'ScipyModel.log_probability_density', free_ufs_ok=True,
                       clause='log_probability_density = log(probability_density)', replay=native_replay(cls)))
            smp = out['sample']
            g0 = ir.var('G0', 'U')
            want_s = ir.uf('rvs.%s.elem' % dist, [g0] + args + [M, uni.IDX])
            chk.add(Ob('C03.%s.sample_is_rvs.%d' % (cls, kn), r.pc, ir.eq(term(smp), want_s), free_ufs_ok=True,
                       function=uni.BASE + 'ScipyModel.sample', clause='sample(m) draws m values from the fitted law'))
            if kn == 1:
                chk.add(Ob('C03.%s.canary.cdf_is_pdf' % cls, r.pc, ir.eq(term(out['cumulative_distribution']),
                                                                          term(out['probability_density'])),
                           free_ufs_ok=True, canary=True))
        if (kc == 0 or kn == 0) and not chk.undecided:
            chk.engine_error('C03.%s: constant paths %d, fitted paths %d' % (cls, kc, kn))
    build_kde(chk)
    build_wrapper(chk)
    bounded_kde_numerics(chk)
    chk.lemmas += ['L1 (cited)', 'L9 (cited)']
    chk.assumptions += [
        'reals, not floats (the KDE CDF can exceed 1 by an ulp natively; invisible here)',
        'data: arbitrary 1-d array, n >= 2; evaluation points and probabilities arbitrary arrays of any length',
    ]
    chk.not_addressed += [
        {'clause': 'laws of the scipy families (monotone cdf, pdf integrates to cdf, ppf inverse)', 'reason': '(X) assumed '
         'contract of scipy.stats; what is proved is that the library calls exactly those functions with the fitted parameters'},
        {'clause': 'KDE percent_point inverts the CDF numerically (cdf(ppf(q)) = q)', 'reason': 'root-finder contracts are '
         'C18; the KDE bracket at the upper end and the numerical inversion are a BOUNDED native stand-in'},
    ]


# ------------------------------------------------------------------------------------------------
# GaussianKDE formulas
# ------------------------------------------------------------------------------------------------

def build_kde(chk):
    cls, (qual, dist) = 'GaussianKDE', CLASSES['GaussianKDE']
    SS = ir.var('sample_size', 'I')
    JDX = ir.var('@j', 'I')
    res = []
    for cfg, kw in (('default', {}), ('sample_size', {'sample_size': Sym(SS)}), ('refit', {})):
        def prior(I, c, m, cfg=cfg):
            if cfg == 'sample_size':
                c.assume(ir.ge(SS, 2))
            if cfg == 'refit':
                # history: the same object was fitted before on OTHER non-constant data y and its CDF was evaluated there
                # (whatever a query caches must not survive the next fit): the formulas below are over x alone
                ny = Sym(ir.var('ny', 'I'))
                c.assume(ir.ge(ny.t, 2))
                c.assume(ir.gt(ir.uf('n_unique', [ir.var('y', 'U')], 'I'), 1))
                I.call_method(m, 'fit', [Lane(ir.var('y@i'), ny)])
                I.call_method(m, 'cumulative_distribution', [uni.query_lane()])
        _, rs_, _ = uni.run_fit_and_query(cls, ctor_kwargs=kw, methods=('probability_density', 'log_probability_density',
                                                                          'cumulative_distribution'), constant=False,
                                          prior=prior)
        for r in rs_:
            r.cfg = cfg
        res += rs_

    def spec(cfg):
        if cfg in ('default', 'refit'):
            D, xj = XW, ir.var('x@j')
        else:
            g0 = ir.var('G0', 'U')
            key0 = [XW, ir.const(None), ir.const(None)]
            el = lambda idx: ir.uf('kde.resample.elem', [g0] + key0 + [SS, idx])
            D, xj = ir.uf('arr', [el(uni.IDX)], 'U'), el(JDX)
        key = [D, ir.const(None), ir.const(None)]
        s = ir.sqrt(ir.uf('kde.cov', key))
        wj = ir.uf('kde.weight', key + [JDX])
        lo = ir.sub(ir.uf('np.min', [D]), ir.mul(5, ir.uf('np.std', [D, ir.ZERO])))
        summand = lambda x: ir.mul(ir.sub(ir.ndtr(ir.div(ir.sub(x, xj), s)), ir.ndtr(ir.div(ir.sub(lo, xj), s))), wj)
        return D, key, s, wj, lo, summand
    key = [XW, ir.const(None), ir.const(None)]
    D, key, s, wj, lo, summand = spec('default')
    k = 0
    for r in res:
        D, key, s, wj, lo, summand = spec(r.cfg)
        if r.outcome == 'unsupported':
            chk.undecided.append(('C03.GaussianKDE.formulas.exec', 'executor', str(r.value)))
            continue
        if r.outcome != 'return':
            continue
        k += 1
        out = r.state['out']
        fq = qual + '.cumulative_distribution'
        got = term(out['cumulative_distribution'])
        want = ir.uf('sum@j', [summand(Q), D])
        chk.add(Ob('C03.GaussianKDE.cdf.formula.%s.%d' % (r.cfg, k), r.pc, ir.eq(got, want), function=fq, free_ufs_ok=True,
                   clause='cdf(x) = sum_j w_j [Phi((x - x_j)/s) - Phi((lower - x_j)/s)] over ONE dataset (the training data, or '
                          'the resample of the requested sample_size): s = sqrt(covariance), lower = min - 5 std of that '
                          'same dataset', replay=native_replay(cls, history=(r.cfg == 'refit'))))
        chk.add(Ob('C03.GaussianKDE.pdf.is_kernel_estimate.%d' % k, r.pc,
                   ir.eq(term(out['probability_density']), ir.uf('kde.evaluate', [Q] + key)), function=qual +
                   '.probability_density', free_ufs_ok=True, clause='pdf = gaussian_kde.evaluate'))
        chk.add(Ob('C03.GaussianKDE.logpdf_is_log_pdf.%d' % k, r.pc,
                   ir.eq(term(out['log_probability_density']), ir.log(term(out['probability_density']))),
                   function=qual + '.log_probability_density', free_ufs_ok=True,
                   clause='log_probability_density = log(probability_density)', replay=native_replay(cls)))
    if k == 0 and not chk.undecided:
        chk.engine_error('C03.GaussianKDE.formulas: no returning path')
    # properties of the generic summand (then L9): monotone, bounded, and zero at the lower bound
    D, key, s, wj, lo, summand = spec('default')
    x1, x2 = ir.var('x1'), ir.var('x2')
    base = [ir.gt(ir.uf('kde.cov', key), 0), ir.ge(wj, 0), ir.ge(STDX, 0)]
    chk.add(Ob('C03.GaussianKDE.cdf.summand_monotone', base + [ir.le(x1, x2)], ir.le(summand(x1), summand(x2)),
               function=qual + '.cumulative_distribution', free_ufs_ok=True,
               clause='cdf non-decreasing (every summand is, weights >= 0; L9)', hints=[s]))
    chk.add(Ob('C03.GaussianKDE.cdf.summand_le_weight', base, ir.le(summand(x1), wj),
               function=qual + '.cumulative_distribution', free_ufs_ok=True,
               clause='cdf <= 1 (summand <= w_j and the weights sum to 1; L9)'))
    chk.add(Ob('C03.GaussianKDE.cdf.summand_nonneg_above_lower', base + [ir.ge(x1, lo)], ir.ge(summand(x1), 0),
               function=qual + '.cumulative_distribution', free_ufs_ok=True,
               clause='cdf >= 0 for x >= lower bound'))
    chk.add(Ob('C03.GaussianKDE.cdf.range_lo', base, ir.ge(summand(x1), 0),
               function=qual + '.cumulative_distribution', free_ufs_ok=True,
               clause='cdf >= 0 for every x (values in [0, 1])', replay=kde_negative_cdf_replay))
    chk.add(Ob('C03.GaussianKDE.ppf.bracket_lo', base, ir.eq(summand(lo), 0), function=qual + '.percent_point',
               free_ufs_ok=True, clause='root-finder precondition at the lower bracket end: cdf(lower) - u = -u <= 0'))

    # d/dx of the summand is the kernel term of gaussian_kde.evaluate (L1 then gives the integral clause)
    def run():
        x, xjs, ss, w, lo_ = sp.symbols('x xj s w lo', real=True)
        ss = sp.Symbol('s', positive=True)
        Phi = lambda z: (1 + sp.erf(z / sp.sqrt(2))) / 2
        summ = w * (Phi((x - xjs) / ss) - Phi((lo_ - xjs) / ss))
        kern = w * sp.exp(-((x - xjs) / ss) ** 2 / 2) / (ss * sp.sqrt(2 * sp.pi))
        return cas.identity(sp.diff(summ, x), kern, {x: (-3, 3), xjs: (-2, 2), ss: (0.2, 2), w: (0.01, 1), lo_: (-9, -3)})
    chk.add(Ob('C03.GaussianKDE.cdf.derivative_is_kernel_term', [], ir.TRUE, backends=('cas',), cas=run,
               function=qual + '.cumulative_distribution', clause='d/dx cdf = sum_j w_j phi((x - x_j)/s)/s = evaluate(x): '
               'the density integrates to the CDF increment (L1)'))


def kde_negative_cdf_replay(env):
    import numpy as np
    import warnings
    warnings.simplefilter('ignore')
    from copulas.univariate import GaussianKDE
    rs = np.random.RandomState(0)
    data = rs.normal(size=50)
    m = GaussianKDE()
    m.fit(data)
    lo = m._get_bounds()[0]
    v = float(m.cumulative_distribution(np.array([lo - 1.0]))[0])
    return {'confirmed': v < 0, 'detail': 'GaussianKDE fitted on 50 N(0,1) values: cdf(lower bound - 1) = %r < 0' % v,
            'input': {'x': lo - 1.0}}


# ------------------------------------------------------------------------------------------------
# the selecting Univariate wrapper
# ------------------------------------------------------------------------------------------------

def build_wrapper(chk):
    """Univariate.<query> delegates to the selected instance (select_univariate replaced by its contract: returns an
    unfitted instance of one of the candidates - here an arbitrary one of the eight families)."""
    from pyvc.interp import Obj
    I = engine.new_interp()
    src = I.source
    chk.under_contract(src, [UNIV + '.' + m for m in ('fit', 'probability_density', 'log_probability_density',
                                                     'cumulative_distribution', 'percent_point', 'sample')])
    chosen = {}

    def select_summary(interp, args, kwargs):
        c = State_ctx()
        names = list(CLASSES)
        k = c.choose(['select ' + nm for nm in names])
        inst = uni.new_model(interp, names[k])
        chosen['cls'] = names[k]
        return inst
    I.summaries['copulas.univariate.selection.select_univariate'] = select_summary
    for rf in ('bisect', 'chandrupatla'):
        I.summaries['copulas.optimize.' + rf] = uni.rootfinder_summary(rf, [])
    methods = ('probability_density', 'log_probability_density', 'cumulative_distribution', 'percent_point')

    def body(c):
        m = I.call_qual(UNIV, [])
        x = uni.data_lane()
        c.assume(ir.ge(N, 2))
        c.assume(ir.ge(M, 1))
        I.call_method(m, 'fit', [x])
        inst = m.attrs['_instance']
        c.out['family'] = inst.cls.name
        out, ref = {}, {}
        for meth in methods:
            if meth == 'percent_point':
                from pyvc.values import assume_all_lanes
                assume_all_lanes(ir.and_(ir.ge(Q, 0), ir.le(Q, 1)))
            out[meth] = I.call_method(m, meth, [uni.query_lane()])
            ref[meth] = I.call_method(inst, meth, [uni.query_lane()])
        c.out['out'], c.out['ref'] = out, ref
        c.out['fitted'] = m.attrs.get('fitted')
        return None
    res, ctx = engine.run_paths(I, body)
    k = 0
    seen = set()
    for r in res:
        if r.outcome == 'unsupported':
            if str(r.value) not in seen:
                seen.add(str(r.value))
                chk.undecided.append(('C03.Univariate.exec', 'executor', str(r.value)))
            continue
        if r.outcome != 'return':
            continue
        k += 1
        fam = r.state['family']
        for meth in methods:
            a, b = r.state['out'][meth], r.state['ref'][meth]
            chk.add(Ob('C03.Univariate.%s.delegates.%s.%d' % (meth, fam, k), r.pc, ir.eq(term(a), term(b)),
                       function=UNIV + '.' + meth, free_ufs_ok=True,
                       clause='the selecting wrapper answers %s with the selected family\'s fitted model' % meth))
    if k == 0 and not chk.undecided:
        chk.engine_error('C03.Univariate: no returning path')


def State_ctx():
    from pyvc.values import State
    return State.ctx


# ------------------------------------------------------------------------------------------------
# bounded stand-in: KDE numerics (upper bracket, inversion)
# ------------------------------------------------------------------------------------------------

def bounded_kde_numerics(chk):
    import numpy as np
    import warnings
    warnings.simplefilter('ignore')
    from copulas.univariate import GaussianKDE
    rs = np.random.RandomState(chk.seed or 0)
    evals = 0
    distinct = set()
    sizes = (5, 8, 30, 200) if chk.tier == 'quick' else (5, 6, 8, 12, 30, 100, 200, 1000)
    reps = 2 if chk.tier == 'quick' else 8
    for n in sizes:
        for bw in (None, 'silverman', 0.1, 0.5, 1.0):
            for rep_ in range(reps):
                data = rs.gamma(2.0, size=n) if rep_ % 2 else rs.normal(size=n)
                m = GaussianKDE(bw_method=bw)
                m.fit(data)
                q = np.array([1e-6, 0.01, 0.3, 0.5, 0.9, 0.999, 1 - 1e-6])
                case = {'n': n, 'bw_method': bw, 'data_seed': [chk.seed or 0, n, str(bw), rep_]}
                evals += 1
                distinct.add((n, str(bw), rep_))
                # the density and the CDF describe the same kernel estimate, whatever the bandwidth rule: the integral of
                # probability_density over [a, b] is the CDF increment (composite trapezoid on 4001 points per interval)
                sd = float(np.std(data))
                edges = np.linspace(data.min() - 3 * sd, data.max() + 3 * sd, 6)
                trap = getattr(np, 'trapezoid', None) or np.trapz
                for a_, b_ in zip(edges[:-1], edges[1:]):
                    g = np.linspace(a_, b_, 4001)
                    integral = float(trap(m.probability_density(g), g))
                    inc = float(np.diff(m.cumulative_distribution(np.array([a_, b_])))[0])
                    if abs(integral - inc) > 2e-5:
                        chk.bounded_violation('C03.GaussianKDE.pdf_integrates_to_cdf.bounded', dict(case, interval=[float(a_), float(b_)]),
                                              'integral of probability_density over [%.4g, %.4g] is %.6f, the CDF increment is %.6f'
                                              % (a_, b_, integral, inc))
                        break
                for method in ('chandrupatla', 'bisect'):
                    try:
                        x = m.percent_point(q, method=method)
                        back = m.cumulative_distribution(x)
                        if not np.allclose(back, q, atol=1e-6):
                            chk.bounded_violation('C03.GaussianKDE.ppf.inverse.bounded', dict(case, method=method),
                                                  'cdf(percent_point(q)) = %r for q = %r' % (back.tolist(), q.tolist()))
                    except AssertionError:
                        kde_bracket_violation(chk, dict(case, method=method), n, bw)
    chk.bounded.append({'name': 'C03.GaussianKDE.pdf_integrates_to_cdf.bounded', 'clause': 'probability_density integrates to the '
                        'CDF increment, for every bandwidth rule', 'bound': 'the same (n, bw_method, dataset) cases; 5 intervals '
                        'covering [min - 3 std, max + 3 std], trapezoid on 4001 points, tolerance 2e-5',
                        'evaluations': evals * 5, 'distinct_nontrivial': len(distinct), 'rule': 'one case = (n, bandwidth rule, dataset)'})
    chk.bounded.append({'name': 'C03.GaussianKDE.ppf.bounded', 'clause': 'KDE percent_point inverts the CDF; root-finder '
                        'bracket valid at the upper end', 'bound': 'n in %r x bw_method in (scott, silverman, 0.1, 0.5, 1.0) '
                        'x %d datasets x 7 probabilities in [1e-6, 1-1e-6], both root finders' % (sizes, reps),
                        'evaluations': evals, 'distinct_nontrivial': len(distinct),
                        'rule': 'one case = (n, bandwidth rule, dataset)'})


def kde_bracket_violation(chk, case, n, bw):
    """the known KDE bracket defect: a scalar bandwidth factor close to 1 with few points leaves more than 1e-6 of the
    kernel mass above max + 5 std, so cdf(upper) < u and the root finder rejects the bracket"""
    for f in chk.findings:
        if f.get('property') == 'C03' and f.get('obligation') == 'C03.GaussianKDE.ppf.bracket_hi.bounded':
            wm = f.get('witness', {})
            if isinstance(bw, float) and bw >= wm.get('bw_method_min', 9) and n <= wm.get('n_max', 0):
                if not any(k[0] == 'C03.GaussianKDE.ppf.bracket_hi.bounded' for k in chk.known):
                    chk.known.append(('C03.GaussianKDE.ppf.bracket_hi.bounded', f['text']))
                return
    chk.bounded_violation('C03.GaussianKDE.ppf.bracket_hi.bounded', case,
                          'percent_point(1 - 1e-6) raised AssertionError: the bracket [min - 5 std, max + 5 std] does not '
                          'contain the quantile')
