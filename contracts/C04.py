"""C04 - marginal fitting: closed-form estimators, parameter plumbing, truncation bounds, KDE construction.

Functions under contract: ScipyModel.fit, Univariate._check_constant_value, the eight _fit methods,
TruncatedGaussian.__init__/_fit (with its closure nnlf), GaussianKDE.__init__/_fit/_get_model/probability_density.
scipy's fit / fmin_slsqp / gaussian_kde are assumed contracts; the statistical closeness (DKW band) is not addressed.
"""
from fractions import Fraction

from pyvc import ir, engine, smt, libmodel
from pyvc.report import Ob
from pyvc.values import Sym, Lane
from . import uni
from .uni import CLASSES, XW, MINX, MAXX, MEANX, STDX, N, M, Q, EPS32, term

LEVEL = 'proof'
TRUSTED = ['scipy.stats.<dist>.fit returns (shapes..., loc, scale) in that order (assumed); nothing about optimality',
           'scipy.optimize.fmin_slsqp returns a point inside the bounds (assumed)',
           'scipy.stats.gaussian_kde(dataset, bw_method, weights).evaluate is the weighted Gaussian kernel estimate with '
           'the bandwidth rule given (assumed)',
           'np.mean / np.std(ddof=0) / np.min / np.max are the mathematical functions of the whole array']


def native_fit_replay(cls):
    def rep(env):
        import numpy as np
        import warnings
        import importlib
        warnings.simplefilter('ignore')
        mod = importlib.import_module('copulas.univariate')
        C = getattr(mod, cls)
        rs = np.random.RandomState(3)
        bad = []
        for name, data in (('normal(5,2)', rs.normal(5, 2, 400)), ('shifted small-spread', 1000 + 1e-3 * rs.normal(size=400)),
                           ('uniform(0,10)', rs.uniform(0, 10, 400))):
            m = C()
            m.fit(data)
            p = m._params
            if cls == 'GaussianUnivariate' and not (np.isclose(p['loc'], data.mean()) and np.isclose(p['scale'], data.std())):
                bad.append('%s: params %r, mean %r, population std %r' % (name, p, data.mean(), data.std()))
            if cls == 'UniformUnivariate' and not (p['loc'] == data.min() and np.isclose(p['scale'], data.max() - data.min())):
                bad.append('%s: params %r, min %r, range %r' % (name, p, data.min(), data.max() - data.min()))
        if cls == 'TruncatedGaussian':
            for lo, hi in ((0.0, 12.0), (-3.0, 20.0)):
                data = rs.uniform(2, 9, 300)
                m = C(minimum=lo, maximum=hi)
                m.fit(data)
                p = m._params
                smin, smax = p['loc'] + p['a'] * p['scale'], p['loc'] + p['b'] * p['scale']
                if not (np.isclose(smin, lo) and np.isclose(smax, hi)):
                    bad.append('bounds (%r, %r) not honoured: fitted support [%r, %r]' % (lo, hi, smin, smax))
        if cls == 'GaussianKDE':
            from scipy.stats import gaussian_kde
            data = rs.gamma(2.0, size=300)
            for bw in (None, 'silverman', 0.3):
                m = C(bw_method=bw)
                m.fit(data)
                ref = gaussian_kde(data, bw_method=bw)
                x = np.linspace(data.min(), data.max(), 7)
                if not np.allclose(m.probability_density(x), ref.evaluate(x)):
                    bad.append('bw_method=%r: density differs from the kernel estimate' % (bw,))
                # with sample_size: the kernel estimate of the stored resample, under the REQUESTED bandwidth rule
                m = C(sample_size=150, bw_method=bw)
                m.fit(data)
                stored = np.asarray(m._params['dataset'], dtype=float).ravel()
                ref = gaussian_kde(stored, bw_method=bw)
                if len(stored) != 150 or not np.allclose(m.probability_density(x), ref.evaluate(x)):
                    bad.append('sample_size=150, bw_method=%r: density differs from the kernel estimate of the %d stored '
                               'points under that rule' % (bw, len(stored)))
        return {'confirmed': bool(bad), 'detail': '; '.join(bad) if bad else 'native fits agree with the contract'}
    return rep


def kde_alias_replay(env):
    import warnings
    import numpy as np
    warnings.simplefilter('ignore')
    from copulas.univariate import GaussianKDE
    rs = np.random.RandomState(2)
    X = rs.normal(3.0, 1.0, size=200)
    m = GaussianKDE()
    m.fit(X)
    q = np.array([2.0, 3.0, 4.0])
    before = m.probability_density(q).copy()
    X[:] = rs.normal(30.0, 1.0, size=200)            # the caller re-uses its buffer
    after = m.probability_density(q)
    bad = [] if np.allclose(before, after, rtol=1e-12) else [
        'GaussianKDE density at %r was %r after fit and is %r after the caller overwrote its own array' %
        (q.tolist(), np.round(before, 4).tolist(), np.round(after, 4).tolist())]
    return {'confirmed': bool(bad), 'detail': bad[0] if bad else 'the fitted KDE does not follow changes of the training array'}


def build(chk):
    I0 = engine.new_interp()
    src = I0.source
    chk.under_contract(src, [uni.BASE + 'ScipyModel.fit', uni.BASE + 'Univariate._check_constant_value',
                             uni.BASE + 'Univariate._set_constant_value'])
    for cls, (qual, dist) in CLASSES.items():
        chk.under_contract(src, [qual + '._fit'])
        if cls in ('TruncatedGaussian', 'GaussianKDE'):
            continue
        I, res, ctx = uni.run_fit_and_query(cls, methods=('probability_density', 'cumulative_distribution', 'percent_point'),
                                            constant=False)
        spec = uni.spec_params(cls)
        k = 0
        for r in res:
            if r.outcome == 'unsupported':
                chk.undecided.append(('C04.%s.exec' % cls, 'executor', str(r.value)))
                continue
            if r.outcome != 'return':
                chk.add(Ob('C04.%s.fit.no_exception.%s' % (cls, getattr(r.value, 'clsname', '?')), r.pc, ir.FALSE,
                           function=qual + '._fit', free_ufs_ok=True, clause='fit succeeds on non-constant data',
                           replay=native_fit_replay(cls)))
                continue
            k += 1
            params = r.state['params']
            ok_keys = isinstance(params, dict) and set(params) == set(spec)
            chk.add(Ob('C04.%s.fit.param_names.%d' % (cls, k), [], ir.const(bool(ok_keys)), backends=('syntactic',),
                       function=qual + '._fit', clause='fitted parameters are exactly %s' % sorted(spec),
                       replay=native_fit_replay(cls)))
            if not ok_keys:
                continue
            for name in sorted(spec):
                what = {'GaussianUnivariate': 'sample mean / population standard deviation (ddof=0)',
                        'UniformUnivariate': 'minimum / range'}.get(cls, 'the value scipy\'s fit returns for that '
                                                                    'parameter (shapes..., loc, scale order)')
                chk.add(Ob('C04.%s.fit.param.%s.%d' % (cls, name, k), r.pc, ir.eq(term(params[name]), spec[name]),
                           function=qual + '._fit', free_ufs_ok=True, clause='%s = %s' % (name, what),
                           replay=native_fit_replay(cls)))
            # the fitted law is the scipy distribution with exactly those parameters
            args = uni.dist_args(dist, spec)
            for meth, what in (('probability_density', 'pdf'), ('cumulative_distribution', 'cdf'), ('percent_point', 'ppf')):
                got = r.state['out'][meth]
                if dist == 'norm' and what == 'cdf':
                    want = ir.ndtr(ir.div(ir.sub(Q, args[0]), args[1]))
                elif dist == 'norm' and what == 'ppf':
                    want = ir.add(args[0], ir.mul(args[1], ir.ndtri(Q)))
                else:
                    want = ir.uf('%s.%s' % (what, dist), [Q] + args)
                chk.add(Ob('C04.%s.%s.is_scipy_law.%d' % (cls, what, k), r.pc, ir.eq(term(got), want),
                           function=uni.BASE + 'ScipyModel.' + meth, free_ufs_ok=True,
                           clause='%s(x) = scipy.stats.%s.%s(x, **fitted parameters)' % (meth, dist, what),
                           replay=native_fit_replay(cls)))
            for e in r.events:
                if e.kind == 'mutate':
                    chk.add(Ob('C04.%s.fit.frame.%s.%d' % (cls, e.data, k), e.pc, ir.FALSE, kind='frame', free_ufs_ok=True,
                               function=qual + '._fit', clause='training data not modified (shared with C20)'))
            if k == 1 and cls == 'GaussianUnivariate':
                chk.add(Ob('C04.canary.gaussian_scale_is_sample_std', r.pc,
                           ir.eq(term(params['scale']), ir.uf('np.std', [XW, ir.ONE])), free_ufs_ok=True, canary=True))
        if k == 0 and not chk.undecided:
            chk.engine_error('C04.%s: no returning path' % cls)
    build_truncated(chk)
    build_kde(chk)
    chk.assumptions += [
        'reals, not floats; whole-array functions (mean, std, min, max, scipy fit) are uninterpreted and deterministic',
        'data: arbitrary 1-d array with n >= 2 and at least two distinct values',
    ]
    chk.not_addressed += [
        {'clause': 'fitted CDF uniformly close to the generating CDF / empirical CDF (DKW band), >= 80% of datasets for '
                   'scipy-MLE families', 'reason': '(S) statistical consistency of the estimators; for Gaussian/Uniform it '
         'follows from the proved closed forms being the MLEs (cited)'},
        {'clause': 'bounded families never place mass outside their fitted support', 'reason': 'Uniform/Beta: property of '
         'the scipy distributions with the proved parameters (assumed contract); TruncatedGaussian: proved below'},
    ]


def build_truncated(chk):
    cls, (qual, dist) = 'TruncatedGaussian', CLASSES['TruncatedGaussian']
    LO, HI = ir.var('user_min'), ir.var('user_max')
    for cfg, kw in (('data_bounds', {}), ('user_bounds', {'minimum': Sym(LO), 'maximum': Sym(HI)}),
                    ('user_min_only', {'minimum': Sym(LO)})):
        I, res, ctx = uni.run_fit_and_query(cls, ctor_kwargs=kw, methods=('cumulative_distribution',), constant=False)
        k = 0
        for r in res:
            if r.outcome == 'unsupported':
                chk.undecided.append(('C04.TruncatedGaussian.%s.exec' % cfg, 'executor', str(r.value)))
                continue
            if r.outcome != 'return':
                continue
            k += 1
            p = r.state['params']
            lo = LO if 'minimum' in kw else ir.sub(MINX, ir.const(EPS32))
            hi = HI if 'maximum' in kw else ir.add(MAXX, ir.const(EPS32))
            a, b, loc, scale = [term(p[x]) for x in ('a', 'b', 'loc', 'scale')]
            hy = list(r.pc) + [ir.gt(scale, 0)]
            fq = qual + '._fit'
            chk.add(Ob('C04.TruncatedGaussian.%s.support_lower.%d' % (cfg, k), hy, ir.eq(ir.add(loc, ir.mul(a, scale)), lo),
                       function=fq, free_ufs_ok=True, replay=native_fit_replay(cls),
                       clause='fitted support starts at ' + ('the user-supplied minimum' if 'minimum' in kw else
                                                             'min(X) - EPSILON')))
            chk.add(Ob('C04.TruncatedGaussian.%s.support_upper.%d' % (cfg, k), hy, ir.eq(ir.add(loc, ir.mul(b, scale)), hi),
                       function=fq, free_ufs_ok=True, replay=native_fit_replay(cls),
                       clause='fitted support ends at ' + ('the user-supplied maximum' if 'maximum' in kw else
                                                           'max(X) + EPSILON')))
            sl = [e for e in r.events if e.kind == 'fmin_slsqp']
            chk.add(Ob('C04.TruncatedGaussian.%s.one_optimiser_call.%d' % (cfg, k), [], ir.const(len(sl) == 1),
                       backends=('syntactic',), function=fq, clause='parameters come from one bounded SLSQP run'))
            for e in sl[:1]:
                d = e.data
                pl, ps = d['probe']
                want_obj = ir.uf('nnlf.truncnorm', [ir.div(ir.sub(lo, pl), ps), ir.div(ir.sub(hi, pl), ps), pl, ps, XW])
                chk.add(Ob('C04.TruncatedGaussian.%s.objective.%d' % (cfg, k), r.pc, ir.eq(d['objective'], want_obj),
                           function=fq, free_ufs_ok=True,
                           clause='the optimised function is the truncated-normal negative log-likelihood with the '
                                  'truncation fixed at the bounds'))
                want_b = [lo, hi, ir.ZERO, ir.pow_(ir.sub(hi, lo), 2)]
                chk.add(Ob('C04.TruncatedGaussian.%s.bounds.%d' % (cfg, k), r.pc,
                           ir.and_(*[ir.eq(x, y) for x, y in zip(d['bounds'], want_b)]), function=fq, free_ufs_ok=True,
                           clause='SLSQP bounds are [(min, max), (0, (max-min)^2)]'))
                chk.add(Ob('C04.TruncatedGaussian.%s.start.%d' % (cfg, k), r.pc,
                           ir.and_(ir.eq(d['x0'][0], MEANX), ir.eq(d['x0'][1], STDX)), function=fq, free_ufs_ok=True,
                           clause='optimisation starts at (mean, std) of the data'))
            got = term(r.state['out']['cumulative_distribution'])
            want = ir.uf('cdf.truncnorm', [uni.Q, a, b, loc, scale])
            chk.add(Ob('C04.TruncatedGaussian.%s.cdf.is_scipy_law.%d' % (cfg, k), r.pc, ir.eq(got, want),
                       function=uni.BASE + 'ScipyModel.cumulative_distribution', free_ufs_ok=True,
                       clause='cdf(x) = truncnorm.cdf(x, a, b, loc, scale) with the fitted parameters'))
        if k == 0 and not chk.undecided:
            chk.engine_error('C04.TruncatedGaussian.%s: no returning path' % cfg)
    chk.assumptions.append('TruncatedGaussian support obligations assume the optimiser returns scale > 0 (SLSQP bound is '
                           'scale >= 0; scale = 0 would divide by zero)')


def build_kde(chk):
    cls, (qual, dist) = 'GaussianKDE', CLASSES['GaussianKDE']
    BW = ir.var('bw')
    W = Lane(ir.var('w@i'), Sym(N))
    SS = ir.var('sample_size', 'I')
    for cfg, kw in (('default', {}), ('bandwidth', {'bw_method': Sym(BW)}), ('weights', {'weights': W}),
                    ('sample_size', {'sample_size': Sym(SS), 'bw_method': Sym(BW)})):
        def prior(I, c, m, cfg=cfg):
            if cfg == 'sample_size':
                c.assume(ir.ge(SS, 2))           # a kernel estimate needs two points: scipy refuses a single one
        I, res, ctx = uni.run_fit_and_query(cls, ctor_kwargs=kw, methods=('probability_density',), constant=False,
                                            prior=prior)
        k = 0
        for r in res:
            if r.outcome == 'unsupported':
                chk.undecided.append(('C04.GaussianKDE.%s.exec' % cfg, 'executor', str(r.value)))
                continue
            if r.outcome != 'return':
                chk.add(Ob('C04.GaussianKDE.%s.no_exception.%s' % (cfg, getattr(r.value, 'clsname', '?')), r.pc, ir.FALSE,
                           function=qual + '._fit', free_ufs_ok=True, clause='fit succeeds'))
                continue
            k += 1
            bw = BW if 'bw_method' in kw else ir.const(None)
            wt = ir.var('w', 'U') if 'weights' in kw else ir.const(None)
            if cfg == 'sample_size':
                g0 = ir.var('G0', 'U')
                key0 = [XW, bw, wt]
                data = ir.uf('arr', [ir.uf('kde.resample.elem', [g0] + key0 + [SS, uni.IDX])], 'U')
            else:
                data = XW
            want = ir.uf('kde.evaluate', [uni.Q, data, bw, wt])
            got = term(r.state['out']['probability_density'])
            chk.add(Ob('C04.GaussianKDE.%s.density_is_kernel_estimate.%d' % (cfg, k), r.pc, ir.eq(got, want),
                       function=qual + '.probability_density', free_ufs_ok=True, replay=native_fit_replay(cls),
                       clause='density = gaussian_kde(%s, bw_method=requested, weights=requested).evaluate(x)' %
                              ('resample of the requested sample_size' if cfg == 'sample_size' else 'training data')))
            # the estimator must own its data: built from the caller's array itself it would follow later changes of it
            mdl = r.state['attrs'].get('_model')
            ds = getattr(mdl, 'ds', None)
            aliased = getattr(ds, 'owner', None) is not None
            chk.add(Ob('C04.GaussianKDE.%s.estimator_owns_its_data.%d' % (cfg, k), [], ir.const(not aliased),
                       backends=('syntactic',), function=qual + '._fit', replay=kde_alias_replay,
                       clause='the fitted kernel estimate is built from a private copy of the training data (the array handed to '
                              'fit is not kept inside the scipy estimator), so it stays the estimate of the data it was trained on'))
        if k == 0 and not chk.undecided:
            chk.engine_error('C04.GaussianKDE.%s: no returning path' % cfg)
