"""Shared contract machinery for GaussianMultivariate (C01, C02, C12, C13, C14, C15, C19, C20)."""
import itertools
from fractions import Fraction

from pyvc import ir, engine, smt, pdmodel, libmodel
from pyvc.values import Sym, Lane, Arr2, State
from pyvc.interp import Obj, PyList

GM = 'copulas.multivariate.gaussian.GaussianMultivariate'
N = ir.var('n', 'I')
K = ir.var('k', 'I')
EPS32 = Fraction(1, 2 ** 23)
EPS64 = Fraction(1, 2 ** 52)
NAMES = ['c', 'a', 'd', 'b', 'f', 'e']          # deliberately NOT in sorted order (label handling must not rely on it)


def colvar(label):
    return ir.var('x_%s@i' % label)


def colwhole(label):
    return ir.var('x_%s' % label, 'U')


def training_frame(labels, owner='X'):
    n = Sym(N)
    return pdmodel.Frame(labels, {l: Lane(colvar(l), n) for l in labels}, n, owner=owner)


def nunique(label):
    return ir.uf('n_unique', [colwhole(label)], 'I')


def fit_model(I, c, labels, distribution, constant=(), random_state=None, X=None, model=None):
    """fit GaussianMultivariate(distribution) on a symbolic table with the given labels; columns in `constant`
    are constant, the others have at least two distinct values. returns the model object."""
    kw = {'distribution': distribution} if distribution is not None else {}
    if random_state is not None:
        kw['random_state'] = random_state
    m = model if model is not None else I.call_qual(GM, [], kw)
    c.assume(ir.ge(N, 2))
    for l in labels:
        c.assume(ir.eq(nunique(l), 1) if l in constant else ir.gt(nunique(l), 1))
    X = X if X is not None else training_frame(labels)
    I.call_method(m, 'fit', [X])
    return m


def install_rootfinders(I):
    from . import uni
    for rf in ('bisect', 'chandrupatla'):
        I.summaries['copulas.optimize.' + rf] = uni.rootfinder_summary(rf, [])


def marginal_cdf(I, m, i, lane):
    """F_i applied to a lane, through the fitted univariate's own (separately verified) cumulative_distribution"""
    u = m.attrs['univariates'][i]
    saved = State.safety
    State.safety = False
    try:
        return I.call_method(u, 'cdf', [lane])
    finally:
        State.safety = saved


def normal_score(F_t):
    lo, hi = ir.const(EPS32), ir.const(1 - EPS32)
    return ir.ndtri(ir.min_(ir.max_(F_t, lo), hi))


def spec_scores(I, m, labels, lanes=None):
    """z_i = Phi^-1(clip(F_i(x_i), EPS, 1-EPS)) for the training columns (or the given lanes)"""
    out = []
    for i, l in enumerate(labels):
        lane = lanes[i] if lanes is not None else Lane(colvar(l), Sym(N))
        F = marginal_cdf(I, m, i, lane)
        out.append(normal_score(F.t))
    return out


def arr_of(t):
    return ir.uf('arr', [t], 'U')
