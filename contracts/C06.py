"""C06 - Clayton, Frank and Gumbel CDFs are genuine Archimedean copulas.

Functions under contract: <Family>.cumulative_distribution, <Family>.generator, <Family>.probability_density (for the
2-increasing clause), Bivariate.check_fit/check_theta, split_matrix.
"""
import itertools

import sympy as sp

from pyvc import ir, engine, smt, cas
from pyvc.report import Ob
from . import biv
from .biv import TH, U, V, N, FAMILIES
from .C07 import returned, rename_reductions, joint_feasible, swap_uv, replay_numeric, fd_dudv

LEVEL = 'proof'
TRUSTED = [
    'L1 (cited, calculus): d2C/dudv = c >= 0 on the open square => every rectangle has C-volume >= 0; extended to '
    'the closed square by continuity and the proved margins',
    'L10 (cited, mean value theorem)',
    'sympy 1.14 simplification trusted for identities reduced to 0; mpmath.iv outward rounding trusted',
]


def cdf_replay(fam, expect, what):
    def rep(env):
        import numpy as np
        env = biv.model_floats(env)
        th, u, v = env.get('theta'), env.get('u@i', env.get('u')), env.get('v@i', env.get('v'))
        if th is None or u is None or v is None:
            return {'confirmed': False, 'detail': 'model lacks theta/u/v: %r' % (env,)}
        c = biv.native_copula(fam, th)
        outs = {}
        # alone, and inside a batch with an interior row (the generic-lane encoding covers both)
        for tag, X in (('alone', np.array([[u, v]])), ('batch', np.array([[u, v], [0.5, 0.5]]))):
            with np.errstate(all='ignore'):
                outs[tag] = float(np.ravel(c.cumulative_distribution(X))[0])
        want = expect(th, u, v)
        bad = [t for t, g in outs.items() if not (abs(g - want) <= 1e-9 * max(1, abs(want)))]
        return {'confirmed': bool(bad), 'detail': '%s.cumulative_distribution(theta=%r, [%r, %r]) = %r, %s = %r' %
                (fam, th, u, v, outs, what, want), 'input': {'theta': th, 'u': u, 'v': v}}
    return rep


def build(chk):
    I0 = engine.new_interp()
    src = I0.source
    for fam, F in FAMILIES.items():
        cls = F['cls']
        chk.under_contract(src, [cls + '.cumulative_distribution', cls + '.generator', cls + '.probability_density'])
        thbox = tuple(float(x) for x in F['box'])
        # ---- run A: reals, open at 0 (definedness obligations on), closed at 1 ------------------------------
        _, resA, _ = biv.run_method(fam, 'cumulative_distribution')
        biv.crosscheck(chk, fam, 'cumulative_distribution', resA)
        biv.int_theta_obs(chk, 'C06', fam, 'cumulative_distribution', 'cdf', resA)
        # ---- run B: the closed square including 0 (no definedness obligations: Gumbel uses log 0 = -inf) ----
        closed_safe = fam in ('clayton', 'frank')
        _, resB, _ = biv.run_method(fam, 'cumulative_distribution', closed_at_zero=True, safety=closed_safe)
        for tag, res in (('A', resA), ('B', resB)):
            for r in res:
                if r.outcome == 'unsupported':
                    chk.undecided.append(('C06.%s.cdf.exec' % fam, 'executor', str(r.value)))
                if r.outcome == 'raise':
                    chk.add(Ob('C06.%s.cdf.no_exception.%s.%s' % (fam, tag, r.value.clsname), r.pc, ir.FALSE,
                               kind='safety', function=cls, clause='defined for every valid parameter'))
                for o in r.obligations:
                    chk.add(Ob('C06.%s.cdf.%s.%s' % (fam, tag, o.name), o.hyps, o.goal, kind='safety', function=cls,
                               clause='formula defined', where=o.where,
                               replay=cdf_replay(fam, lambda th, u, v: 0.0 if (u == 0 or v == 0) else float('nan'),
                                                 'a finite value (0 on the lower boundary)')))
        As, Bs = returned(resA), returned(resB)
        if not (As and Bs):
            if not any(r.outcome == 'unsupported' for r in resA + resB):
                chk.engine_error('C06.%s: no returning path' % fam)
            continue
        # ---- margins -----------------------------------------------------------------------------------------
        for j, r in enumerate(As):
            c = biv.lane_term(r.value)
            chk.add(Ob('C06.%s.cdf.margin_v1.%d' % (fam, j), r.pc + [ir.eq(V, 1)], ir.eq(c, U), function=cls,
                       clause='C(u,1) = u', replay=cdf_replay(fam, lambda th, u, v: u, 'u')))
            chk.add(Ob('C06.%s.cdf.margin_u1.%d' % (fam, j), r.pc + [ir.eq(U, 1)], ir.eq(c, V), function=cls,
                       clause='C(1,v) = v', replay=cdf_replay(fam, lambda th, u, v: v, 'v')))
            if j == 0:
                chk.add(Ob('C06.%s.canary.margin_plus_1e-3' % fam, r.pc + [ir.eq(V, 1)],
                           ir.eq(c, ir.add(U, ir.const(0.001))), canary=True))
        for j, r in enumerate(Bs):
            c = biv.lane_term(r.value)
            for face, cond, box in (('u0', ir.eq(U, 0), {'u@i': (0, 0), 'v@i': (0, 1)}),
                                    ('v0', ir.eq(V, 0), {'u@i': (0, 1), 'v@i': (0, 0)})):
                ob = Ob('C06.%s.cdf.ground_%s.%d' % (fam, face, j), r.pc + [cond], ir.eq(c, 0),
                        backends=('smt', 'icp'), box=dict(box, theta=thbox, n=(1, 1)), function=cls,
                        clause='C(u,0) = C(0,v) = 0', replay=cdf_replay(fam, lambda th, u, v: 0.0, '0'))
                ob.extended = True
                ob.max_boxes = 20000
                chk.add(ob)
        # ---- symmetry ----------------------------------------------------------------------------------------
        for (a, r1), (b, r2) in itertools.product(enumerate(As), enumerate(As)):
            pc2 = [swap_uv(p, 't') for p in r2.pc]
            if not joint_feasible(r1.pc, pc2):
                continue
            chk.add(Ob('C06.%s.cdf.symmetric.%d_%d' % (fam, a, b), r1.pc + pc2,
                       ir.eq(biv.lane_term(r1.value), swap_uv(biv.lane_term(r2.value), 't')), function=cls,
                       clause='C(u,v) = C(v,u)'))
        # ---- rows independent --------------------------------------------------------------------------------
        for tag, rs in (('A', As), ('B', Bs)):
            for (a, r1), (b, r2) in itertools.combinations(enumerate(rs), 2):
                pc2, m = rename_reductions(r2.pc, 'o')
                if not joint_feasible(r1.pc, pc2):
                    continue
                chk.add(Ob('C06.%s.cdf.rows_independent.%s.%d_%d' % (fam, tag, a, b), r1.pc + pc2,
                           ir.eq(biv.lane_term(r1.value), ir.substitute(biv.lane_term(r2.value), m)), function=cls,
                           clause='each row evaluated independently of the other rows',
                           replay=cdf_replay(fam, lambda th, u, v: 0.0 if (u == 0 or v == 0) else float('nan'),
                                             'the value the row has on its own')))
        # ---- generator ---------------------------------------------------------------------------------------
        _, resG, _ = biv.run_method(fam, 'generator', args='t')
        biv.crosscheck(chk, fam, 'generator', resG, args='t')
        Gs = returned(resG)
        for r in resG:
            if r.outcome == 'unsupported':
                chk.undecided.append(('C06.%s.generator.exec' % fam, 'executor', str(r.value)))
            for o in r.obligations:
                if fam == 'gumbel' or True:
                    chk.add(Ob('C06.%s.generator.%s' % (fam, o.name), o.hyps, o.goal, kind='safety', function=cls,
                               clause='generator defined on (0,1]'))
        k = 0
        for (a, rg), (b, rc) in itertools.product(enumerate(Gs), enumerate(As)):
            pcc, m = rename_reductions(rc.pc, 'c')
            pcg = [p for p in rename_reductions(rg.pc, 'g')[0] if V not in ir.free_vars(p) and U not in ir.free_vars(p)]
            if not joint_feasible(pcc, pcg):
                continue
            phi = biv.lane_term(rg.value)                  # phi(t) with t = U
            ct = ir.substitute(biv.lane_term(rc.value), m)
            subs = biv.eqs_of(pcc + pcg)

            def run(phi=phi, ct=ct, subs=subs, pc=pcc + pcg + [ir.lt(U, 1), ir.lt(V, 1)], fam=fam, F=F):
                syms, th, u, v = biv.sym_env(fam)
                mm = dict(subs)
                ph = biv.to_sp(ir.substitute(phi, mm) if mm else phi, syms)
                C = biv.to_sp(ir.substitute(ct, mm) if mm else ct, syms)
                w = sp.Symbol('w', positive=True)
                lhs = ph.subs(u, w).subs(w, C)
                rhs = ph + ph.subs(u, v)
                dom = {u: (0.05, 0.95), v: (0.05, 0.95)}
                if TH not in mm:
                    dom[th] = (float(F['box'][0]) if fam != 'clayton' else 0.05, float(F['box'][1]))
                accept, seeds = biv.on_path(pc)
                return biv.with_eqs(cas.identity(lhs, rhs, dom, subs=biv.gumbel_subs(u, v) if fam == 'gumbel' else None,
                                                 accept=accept, seeds=seeds, samples=24), mm)
            chk.add(Ob('C06.%s.generator.archimedean.%d' % (fam, k), pcc + pcg, ir.TRUE, backends=('cas',), cas=run,
                       function=cls + '.generator', clause='generator(C(u,v)) = generator(u) + generator(v)',
                       replay=gen_replay(fam)))
            k += 1
        for j, rg in enumerate(Gs):
            phi = biv.lane_term(rg.value)
            chk.add(Ob('C06.%s.generator.zero_at_1.%d' % (fam, j), rg.pc + [ir.eq(U, 1)], ir.eq(phi, 0),
                       function=cls + '.generator', clause='generator(1) = 0'))
            # decreasing: phi'(t) <= 0 on (0,1)
            subs = biv.eqs_of(rg.pc)

            def rund(phi=phi, subs=subs, pc=rg.pc + [ir.lt(U, 1)]):
                # d phi/dt as an IR-independent sympy expression; its sign is decided by interval evaluation below
                raise NotImplementedError
            dphi = _diff_ir(phi, U)
            ob = Ob('C06.%s.generator.decreasing.%d' % (fam, j), rg.pc + [ir.lt(U, 1)], ir.le(dphi, 0),
                    backends=('smt', 'icp'), box={'theta': thbox if fam != 'clayton' else (0.01, 8.0),
                                                  'u@i': (1e-6, 1 - 1e-9), 'v@i': (0.5, 0.5), 'n': (1, 1)},
                    function=cls + '.generator', clause='generator decreasing (derivative <= 0 on (0,1))')
            ob.max_boxes = 100000
            chk.add(ob)
        # ---- 2-increasing: density = d2C/dudv and density >= 0 (then L1) ---------------------------------------
        _, resC, _ = biv.run_method(fam, 'cumulative_distribution', open_at_one=True)
        _, resD, _ = biv.run_method(fam, 'probability_density', open_at_one=True)
        Cs, Ds = returned(resC), returned(resD)
        k = 0
        for (a, rd), (b, rc) in itertools.product(enumerate(Ds), enumerate(Cs)):
            pc2, m = rename_reductions(rc.pc, 'c')
            if not joint_feasible(rd.pc, pc2):
                continue
            subs = biv.eqs_of(rd.pc)
            subs.update(biv.eqs_of(rc.pc))
            ct = ir.substitute(biv.lane_term(rc.value), m)

            def rhs2(syms, mm, ct=ct):
                e = biv.to_sp(ir.substitute(ct, mm) if mm else ct, syms)
                return sp.diff(e, syms['u@i'], syms['v@i'])
            chk.add(Ob('C06.%s.two_increasing.density_is_d2C.%d' % (fam, k), rd.pc + pc2, ir.TRUE, backends=('cas',),
                       cas=biv.cas_identity(fam, biv.lane_term(rd.value), rhs2, subs, 'pdf', rd.pc + pc2),
                       function=cls, clause='every rectangle has non-negative C-volume (via d2C/dudv)',
                       replay=replay_numeric(fam, 'probability_density', fd_dudv, 'finite-difference d2C/dudv')))
            k += 1
        for j, rd in enumerate(Ds):
            d = biv.lane_term(rd.value)
            ob = Ob('C06.%s.two_increasing.density_nonneg.%d' % (fam, j), rd.pc, ir.ge(d, 0), backends=('smt', 'icp'),
                    box={'theta': thbox, 'u@i': (1e-4, 1 - 1e-4), 'v@i': (1e-4, 1 - 1e-4)}, function=cls,
                    clause='every rectangle has non-negative C-volume (d2C/dudv >= 0)')
            ob.max_boxes = 60000
            chk.add(ob)
    # ---- lemma L2: Frechet-Hoeffding bounds from groundedness, margins and 2-increasingness (generic, z3) -------
    C = lambda a, b: ir.uf('Cgen', [a, b])
    u, v = ir.var('u'), ir.var('v')
    vol = lambda a1, a2, b1, b2: ir.add(C(a2, b2), ir.neg(C(a2, b1)), ir.neg(C(a1, b2)), C(a1, b1))
    ax = [ir.ge(u, 0), ir.le(u, 1), ir.ge(v, 0), ir.le(v, 1),
          ir.eq(C(u, ir.ZERO), 0), ir.eq(C(ir.ZERO, v), 0), ir.eq(C(ir.ZERO, ir.ONE), 0), ir.eq(C(ir.ONE, ir.ZERO), 0),
          ir.eq(C(ir.ZERO, ir.ZERO), 0),
          ir.eq(C(u, ir.ONE), u), ir.eq(C(ir.ONE, v), v), ir.eq(C(ir.ONE, ir.ONE), 1),
          ir.ge(vol(ir.ZERO, u, v, ir.ONE), 0), ir.ge(vol(u, ir.ONE, ir.ZERO, v), 0), ir.ge(vol(u, ir.ONE, v, ir.ONE), 0),
          ir.ge(vol(ir.ZERO, u, ir.ZERO, v), 0)]
    chk.add(Ob('C06.lemma.L2.frechet_upper', ax, ir.le(C(u, v), ir.min_(u, v)), kind='lemma', free_ufs_ok=True,
               clause='C <= min(u,v) from margins + rectangle volumes'))
    chk.add(Ob('C06.lemma.L2.frechet_lower', ax, ir.ge(C(u, v), ir.max_(ir.add(u, v, -1), 0)), kind='lemma',
               free_ufs_ok=True, clause='C >= max(u+v-1,0) from margins + rectangle volumes'))
    chk.add(Ob('C06.canary.L2.frechet_too_strong', ax, ir.le(C(u, v), ir.mul(u, v)), kind='lemma', free_ufs_ok=True,
               canary=True))
    chk.lemmas += ['L1 (cited)', 'L2 (z3)', 'L10 (cited)']
    chk.under_contract(src, ['copulas.bivariate.base.Bivariate.check_fit', 'copulas.bivariate.base.Bivariate.check_theta',
                             'copulas.bivariate.utils.split_matrix'])
    bounded_theta_order(chk)
    bounded_near_boundary(chk)
    chk.assumptions += [
        'machine floats treated as mathematical reals (float literals exact rationals); boundary value 0 handled in '
        'rigorous extended-real interval arithmetic (log 0 = -inf, (+inf)**y = +inf, exp(-inf) = 0, as numpy computes)',
        'theta in the quantifier range of each family; batches of any size n >= 1; arbitrary object state besides theta',
    ]
    chk.not_addressed += [
        {'clause': 'ordered in theta', 'reason': 'no contract within reach proves dC/dtheta >= 0 for all three families '
         '(tight on the faces u=1, v=1; plain interval B&B fails, DESIGN probe f06); BOUNDED stand-in on a grid, not '
         'counted as proved'},
        {'clause': 'inputs within 1e-12 of the boundary at floating-point resolution', 'reason': '(F): BOUNDED native grid'},
    ]


def gen_replay(fam):
    def rep(env):
        import numpy as np
        env = biv.model_floats(env)
        th, u, v = env.get('theta'), env.get('u'), env.get('v')
        if th is None or u is None or v is None:
            return {'confirmed': False, 'detail': 'model lacks theta/u/v'}
        c = biv.native_copula(fam, th)
        cu = float(np.ravel(c.cumulative_distribution(np.array([[u, v]])))[0])
        lhs = float(np.ravel(c.generator(np.array([cu])))[0])
        rhs = float(np.ravel(c.generator(np.array([u])))[0] + np.ravel(c.generator(np.array([v])))[0])
        ok = abs(lhs - rhs) <= 1e-7 * max(1, abs(rhs))
        return {'confirmed': not ok, 'detail': '%s theta=%r: generator(C(%r,%r)) = %r but generator(u)+generator(v) = %r'
                % (fam, th, u, v, lhs, rhs), 'input': {'theta': th, 'u': u, 'v': v}}
    return rep


def _diff_ir(t, x):
    """symbolic derivative d t / d x on the IR (exp/log/pow/add/mul/div), used for sign obligations"""
    def d(t):
        if t is x:
            return ir.ONE
        if t.op in ('const', 'var'):
            return ir.ZERO
        if x not in ir.free_vars(t):
            return ir.ZERO
        if t.op == 'add':
            return ir.add(*[d(a) for a in t.args])
        if t.op == 'mul':
            out = []
            for i, a in enumerate(t.args):
                out.append(ir.mul(d(a), *[b for j, b in enumerate(t.args) if j != i]))
            return ir.add(*out)
        if t.op == 'div':
            a, b = t.args
            return ir.div(ir.sub(ir.mul(d(a), b), ir.mul(a, d(b))), ir.mul(b, b))
        if t.op == 'exp':
            return ir.mul(t, d(t.args[0]))
        if t.op == 'log':
            return ir.div(d(t.args[0]), t.args[0])
        if t.op == 'pow':
            a, b = t.args
            if x not in ir.free_vars(b):
                return ir.mul(b, ir.pow_(a, ir.sub(b, 1)), d(a))
            return ir.mul(t, ir.add(ir.mul(d(b), ir.log(a)), ir.div(ir.mul(b, d(a)), a)))
        raise NotImplementedError('derivative of ' + t.op)
    return d(t)


def bounded_theta_order(chk):
    """BOUNDED stand-in for 'ordered in theta': native evaluation on a grid."""
    import numpy as np
    grid = np.concatenate([[1e-6, 1e-3], np.linspace(0.02, 0.98, 25), [1 - 1e-3, 1 - 1e-6]])
    X = np.array([[a, b] for a in grid for b in grid])
    nt = 60 if chk.tier == 'quick' else 400
    evals = 0
    distinct = set()
    for fam, F in FAMILIES.items():
        lo, hi = float(F['box'][0]), float(F['box'][1])
        ths = np.linspace(lo, hi, nt)
        if fam == 'frank':
            ths = ths[np.abs(ths) > 1e-3]
        prev = None
        for th in ths:
            c = biv.native_copula(fam, float(th))
            with np.errstate(all='ignore'):
                val = c.cumulative_distribution(X)
            evals += len(X)
            distinct.add((fam, round(float(th), 6)))
            if prev is not None:
                bad = np.where(val < prev[1] - 1e-9)[0]
                if len(bad):
                    i = int(bad[0])
                    chk.bounded_violation('C06.%s.theta_order.bounded' % fam,
                                          {'family': fam, 'theta_lo': float(prev[0]), 'theta_hi': float(th),
                                           'u': float(X[i, 0]), 'v': float(X[i, 1])},
                                          'C_theta_hi(u,v) = %r < C_theta_lo(u,v) = %r' % (float(val[i]), float(prev[1][i])))
                    break
            prev = (th, val)
    chk.bounded.append({'name': 'C06.theta_order.bounded', 'clause': 'ordered in theta', 'bound':
                        '%d thetas per family x %d x %d grid of (u,v) in [1e-6, 1-1e-6]^2, consecutive thetas compared '
                        'with slack 1e-9' % (nt, len(grid), len(grid)), 'evaluations': evals,
                        'distinct_nontrivial': len(distinct), 'rule': 'one case = (family, theta) evaluated on the whole '
                        'grid; distinct = distinct (family, theta) pairs'})


def bounded_near_boundary(chk):
    """BOUNDED stand-in for the floating-point near-boundary clause: margins / bounds / symmetry natively on a grid
    that includes 0, 1e-300, 1e-16, 1e-12, 1-1e-12, 1-1e-16, 1."""
    import numpy as np
    pts = [0.0, 1e-300, 1e-16, 1e-12, 0.3, 1 - 1e-12, 1 - 1e-16, 1.0]
    X = np.array([[a, b] for a in pts for b in pts])
    evals = 0
    distinct = set()
    reported = set()
    nt = 9 if chk.tier == 'quick' else 25
    for fam, F in FAMILIES.items():
        lo, hi = float(F['box'][0]), float(F['box'][1])
        ths = [t for t in np.linspace(lo, hi, nt) if abs(t) > 1e-6]
        for th in ths:
            c = biv.native_copula(fam, float(th))
            with np.errstate(all='ignore'):
                val = c.cumulative_distribution(X)
                valT = c.cumulative_distribution(X[:, ::-1].copy())
            evals += len(X)
            distinct.add((fam, round(float(th), 6)))
            upper = np.minimum(X[:, 0], X[:, 1])
            lower = np.maximum(X[:, 0] + X[:, 1] - 1, 0)
            tol = 1e-9
            bad = ~np.isfinite(val) | (val > upper + tol) | (val < lower - tol) | (np.abs(val - valT) > tol)
            if fam in reported:
                continue
            for i in np.where(bad)[0][:1]:
                reported.add(fam)
                chk.bounded_violation('C06.%s.near_boundary.bounded' % fam,
                                      {'family': fam, 'theta': float(th), 'u': float(X[i, 0]), 'v': float(X[i, 1])},
                                      'C = %r, bounds [%r, %r], C(v,u) = %r' % (float(val[i]), float(lower[i]),
                                                                                float(upper[i]), float(valT[i])))
    chk.bounded.append({'name': 'C06.near_boundary.bounded', 'clause': 'values within 1e-12 of the boundary (floats)',
                        'bound': '%d thetas per family x 8 x 8 boundary grid; finite, Frechet bounds and symmetry with '
                        'slack 1e-9' % nt, 'evaluations': evals, 'distinct_nontrivial': len(distinct),
                        'rule': 'one case = (family, theta) on the 64-point boundary grid'})
