"""C12 - conditional sampling fixes the given columns and follows the conditional law.

Functions under contract: GaussianMultivariate.sample (with conditions) / _get_normal_samples /
_get_conditional_distribution / _transform_to_normal. Every non-empty proper subset of columns as conditioning set, in
every order of the caller's container, dict and Series containers.
"""
import itertools

from pyvc import ir, engine, smt, pdmodel, libmodel
from pyvc.report import Ob
from pyvc.values import Sym, Lane, State
from pyvc import interp as interp_mod
from . import gm, uni
from .gm import GM, N, K, NAMES, colvar
from .uni import term

LEVEL = 'proof'
TRUSTED = ['L6 (cited): for z ~ N(0, S) partitioned as (z1, z2), z1 | z2 ~ N(S12 S22^-1 z2, S11 - S12 S22^-1 S21); the Schur '
           'complement of a PSD matrix is symmetric PSD',
           'np.linalg.inv / matrix product: the linear-algebra functions (inv uninterpreted, products explicit)',
           'np.random.multivariate_normal: assumed contract']


def cval(label):
    return ir.var('cond_%s' % label)


def cond_replay(env):
    import numpy as np
    import pandas as pd
    import warnings
    warnings.simplefilter('ignore')
    from copulas.multivariate import GaussianMultivariate
    from copulas.univariate import GaussianUnivariate
    rs = np.random.RandomState(3)
    S = np.array([[1, .8, .5], [.8, 1, -.3], [.5, -.3, 1]])
    X = pd.DataFrame(rs.multivariate_normal([0, 0, 0], S, 4000), columns=['score', 'height', 'age'])
    bad = []
    m = GaussianMultivariate(distribution=GaussianUnivariate, random_state=5)
    m.fit(X)
    R = m.correlation

    def expect(cond):
        free = [c for c in X.columns if c not in cond]
        given = list(cond)
        z2 = np.array([(cond[c] - X[c].mean()) / X[c].std(ddof=0) for c in given])
        S12 = R.loc[free, given].to_numpy()
        S22 = R.loc[given, given].to_numpy()
        mu = S12 @ np.linalg.inv(S22) @ z2
        cov = R.loc[free, free].to_numpy() - S12 @ np.linalg.inv(S22) @ S12.T
        sd = {c: X[c].std(ddof=0) * np.sqrt(cov[i, i]) for i, c in enumerate(free)}
        return free, {c: X[c].mean() + X[c].std(ddof=0) * mu[i] for i, c in enumerate(free)}, sd
    for cond in ({'score': 1.5}, {'age': -1.0}, {'height': 2.0, 'score': -1.0}, {'score': -1.0, 'height': 2.0}):
        for container in ('dict', 'series'):
            c_in = dict(cond) if container == 'dict' else pd.Series(cond)
            before = dict(cond)
            m.set_random_state(5)
            try:
                out = m.sample(6000, conditions=c_in)
            except Exception as e:
                bad.append('%s %r: %s: %s' % (container, cond, type(e).__name__, str(e)[:60]))
                continue
            if dict(c_in) != before:
                bad.append('%s %r: the conditions object was modified' % (container, cond))
            if list(out.columns) != list(X.columns) or len(out) != 6000:
                bad.append('%s %r: schema' % (container, cond))
            for c, v in cond.items():
                if not (out[c] == v).all():
                    bad.append('%s %r: conditioned column %s not equal to %r' % (container, cond, c, v))
            free, mu, sd = expect(cond)
            for c in free:
                if abs(out[c].mean() - mu[c]) > 0.06:
                    bad.append('%s %r: mean of %s = %.3f, conditional law gives %.3f' % (container, cond, c, out[c].mean(), mu[c]))
                if abs(out[c].std() / sd[c] - 1) > 0.06:
                    bad.append('%s %r: standard deviation of %s = %.3f, conditional law (Schur complement) gives %.3f'
                               % (container, cond, c, out[c].std(), sd[c]))
    return {'confirmed': bool(bad), 'detail': '; '.join(bad[:6]) if bad else 'native conditional samples follow the conditional law'}


def build(chk):
    I0 = engine.new_interp()
    src = I0.source
    chk.under_contract(src, [GM + '.sample', GM + '._get_normal_samples', GM + '._get_conditional_distribution',
                             GM + '._transform_to_normal'])
    dims = (2, 3) if chk.tier == 'quick' else (2, 3, 4)
    for d in dims:
        labels = NAMES[:d]
        subsets = [s for r in range(1, d) for s in itertools.combinations(labels, r)]
        for sub in subsets:
            for order in itertools.permutations(sub):
                for container in ('dict', 'series', 'dict_after_refit'):
                    if container == 'dict_after_refit' and (order != tuple(sub) or sub != subsets[-1]):
                        continue
                    tag = 'd%d.given_%s.%s' % (d, ''.join(order), container)
                    I = engine.new_interp()
                    gm.install_rootfinders(I)
                    G = I.resolve(uni.CLASSES['GaussianUnivariate'][0])

                    def body(c, I=I, labels=labels, order=order, container=container):
                        m0 = None
                        if container == 'dict_after_refit':
                            # history: the same object was fitted on another table with the same labels and has already
                            # produced a conditional sample for the same conditioning set
                            n0 = Sym(ir.var('n0', 'I'))
                            c.assume(ir.ge(n0.t, 2))
                            X0 = pdmodel.Frame(list(labels), {l: Lane(ir.var('y_%s@i' % l), n0) for l in labels}, n0)
                            for l in labels:
                                c.assume(ir.gt(ir.uf('n_unique', [ir.var('y_%s' % l, 'U')], 'I'), 1))
                            m0 = I.call_qual(GM, [], {'distribution': G})
                            I.call_method(m0, 'fit', [X0])
                            I.call_method(m0, 'sample', [Sym(ir.var('k0', 'I'))],
                                          {'conditions': {l: Sym(ir.var('c0_%s' % l)) for l in order}})
                            State.rng = ir.var('G0', 'U')
                            container = 'dict'
                            c.out['ev0'] = len(c.events)
                        m = gm.fit_model(I, c, labels, G, model=m0)
                        c.assume(ir.ge(K, 1))
                        if container == 'dict':
                            cond = {l: Sym(cval(l)) for l in order}
                            interp_mod.OWNERS[id(cond)] = (cond, 'conditions')
                        else:
                            cond = pdmodel.SeriesRow(list(order), [Sym(cval(l)) for l in order], owner='conditions')
                        c.out['cond_obj'] = cond
                        S = I.call_method(m, 'sample', [Sym(K)], {'conditions': cond})
                        R = m.attrs['correlation']
                        unis = m.attrs['univariates']
                        c.out.update({'S': S, 'R': R})
                        # spec ----------------------------------------------------------------------------------
                        free = sorted(l for l in labels if l not in order)       # Index.difference sorts
                        pos = {l: i for i, l in enumerate(labels)}
                        Rt = [[x.t for x in row] for row in R.data]
                        # the conditional law does not depend on the ORDER in which the conditioning block is arranged
                        # (S12 S22^-1 z is permutation invariant) but `inv` is uninterpreted here, so every arrangement of
                        # the conditioning labels is an admissible way to compute it: the obligations are disjunctions
                        alts = []
                        for given in itertools.permutations(order):
                            given = list(given)
                            z2 = []
                            for l in given:
                                F = gm.marginal_cdf(I, m, pos[l], Lane(cval(l), 1))
                                z2.append(gm.normal_score(F.t))
                            S11 = [[Rt[pos[a]][pos[b]] for b in free] for a in free]
                            S12 = [[Rt[pos[a]][pos[b]] for b in given] for a in free]
                            S21 = [[Rt[pos[a]][pos[b]] for b in free] for a in given]
                            S22 = [[Rt[pos[a]][pos[b]] for b in given] for a in given]
                            flat22 = [x for row in S22 for x in row]
                            inv22 = [[ir.uf('inv', flat22 + [ir.const(i), ir.const(j)]) for j in range(len(given))]
                                     for i in range(len(given))]
                            A = [[ir.add(*[ir.mul(S12[i][k], inv22[k][j]) for k in range(len(given))])
                                  for j in range(len(given))] for i in range(len(free))]
                            mu = [ir.add(*[ir.mul(A[i][k], z2[k]) for k in range(len(given))]) for i in range(len(free))]
                            sig = [[ir.sub(S11[i][j], ir.add(*[ir.mul(A[i][k], S21[k][j]) for k in range(len(given))]))
                                    for j in range(len(free))] for i in range(len(free))]
                            want = {}
                            g0 = ir.var('G0', 'U')
                            sigflat = [x for row in sig for x in row]
                            for j, l in enumerate(free):
                                zj = ir.uf('mvn.draw', [g0, ir.const(j)] + mu + sigflat + [K, ir.var('@i', 'I')])
                                saved = State.safety
                                State.safety = False
                                try:
                                    want[l] = I.call_method(unis[pos[l]], 'percent_point', [Lane(ir.ndtr(zj), Sym(K))])
                                finally:
                                    State.safety = saved
                            alts.append({'mu': mu, 'sig': sig, 'want': want})
                        c.out.update({'free': free, 'alts': alts})
                        return S
                    res, ctx = engine.run_paths(I, body)
                    kr = 0
                    for r in res:
                        if r.outcome == 'unsupported':
                            chk.undecided.append(('C12.%s.exec' % tag, 'executor', str(r.value)))
                            continue
                        for e in r.events:
                            if e.kind == 'mutate' and e.data == 'conditions':
                                chk.add(Ob('C12.%s.conditions_not_modified' % tag, e.pc, ir.FALSE, kind='frame',
                                           free_ufs_ok=True, function=GM + '.sample', replay=cond_replay,
                                           clause='the caller\'s conditions object is not modified'))
                        if r.outcome != 'return':
                            chk.add(Ob('C12.%s.no_exception.%s' % (tag, getattr(r.value, 'clsname', '?')), r.pc, ir.FALSE,
                                       function=GM + '.sample', free_ufs_ok=True, replay=cond_replay,
                                       clause='conditions may be given as a dict or a pandas Series [%s]' %
                                       str(getattr(r.value, 'args', ''))[:80]))
                            continue
                        kr += 1
                        S, st = r.value, r.state
                        fq = GM + '.sample'
                        okschema = isinstance(S, pdmodel.Frame) and S.labels == labels
                        chk.add(Ob('C12.%s.schema.%d' % (tag, kr), [], ir.const(bool(okschema)), backends=('syntactic',),
                                   function=fq, clause='all training columns, in order', replay=cond_replay))
                        if not okschema:
                            continue
                        draws = [e for e in r.events[st.get('ev0', 0):] if e.kind == 'mvn_draw']
                        chk.add(Ob('C12.%s.one_normal_draw.%d' % (tag, kr), [], ir.const(len(draws) == 1),
                                   backends=('syntactic',), function=GM + '._get_normal_samples',
                                   clause='one conditional normal draw'))
                        for e in draws[:1]:
                            def alt_goal(which, e=e):
                                out = []
                                for alt in st['alts']:
                                    ref = alt['mu'] if which == 'mean' else [x for row in alt['sig'] for x in row]
                                    got_ = e.data['mean'] if which == 'mean' else e.data['cov']
                                    if len(got_) != len(ref):
                                        continue
                                    out.append(ir.and_(*[ir.eq(a, b) for a, b in zip(got_, ref)]))
                                return ir.or_(*out) if out else ir.FALSE
                            okdim = True
                            chk.add(Ob('C12.%s.conditional_mean.%d' % (tag, kr), r.pc, alt_goal('mean'),
                                       function=GM + '._get_conditional_distribution', free_ufs_ok=True, replay=cond_replay,
                                       clause='normal-score mean of the free columns = S12 S22^-1 z, z the scores of the '
                                              'conditioning values MATCHED BY LABEL'))
                            chk.add(Ob('C12.%s.conditional_covariance.%d' % (tag, kr), r.pc, alt_goal('cov'),
                                       function=GM + '._get_conditional_distribution', free_ufs_ok=True, replay=cond_replay,
                                       clause='normal-score covariance = Schur complement S11 - S12 S22^-1 S21'))
                        for l in labels:
                            col = S.cols[l]
                            n_t = col.n.t if isinstance(col.n, Sym) else ir.const(col.n)
                            chk.add(Ob('C12.%s.rows.%s.%d' % (tag, l, kr), r.pc, ir.eq(n_t, K), function=fq,
                                       free_ufs_ok=True, clause='n rows'))
                            if l in order:
                                chk.add(Ob('C12.%s.conditioned_column_fixed.%s.%d' % (tag, l, kr), r.pc,
                                           ir.eq(col.t, cval(l)), function=fq, free_ufs_ok=True, replay=cond_replay,
                                           clause='a conditioned column equals the given value in every row'))
                            else:
                                chk.add(Ob('C12.%s.free_column.%s.%d' % (tag, l, kr), r.pc,
                                           ir.or_(*[ir.eq(col.t, term(alt['want'][l])) for alt in st['alts']]),
                                           function=fq, free_ufs_ok=True,
                                           replay=cond_replay,
                                           clause='free column %s = F^{-1}(Phi(.)) of ITS coordinate of the conditional '
                                                  'normal draw' % l))
                        if kr == 1 and d == 3 and len(order) == 1 and container == 'dict' and order[0] == labels[0]:
                            chk.add(Ob('C12.canary.unconditional_mean', r.pc,
                                       ir.and_(*[ir.eq(a, 0) for a in draws[0].data['mean']]) if draws else ir.TRUE,
                                       free_ufs_ok=True, canary=True))
                    if kr == 0 and not chk.undecided and not any(o.name.startswith('C12.%s.no_exception' % tag) for o in chk.obs):
                        chk.engine_error('C12.%s: no returning path' % tag)
    chk.lemmas += ['L6 (cited)']
    chk.assumptions += [
        'Gaussian marginals; d = %s; every non-empty proper conditioning subset, every order of a dict, Series in subset order; '
        'training labels deliberately not in sorted order; conditioning values arbitrary reals' % (dims,),
        'random_state None (seeded wrapper: C15); reals not floats',
    ]
    chk.not_addressed += [
        {'clause': 'remaining columns distributed as the Gaussian copula conditioned on the values', 'reason': 'from the proved '
         'conditional mean/covariance and data flow by the cited L6 and L5'},
    ]
