import warnings; warnings.simplefilter('ignore')
import numpy as np, pandas as pd
from copulas.visualization import scatter_2d, compare_3d
from copulas.bivariate import Clayton, Gumbel
df = pd.DataFrame(np.random.RandomState(0).rand(20,3), columns=list('abc'))
cols=['a','b']
scatter_2d(df, columns=cols); print(cols)
try: scatter_2d(df, columns=cols)
except Exception as e: print('second call EXC', e)
X = np.array([[.1,.2],[.2,.1],[.3,.4],[.4,.3]])
c = Clayton(); c.fit(X); print('clayton tau', c.tau, 'theta', c.theta)
try: print(c.cdf(X))
except Exception as e: print('EXC', type(e).__name__, e)
from copulas.multivariate import GaussianMultivariate
from copulas.univariate import GaussianUnivariate
g = GaussianMultivariate(GaussianUnivariate); 
D = pd.DataFrame({'a':[1.,2,3,4,5],'b':[2.,4,6,8,10],'c':[5.,5,5,5,5]}); g.fit(D); print(g.correlation); print(np.linalg.eigvalsh(g.correlation.to_numpy()))
print(g.sample(2)); print(g.pdf(D.iloc[:2]))
