import warnings; warnings.simplefilter('ignore')
import numpy as np
from copulas.univariate import GaussianKDE
rng=np.random.RandomState(0)
for n in (5, 50, 1000):
  data = rng.normal(size=n)
  for bw in (None, 'silverman', 1.0, 0.9):
    k = GaussianKDE(bw_method=bw); k.fit(data)
    lo, up = k._get_bounds()
    cu = k.cumulative_distribution(np.array([up]))[0]
    for q in (1-1e-6, 1-2e-7, 1e-6):
        try:
            x = k.percent_point(np.array([q])); r = (x, k.cumulative_distribution(x))
        except BaseException as e: r = ('EXC', type(e).__name__)
        print(n, bw, 'cdf(upper)=1-%.3g'%(1-cu), 'q=1-%.1e'%(1-q) if q>.5 else 'q=%.1e'%q, r)
