from mpmath import iv, mpf
import time, itertools
iv.dps = 30
EPS = iv.mpf(2**-23)
def h_gumbel(u, v, T):
    lu = -iv.log(u); lv = -iv.log(v)
    t1 = lu**T; t2 = lv**T
    C = iv.exp(-((t1+t2)**(1/T)))
    return C * (t1+t2)**(-1+1/T) * lv**(T-1) / v
def h_frank(u, v, t):
    g = lambda z: iv.exp(-t*z)-1
    return (g(u)*g(v)+g(u))/(g(u)*g(v)+g(1))
def bnb(f, box, goal_le, maxdepth=40, budget=200000):
    # prove f(box) <= goal_le for all points; return ('proved',n) or ('cex', box)
    stack=[box]; n=0
    while stack:
        b=stack.pop(); n+=1
        if n>budget: return ('budget', n, b)
        val=f(*b)
        if val.b <= goal_le: continue
        # check midpoint for genuine cex
        mid=[iv.mpf(x.mid) for x in b]
        if f(*mid).a > goal_le: return ('cex', n, [float(x.mid) for x in b], f(*mid))
        # split widest (relative)
        w=[(x.delta/ (abs(x.mid)+mpf('1e-30'))) for x in b]
        i=max(range(len(b)), key=lambda k: w[k])
        lo=iv.mpf([b[i].a, b[i].mid]); hi=iv.mpf([b[i].mid, b[i].b])
        stack.append(b[:i]+[lo]+b[i+1:]); stack.append(b[:i]+[hi]+b[i+1:])
    return ('proved', n)
t=time.time()
print(bnb(lambda v,T: h_gumbel(EPS, v, T), [iv.mpf(['1e-4','0.9999']), iv.mpf([1.0000001,5])], mpf('1e-4')), time.time()-t)
t=time.time()
print(bnb(lambda v,T: h_frank(EPS, v, T), [iv.mpf(['1e-4','0.9999']), iv.mpf(['1e-3','18.2'])], mpf('1e-4')), time.time()-t)
t=time.time()
print(bnb(lambda v,T: h_frank(EPS, v, T), [iv.mpf(['1e-4','0.9999']), iv.mpf(['-18.2','-1e-3'])], mpf('1e-4')), time.time()-t)
