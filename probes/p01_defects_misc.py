import warnings; warnings.simplefilter('ignore')
import numpy as np, pandas as pd, traceback
from copulas.multivariate import GaussianMultivariate
from copulas.univariate import *
from copulas.bivariate import Clayton, Frank, Gumbel
from copulas import optimize
rng = np.random.RandomState(0)

print("== 1 Series conditions")
X = pd.DataFrame(rng.multivariate_normal([0,0,0], [[1,.8,.3],[.8,1,.2],[.3,.2,1]], 500), columns=list('abc'))
g = GaussianMultivariate(GaussianUnivariate, random_state=0); g.fit(X)
try:
    print(g.sample(3, conditions=pd.Series({'a':1.0})))
except Exception as e: print('EXC', type(e).__name__, e)
print("== 2 dict order")
g.set_random_state(0); s1 = g.sample(2000, conditions={'a':2.0,'b':-2.0})
g.set_random_state(0); s2 = g.sample(2000, conditions={'b':-2.0,'a':2.0})
print(s1['c'].mean(), s2['c'].mean())
print("== 3 refit after constant")
for cls in [GaussianUnivariate, BetaUnivariate, GammaUnivariate, UniformUnivariate, StudentTUnivariate, LogLaplace, TruncatedGaussian, GaussianKDE]:
    m = cls(); m.fit(np.full(50, 3.0)); 
    data = rng.gamma(2, 2, 200)+1
    try:
        m.fit(data); f = cls(); f.fit(data)
        q = np.array([2.0, 4.0])
        print(cls.__name__, m.cdf(q), f.cdf(q), 'sample' , np.unique(m.sample(3)) if True else None)
    except Exception as e: print(cls.__name__, 'EXC', type(e).__name__, e)
print("== 4 KDE refit size caching")
k = GaussianKDE(); k.fit(rng.normal(size=100)); print(k._sample_size); k.fit(rng.normal(size=300)); print(k._sample_size, len(k._params['dataset']))
print("== 5 TG remembered bounds")
t = TruncatedGaussian(); t.fit(rng.uniform(0,1,100)); print(t.min, t.max); t.fit(rng.uniform(5,6,100)); print(t.min,t.max, t._params)
print("== 6 bisect mutation")
lo = np.zeros(3); hi = np.ones(3)*4
r = optimize.bisect(lambda x: x-np.array([1.,2.,3.]), lo, hi); print(r, lo, hi)
lo = np.zeros(3); hi = np.ones(3)*4
r = optimize.chandrupatla(lambda x: x-np.array([1.,2.,3.]), lo, hi); print(r, lo, hi)
print("== 8 gumbel theta=1")
gm = Gumbel(); gm.theta = 1; gm.tau=0
P = np.array([[0.2,0.7],[0.5,0.5]])
print(gm.pdf(P), gm.partial_derivative(P), gm.cdf(P), gm.percent_point(np.array([.3]), np.array([.6])))
gm.theta = 1.0000001
print(gm.pdf(P), gm.partial_derivative(P))
print("== 9 gumbel ppf corner")
gm.theta=5.0; gm.tau=0.8
try: print(gm.percent_point(np.array([1e-4]), np.array([1e-4])))
except Exception as e: print('EXC', type(e).__name__, e)
print(gm.partial_derivative(np.array([[np.finfo(np.float32).eps, 1e-4]])))
fr = Frank(); fr.theta=18.2; fr.tau=0.8
for (y,v) in [(1e-4,1e-4),(1e-4,1-1e-4),(1-1e-4,1e-4),(1-1e-4,1-1e-4)]:
    for m in (gm, fr):
        try: 
            u = m.percent_point(np.array([y]), np.array([v])); print(type(m).__name__, y, v, u, m.partial_derivative(np.column_stack([u,[v]])))
        except Exception as e: print(type(m).__name__, y, v,'EXC', type(e).__name__, e)
