# feasibility: Clayton theta-ordering dC/dtheta >= 0 by interval branch-and-bound (how far does a budget go?)
import sympy as sp, time, sys
from mpmath import iv, mpf
u, v, t = sp.symbols('u v t', positive=True)
C = (u**-t + v**-t - 1)**(-1/t)
# d/dt log C has the sign of dC/dt (C > 0):  log C = -(1/t) log(B)
B = u**-t + v**-t - 1
# t^2 * B * d/dt(-log(B)/t) = B log B + t (u^-t log u + v^-t log v); kept unsimplified on purpose:
# sympy's simplify() rewrites it into a form whose interval evaluation takes log of a negative enclosure
def G(u, v, t):
    a = iv.exp(-t * iv.log(u)); b = iv.exp(-t * iv.log(v)); Bv = a + b - 1
    return Bv * iv.log(Bv) + t * (a * iv.log(u) + b * iv.log(v))
# analytic route (a = u^-t, b = v^-t >= 1): g(a,b) = (a+b-1)log(a+b-1) - a log a - b log b, g(1,b) = 0,
# dg/da = log((a+b-1)/a) >= 0  =>  g >= 0.  Each step is a CAS identity or an SMT sign goal.
def bnb(box, budget):
    stack = [box]; n = 0; proved_vol = 0.0; total = 1.0
    for b in box: total *= float(b.delta)
    t0 = time.time()
    while stack and n < budget:
        b = stack.pop(); n += 1
        val = G(*b)
        vol = 1.0
        for x in b: vol *= float(x.delta)
        if val.a >= 0: proved_vol += vol; continue
        if val.b < 0: return ('refuted', [float(x.mid) for x in b], n)
        i = max(range(3), key=lambda k: float(b[k].delta) / (abs(float(b[k].mid)) + 1e-12))
        lo = iv.mpf([b[i].a, b[i].mid]); hi = iv.mpf([b[i].mid, b[i].b])
        stack.append(b[:i] + [lo] + b[i+1:]); stack.append(b[:i] + [hi] + b[i+1:])
    return ('proved' if not stack else 'budget', n, 'proved volume fraction %.6f' % (proved_vol / total), 'open boxes', len(stack), round(time.time() - t0, 1), 's')
for lo, hi in [('0.01', '0.99'), ('1e-4', '0.9999')]:
    print(lo, hi, bnb([iv.mpf([lo, hi]), iv.mpf([lo, hi]), iv.mpf(['0.01', '8'])], int(sys.argv[1]) if len(sys.argv) > 1 else 60000))
