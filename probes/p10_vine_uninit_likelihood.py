# native replay of finding #19 (uninitialised read in Edge.get_likelihood) and #18, with the
# environment breakages #1,#2,#20,#21 patched in this process only (patch.py + below)
import patch
import numpy as np, pandas as pd
from copulas.multivariate import vine as V, tree as T
from copulas.bivariate.base import Bivariate
_orig_train = V.VineCopula.train_vine
def train_vine(self, tree_type):
    self.tau_mat = np.array(self.tau_mat)          # 20: writable copy
    return _orig_train(self, tree_type)
V.VineCopula.train_vine = train_vine
def tree_get_likelihood(self, uni_matrix):          # 21: scalar stores
    uni_dim = uni_matrix.shape[1]
    num_edge = len(self.edges)
    values = np.zeros([1, num_edge])
    new_uni_matrix = T.np.empty([uni_dim, uni_dim])
    for i in range(num_edge):
        edge = self.edges[i]
        value, left_u, right_u = edge.get_likelihood(uni_matrix)
        new_uni_matrix[edge.L, edge.R] = np.ravel(left_u)[0]
        new_uni_matrix[edge.R, edge.L] = np.ravel(right_u)[0]
        values[0, i] = np.log(value)
    return np.sum(values), new_uni_matrix
T.Tree.get_likelihood = tree_get_likelihood
# poison np.empty inside tree.py / vine.py only: uninitialised cells become NaN
class _NP:
    def __getattr__(self, k): return getattr(np, k)
    @staticmethod
    def empty(shape, *a, **k): return np.full(shape, np.nan)
T.np = _NP(); 
rng = np.random.RandomState(0)
n = 600
x3 = rng.normal(size=n); x1 = 0.85*x3 + np.sqrt(1-0.85**2)*rng.normal(size=n)
x0 = 0.9*x1 + np.sqrt(1-0.9**2)*rng.normal(size=n); x2 = 0.8*x0 + np.sqrt(1-0.8**2)*rng.normal(size=n)
X = pd.DataFrame({'c0':x0,'c1':x1,'c2':x2,'c3':x3})
v = V.VineCopula('direct'); v.fit(X, truncated=3)
for tr in v.trees: print([(int(e.L),int(e.R),sorted(int(d) for d in e.D), e.tau) for e in tr.edges])
u = np.array([[0.3,0.4,0.5,0.6]])
print('likelihood with NaN-poisoned np.empty:', v.get_likelihood(u))
T.np = np
print('likelihood unpoisoned, two calls:', v.get_likelihood(u), v.get_likelihood(u))
