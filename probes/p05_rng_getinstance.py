import warnings; warnings.simplefilter('ignore')
import numpy as np, pandas as pd
from copulas.univariate import *
from copulas.multivariate import GaussianMultivariate
rng=np.random.RandomState(3)
data = rng.normal(size=300)
print("== Univariate wrapper seed")
u = Univariate(random_state=7); u.fit(data)
np.random.seed(1); st0 = np.random.get_state()[1][:3].copy()
a = u.sample(3); st1 = np.random.get_state()[1][:3]
u2 = Univariate(random_state=7); u2.fit(data); np.random.seed(2); b = u2.sample(3)
print(a, b, 'global changed:', not (st0==st1).all(), type(u._instance).__name__)
print("== ScipyModel seed")
for cls in [GaussianUnivariate, GaussianKDE, BetaUnivariate, TruncatedGaussian]:
    m1 = cls(random_state=7); m1.fit(data); m2 = cls(random_state=7); m2.fit(data)
    np.random.seed(1); s0=np.random.get_state(); a=m1.sample(3); s1=np.random.get_state()
    np.random.seed(2); b=m2.sample(3)
    print(cls.__name__, np.allclose(a,b), (s0[1]==s1[1]).all() and s0[2]==s1[2], 'advance', not np.allclose(m1.sample(3), a))
print("== KDE fit with sample_size uses global RNG?")
k = GaussianKDE(sample_size=50, random_state=3); np.random.seed(1); k.fit(data); d1=k._params['dataset']
k = GaussianKDE(sample_size=50, random_state=3); np.random.seed(2); k.fit(data); d2=k._params['dataset']
print(np.allclose(d1,d2), np.shape(d1))
print("== sample raising keeps global state")
g = GaussianMultivariate(GaussianUnivariate, random_state=0)
X = pd.DataFrame(rng.normal(size=(100,2)), columns=['a','b']); g.fit(X)
np.random.seed(5); s0=np.random.get_state()
try: g.sample(3, conditions={'zzz':1})
except Exception as e: print('exc', type(e).__name__, e)
s1=np.random.get_state(); print((s0[1]==s1[1]).all() and s0[2]==s1[2])
print("== get_instance of fitted proto")
from copulas.utils import get_instance
p = GaussianKDE(bw_method='silverman', sample_size=10); p.fit(data)
q = get_instance(p); print(q.fitted, q.bw_method, q._sample_size)
t = TruncatedGaussian(minimum=-5, maximum=5); t.fit(data); q = get_instance(t); print(q.min, q.max, q.fitted)
uu = Univariate(parametric=ParametricType.PARAMETRIC); q=get_instance(uu); print(q.candidates)
print(get_instance(uu, random_state=3).candidates == Univariate().candidates)
