import patch2
import numpy as np, pandas as pd, traceback
from copulas.multivariate import VineCopula
from copulas.datasets import sample_trivariate_xyz
rng=np.random.RandomState(1)
X = sample_trivariate_xyz(300)
X['w'] = X['x']*0.5 + rng.normal(size=300)
X['q'] = X['z']*0.5 + rng.normal(size=300)
for t in ['center','direct','regular']:
    try:
        v = VineCopula(t, random_state=0); v.fit(X, truncated=4); print(t, 'fit ok', [[(e.L,e.R,sorted(e.D),e.name.name,round(float(e.theta),3), e.tau) for e in tr.edges] for tr in v.trees])
        u = np.array([[0.3,0.4,0.5,0.6,0.7]])
        print('lik', v.get_likelihood(u), v.get_likelihood(u))
        print(v.sample(3))
        print('tau_mat', v.tau_mat[:2])
    except Exception as e:
        traceback.print_exc()
