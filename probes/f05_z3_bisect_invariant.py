# feasibility: bisect loop invariant (generic lane, f uninterpreted + monotone on occurring terms)
import z3, time
R = z3.RealSort(); f = z3.Function('f', R, R)
xmin0, xmax0, xmin, xmax, W = z3.Reals('xmin0 xmax0 xmin xmax W')
def inv(a, b, w): return z3.And(xmin0 <= a, a <= b, b <= xmax0, f(a) <= 0, f(b) >= 0, b - a <= w)
def prove(name, hyps, goal):
    s = z3.Solver(); s.set('timeout', 20000); s.add(*hyps); s.add(z3.Not(goal))
    t = time.time(); r = s.check(); print(name, 'PROVED' if r == z3.unsat else r, round(time.time() - t, 3))
# establish
prove('establish', [xmin0 <= xmax0, f(xmin0) <= 0, f(xmax0) >= 0, W == xmax0 - xmin0], inv(xmin0, xmax0, W))
# preserve: one iteration with mask stores as lane ite
guess = (xmin + xmax) / 2; fg = f(guess)
xmin1 = z3.If(fg <= 0, guess, xmin); xmax1 = z3.If(fg >= 0, guess, xmax)
prove('preserve', [inv(xmin, xmax, W)], inv(xmin1, xmax1, W / 2))
# exit: brk is adversarial but sound (brk => width < tol)
tol = z3.RealVal('1e-8'); brk = z3.Bool('brk'); r = (xmin + xmax) / 2
prove('post.in_bracket', [inv(xmin, xmax, W)], z3.And(xmin0 <= r, r <= xmax0))
prove('post.tol_on_break', [inv(xmin, xmax, W), z3.Implies(brk, xmax - xmin < tol), brk], xmax - xmin < tol)
# canary: the mutant `fguess < 0` breaks halving (must NOT be provable)
xmin1m = z3.If(fg < 0, guess, xmin)
prove('canary.mutant_preserve (must fail)', [inv(xmin, xmax, W)], inv(xmin1m, xmax1, W / 2))
