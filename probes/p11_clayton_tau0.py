import warnings; warnings.simplefilter('ignore')
import numpy as np
from copulas.bivariate import Clayton, Gumbel
X = np.array([[.1,.2],[.2,.1],[.3,.4],[.4,.3],[.5,.9],[.9,.5],[.6,.7],[.7,.6]])
X = np.array([[.1,.4],[.2,.3],[.3,.2],[.4,.1],[.5,.5],[.6,.6],[.7,.7],[.8,.8]])
from scipy.stats import kendalltau
X = np.array([[.1,.2],[.2,.1],[.3,.4],[.4,.3]]); X[:,1]=[.2,.4,.1,.3]
print(kendalltau(X[:,0],X[:,1])[0])
c = Clayton(); c.fit(X); print('fit ok; tau', c.tau, 'theta', c.theta)
try: print(c.cdf(X))
except Exception as e: print('EXC', type(e).__name__, e)
