import warnings; warnings.simplefilter('ignore')
import numpy as np
from scipy import integrate
from scipy.optimize import brentq
from copulas.bivariate import frank as F, base as B
from copulas.utils import EPSILON
def _tau_to_theta(self, alpha):
    alpha = float(np.asarray(alpha).ravel()[0])
    def debye(t): return t / (np.exp(t) - 1)
    debye_value = integrate.quad(debye, EPSILON, alpha)[0] / alpha
    return 4 * (debye_value - 1) / alpha + 1 - self.tau
F.Frank._tau_to_theta = _tau_to_theta
def percent_point(self, y, V):
    self.check_fit()
    result = []
    for _y, _v in zip(y, V):
        def f(u):
            return float(self.partial_derivative_scalar(u, _v)[0]) - _y
        minimum = brentq(f, EPSILON, 1.0)
        result.append(minimum)
    return np.array(result)
B.Bivariate.percent_point = percent_point
