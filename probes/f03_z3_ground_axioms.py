import z3, time
R = z3.RealSort()
EXP = z3.Function('exp', R, R); LOG = z3.Function('log', R, R); POW = z3.Function('pow', R, R, R)
def subterms(e, acc):
    if e in acc: return
    acc.add(e)
    for c in e.children(): subterms(c, acc)
def ground_axioms(goal_terms):
    acc=set()
    for g in goal_terms: subterms(g, acc)
    ax=[]
    exps=[t for t in acc if z3.is_app(t) and t.decl().name()=='exp']
    logs=[t for t in acc if z3.is_app(t) and t.decl().name()=='log']
    pows=[t for t in acc if z3.is_app(t) and t.decl().name()=='pow']
    for t in exps:
        x=t.arg(0); ax += [t>0, z3.Implies(x>0,t>1), z3.Implies(x<0,t<1), z3.Implies(x==0,t==1), t >= 1+x]
    for a in exps:
        for b in exps:
            if a.get_id()<b.get_id():
                ax += [z3.Implies(a.arg(0)<b.arg(0), a<b), z3.Implies(a.arg(0)==b.arg(0), a==b)]
                # product rule instance
                ax += [EXP(a.arg(0)+b.arg(0)) == a*b]
    for t in logs:
        x=t.arg(0); ax += [z3.Implies(x>0, EXP(t)==x), z3.Implies(x>1,t>0), z3.Implies(z3.And(x>0,x<1),t<0), z3.Implies(x==1,t==0)]
    for t in pows:
        x,y=t.arg(0),t.arg(1)
        ax += [z3.Implies(x>0,t>0), z3.Implies(y==0,t==1), z3.Implies(x==1,t==1), z3.Implies(y==1,t==x),
               z3.Implies(z3.And(x>0,x<=1,y<=0), t>=1), z3.Implies(z3.And(x>0,x<=1,y>=0), t<=1),
               z3.Implies(z3.And(x>=1,y>=0), t>=1)]
        if z3.is_app(x) and x.decl().name()=='pow':
            ax += [z3.Implies(x.arg(0)>0, t == POW(x.arg(0), x.arg(1)*y))]
    return ax
def prove(name, hyps, goal, extra=[]):
    s=z3.Solver(); s.set('timeout',20000)
    terms=[goal]+hyps+extra
    ax=ground_axioms(terms)
    # second round to pick up new terms
    ax+=ground_axioms(ax)
    for h in hyps+ax+extra: s.add(h)
    s.add(z3.Not(goal)); t=time.time(); r=s.check(); print(name, 'PROVED' if r==z3.unsat else r, round(time.time()-t,2), len(ax))
    if r==z3.sat: print(s.model())
u,v,th=z3.Reals('u v th')
dom=[u>0,u<1,v>0,v<1]
# Frank density >= 0
g=lambda z: EXP(-th*z)-1
num=(-th*g(1))*(1+g(u+v)); aux=g(u)*g(v)+g(1); den=aux*aux
prove('frank num>0', dom+[th!=0], num>0)
prove('frank aux!=0', dom+[th!=0], aux!=0)
# Clayton
thp=[th>0]
B=POW(u,-th)+POW(v,-th)-1
C=POW(B,-1/th)
prove('clayton B>=1', dom+thp, B>=1)
pdf=(th+1)*POW(u*v,-(th+1))*POW(B,-(2*th+1)/th)
prove('clayton pdf>0', dom+thp, pdf>0)
C1=POW(POW(u,-th)+POW(z3.RealVal(1),-th)-1,-1/th)
prove('clayton C(u,1)=u', [u>0,u<=1]+thp, C1==u)
prove('clayton sym', dom+thp, C==POW(POW(v,-th)+POW(u,-th)-1,-1/th))
# Frechet upper from axioms: C(u,v)<=u  via monotonic: B>=u^-th => B^(-1/th) <= (u^-th)^(-1/th)=u  (needs pow monotone in base)
