import sympy as sp, time
p,q,T = sp.symbols('p q T', positive=True)
u,v = sp.symbols('u v', positive=True)
lu, lv = -sp.log(u), -sp.log(v)
Cg = sp.exp(-((lu**T + lv**T)**(1/T)))
hg = Cg * (lu**T+lv**T)**(-1+1/T) * lv**(T-1) / v
tmp = lu**T+lv**T
pg = Cg * (u*v)**-1 * tmp**(-2+2/T) * (sp.log(u)*sp.log(v))**(T-1) * (1+(T-1)*tmp**(-1/T))
e = sp.diff(hg,u)-pg
t=time.time()
e2 = e.subs({u:sp.exp(-p), v:sp.exp(-q)})
r = sp.simplify(e2)
print(r, time.time()-t)
if r!=0:
    r = sp.simplify(sp.powsimp(sp.powdenest(sp.expand_power_base(e2,force=True),force=True),force=True)); print(r)
    # numeric sanity
    print(e2.subs({p:0.3,q:1.2,T:2.5}).evalf())
