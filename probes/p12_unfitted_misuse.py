# native replay of findings #23-#25: misuse of unfitted models does not raise NotFittedError
import warnings; warnings.simplefilter('ignore')
import numpy as np
from copulas.bivariate import Clayton, Frank, Gumbel
from copulas.multivariate import VineCopula
for name, call in [('Frank().generator', lambda: Frank().generator(0.5)),
                   ('Gumbel().generator', lambda: Gumbel().generator(0.5)),
                   ('Clayton().generator', lambda: Clayton().generator(0.5)),
                   ('Clayton().sample', lambda: Clayton().sample(3)),
                   ('Frank().sample', lambda: Frank().sample(3)),
                   ('VineCopula.sample', lambda: VineCopula('center').sample(2)),
                   ('VineCopula.get_likelihood', lambda: VineCopula('center').get_likelihood(np.array([[.1,.2]])))]:
    try: print(name, '->', call())
    except Exception as e: print(name, '->', type(e).__name__, e)
