import warnings; warnings.simplefilter('ignore')
import numpy as np
from scipy import stats
np.random.seed(0); s0=np.random.get_state()
cov=np.array([[1,.5,.2],[.5,1,.3],[.2,.3,1]])
a=stats.multivariate_normal.cdf(np.array([[0.1,0.2,0.3]]), cov=cov); s1=np.random.get_state()
b=stats.multivariate_normal.cdf(np.array([[0.1,0.2,0.3]]), cov=cov)
print(a,b,a==b,'global RNG untouched:', (s0[1]==s1[1]).all() and s0[2]==s1[2])
print(stats.kendalltau([1,1,1],[1,2,3]))
from copulas.univariate import GaussianKDE
d=np.random.RandomState(1).normal(size=200)
k=GaussianKDE(bw_method='silverman'); k.fit(d); k2=GaussianKDE.from_dict(k.to_dict()); x=np.array([0.0,1.0]); print(k.pdf(x), k2.pdf(x))
