import patch
import numpy as np, pandas as pd, traceback
from copulas.bivariate import Clayton, Frank, Gumbel, select_copula
from copulas.multivariate import VineCopula
from copulas.datasets import sample_trivariate_xyz
EPS=np.finfo(np.float32).eps
gm = Gumbel(); gm.theta=5.0; gm.tau=0.8
fr = Frank(); fr.theta=18.2; fr.tau=0.8
fn = Frank(); fn.theta=-18.2; fn.tau=-0.8
for (y,v) in [(1e-4,1e-4),(1e-4,1-1e-4),(1-1e-4,1e-4),(1-1e-4,1-1e-4), (0.5,0.5)]:
    for m in (gm, fr, fn):
        try: 
            u = m.percent_point(np.array([y]), np.array([v])); print(type(m).__name__, m.theta, y, v, u, m.partial_derivative(np.column_stack([u,[v]])))
        except Exception as e: print(type(m).__name__, m.theta, y, v,'EXC', type(e).__name__, e)
# frank fit
rng=np.random.RandomState(1)
for tau_target in [-0.7,-0.2,0.05,0.5,0.8]:
    f=Frank(); f.tau=tau_target
    try:
        f._compute_theta(); print('frank tau',tau_target,'theta',f.theta)
    except Exception as e: print('EXC', e)
X = sample_trivariate_xyz(300)
X['w'] = X['x']*0.5 + rng.normal(size=300)
X['q'] = X['z']*0.5 + rng.normal(size=300)
for t in ['center','direct','regular']:
    try:
        v = VineCopula(t, random_state=0); v.fit(X, truncated=4); print(t, 'fit ok', [[(e.L,e.R,sorted(e.D),e.name.name,round(float(e.theta),3), e.tau) for e in tr.edges] for tr in v.trees])
        u = np.array([[0.3,0.4,0.5,0.6,0.7]])
        print('lik', v.get_likelihood(u), v.get_likelihood(u))
        print(v.sample(3))
    except Exception as e:
        traceback.print_exc()
