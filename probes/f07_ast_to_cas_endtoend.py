# feasibility, end to end: take the AST of the *real* methods in /repo/copulas/bivariate/*.py,
# execute them symbolically for a generic lane (u, v) with symbolic self.theta, emit sympy, and
# decide  partial_derivative == d(cumulative_distribution)/dv  and  pdf == d(partial_derivative)/du.
# A throw-away miniature of the executor described in DESIGN §3 (about 150 lines, one emitter);
# run with:  python3-vt f07_ast_to_cas_endtoend.py
import ast, hashlib, itertools, sys, time
import sympy as sp

REPO = '/repo/copulas/bivariate/'
u, v = sp.symbols('u v', positive=True)


class Lane:                      # a numpy vector seen through one generic element
    def __init__(self, e): self.e = sp.sympify(e)


class Red:                       # result of an elementwise comparison awaiting .all()/.any()
    def __init__(self, e): self.e = e


def lift(x): return x.e if isinstance(x, Lane) else sp.sympify(x)


def find(path, cls, name):
    src = open(path).read(); tree = ast.parse(src)
    for c in tree.body:
        if isinstance(c, ast.ClassDef) and c.name == cls:
            for f in c.body:
                if isinstance(f, ast.FunctionDef) and f.name == name:
                    seg = ast.get_source_segment(src, f)
                    return f, hashlib.sha256(seg.encode()).hexdigest()[:12], (f.lineno, f.end_lineno)
    raise KeyError((cls, name))


class Exec:
    """paths: list of (conditions, result). Conditions are sympy relationals or fresh Bool symbols
    standing for whole-array reductions (treated adversarially)."""
    def __init__(self, theta, methods): self.theta = theta; self.methods = methods; self.n = 0

    def fresh(self, tag): self.n += 1; return sp.Symbol(f'{tag}_{self.n}')          # reduction boolean

    def run(self, fn, env):
        return [(c, r) for c, r in self.block(fn.body, dict(env), []) if r is not None]

    def block(self, stmts, env, conds):
        if not stmts: return [(conds, None)]
        s, rest = stmts[0], stmts[1:]
        if isinstance(s, ast.Expr):                                # docstring, self.check_fit()
            return self.block(rest, env, conds)
        if isinstance(s, ast.Assign):
            val = self.ev(s.value, env); tgt = s.targets[0]
            if isinstance(tgt, ast.Tuple):
                for t, x in zip(tgt.elts, val): env[t.id] = x
            else: env[tgt.id] = val
            return self.block(rest, env, conds)
        if isinstance(s, ast.Return): return [(conds, self.ev(s.value, env))]
        if isinstance(s, ast.If):
            c = self.ev(s.test, env); out = []
            for branch, cc in ((s.body, c), (s.orelse, sp.Not(c))):
                if cc == sp.false: continue
                for k, r in self.block(branch, dict(env), conds + [cc]):
                    out += [(k, r)] if r is not None else self.block(rest, dict(env), k)
            return out
        raise NotImplementedError(ast.dump(s)[:80])

    def ev(self, e, env):
        if isinstance(e, ast.Constant):                            # float literals are read as exact rationals
            return sp.Rational(str(e.value)) if isinstance(e.value, float) else e.value
        if isinstance(e, ast.Name): return env[e.id]
        if isinstance(e, ast.Attribute):
            if isinstance(e.value, ast.Name) and e.value.id == 'self' and e.attr == 'theta': return self.theta
            if isinstance(e.value, ast.Name) and e.value.id == 'np' and e.attr == 'inf': return sp.oo
            if e.attr == 'shape': return ('n',)
        if isinstance(e, ast.UnaryOp):
            x = self.ev(e.operand, env)
            if isinstance(e.op, ast.USub): return Lane(-lift(x)) if isinstance(x, Lane) else -x
        if isinstance(e, ast.BinOp):
            a, b = self.ev(e.left, env), self.ev(e.right, env)
            op = {ast.Add: lambda p, q: p + q, ast.Sub: lambda p, q: p - q, ast.Mult: lambda p, q: p * q,
                  ast.Div: lambda p, q: p / q}[type(e.op)]
            r = op(lift(a), lift(b))
            return Lane(r) if isinstance(a, Lane) or isinstance(b, Lane) else r
        if isinstance(e, ast.Compare):
            a, b = self.ev(e.left, env), self.ev(e.comparators[0], env)
            rel = {ast.Eq: sp.Eq, ast.Gt: sp.Gt, ast.Lt: sp.Lt}[type(e.ops[0])](lift(a), lift(b))
            rel = sp.simplify(rel) if rel.free_symbols <= {u, v} else rel
            return Red(rel) if isinstance(a, Lane) or isinstance(b, Lane) else rel
        if isinstance(e, ast.BoolOp):
            vals = [self.ev(x, env) for x in e.values]
            vals = [x.e if isinstance(x, Red) else x for x in vals]
            return (sp.Or if isinstance(e.op, ast.Or) else sp.And)(*vals)
        if isinstance(e, ast.IfExp):
            c = self.ev(e.test, env); c = c.e if isinstance(c, Red) else c
            return sp.Piecewise((lift(self.ev(e.body, env)), c), (lift(self.ev(e.orelse, env)), True))
        if isinstance(e, ast.Subscript):                           # U[i] inside the comprehension, V.shape[0]
            base = self.ev(e.value, env)
            return base if isinstance(base, Lane) else base[0]
        if isinstance(e, ast.ListComp):                            # [f(U[i], V[i]) for i in range(len(U))]
            return Lane(lift(self.ev(e.elt, env)))                  # -> lane map
        if isinstance(e, ast.Call): return self.call(e, env)
        raise NotImplementedError(ast.dump(e)[:80])

    def call(self, e, env):
        f = e.func; args = [self.ev(a, env) for a in e.args]
        name = ast.unparse(f)
        if name == 'split_matrix': return env['__lanes__']          # inlined helper: (X[:,0], X[:,1])
        if name in ('np.power',): return Lane(lift(args[0]) ** lift(args[1]))
        if name in ('np.exp', 'np.log'): return Lane({'np.exp': sp.exp, 'np.log': sp.log}[name](lift(args[0])))
        if name in ('np.zeros', 'np.ones'): return Lane(0 if name == 'np.zeros' else 1)
        if name == 'np.array': return args[0]
        if name == 'len': return sp.Symbol('n', positive=True, integer=True)
        if name == 'self._g': return Lane(sp.exp(-self.theta * lift(args[0])) - 1)      # inlined Frank._g (checked below)
        if name.startswith('self.') and name[5:] in self.methods:                      # summary of a sibling method
            return Lane(self.methods[name[5:]])
        if isinstance(f, ast.Attribute) and f.attr in ('all', 'any'):
            r = self.ev(f.value, env).e
            if r in (sp.true, sp.false): return r                 # e.g. V**(-theta-1) == oo is false on the reals
            b = self.fresh(f.attr)                                  # adversarial reduction, constrained by soundness:
            self.side = getattr(self, 'side', []) + [sp.Implies(b, r) if f.attr == 'all' else sp.Implies(sp.Not(b), sp.Not(r))]
            return b
        raise NotImplementedError(name)


def summary(fam, meth, theta, methods):
    fn, sha, span = find(REPO + fam.lower() + '.py', fam, meth)
    ex = Exec(theta, methods)
    paths = ex.run(fn, {'self': None, 'X': None, '__lanes__': (Lane(u), Lane(v))})
    return paths, sha, span


def interior(paths):
    """the value on the open square: drop paths whose condition is false there; reduction booleans may be either."""
    vals = set()
    for conds, r in paths:
        ok = True
        for c in conds:
            c2 = sp.simplify(c.subs({}))
            if c2 == sp.false: ok = False
        if ok: vals.add(sp.simplify(sp.piecewise_fold(lift(r))))
    return vals


def decide(name, expr, subs=None):
    t0 = time.time(); e = expr.subs(subs) if subs else expr
    r = sp.simplify(e)
    print(f'  {name}: {"PROVED" if r == 0 else "RESIDUAL " + str(r)[:70]}  ({time.time() - t0:.2f}s)')
    return r == 0


p, q = sp.symbols('p q', positive=True)
for fam, theta in (('Clayton', sp.Symbol('theta', positive=True)),
                   ('Frank', sp.Symbol('theta', real=True, nonzero=True)),
                   ('Gumbel', sp.Symbol('theta', positive=True))):
    print(fam)
    cdf_paths, sha, span = summary(fam, 'cumulative_distribution', theta, {})
    print(f'  cumulative_distribution lines {span} sha {sha}: {len(cdf_paths)} paths')
    # the general (non-degenerate) path: no theta == special-case condition, all lanes positive
    gen = [r for c, r in cdf_paths if not any(isinstance(k, sp.Eq) and theta in k.free_symbols for k in c)]
    C = sp.simplify(sp.piecewise_fold(lift(gen[-1])))
    if isinstance(C, sp.Piecewise): C = C.args[0][0]               # branch u>0 and v>0 (open square)
    print('  C =', C)
    methods = {'cumulative_distribution': C}
    h_paths, sha, span = summary(fam, 'partial_derivative', theta, methods)
    H = lift([r for c, r in h_paths if not any(isinstance(k, sp.Eq) and theta in k.free_symbols for k in c)][-1])
    print(f'  partial_derivative lines {span} sha {sha}: {len(h_paths)} paths')
    d_paths, sha, span = summary(fam, 'probability_density', theta, methods)
    D = lift([r for c, r in d_paths if not any(isinstance(k, sp.Eq) and theta in k.free_symbols for k in c)][-1])
    print(f'  probability_density lines {span} sha {sha}: {len(d_paths)} paths')
    sub = {u: sp.exp(-p), v: sp.exp(-q)} if fam == 'Gumbel' else None
    decide('h == dC/dv', sp.diff(C, v) - H, sub)
    decide('pdf == dh/du', sp.diff(H, u) - D, sub)
    # the special-case branches of the real code, against the same contract (theta fixed by the branch condition)
    for paths, what, truth in ((h_paths, 'h', lambda th: sp.diff(C.subs(theta, th), v)),
                               (d_paths, 'pdf', lambda th: sp.diff(C.subs(theta, th), u, v))):
        for c, r in paths:
            eqs = [k for k in c if isinstance(k, sp.Eq) and theta in k.free_symbols]
            if eqs and fam == 'Gumbel':
                th = sp.solve(eqs[0], theta)[0]
                lim = sp.simplify(sp.limit(truth(theta).subs(sub), theta, th) if False else truth(th).subs(sub))
                got = sp.simplify(lift(r).subs(sub))
                want = sp.simplify(lim.subs({p: -sp.log(u), q: -sp.log(v)}))
                print(f'  branch theta=={th} of {what}: code returns {sp.simplify(lift(r))}, contract wants '
                      f'{want}:', 'OK' if sp.simplify(got - lim) == 0 else 'REFUTED')
