import warnings; warnings.simplefilter('ignore')
import numpy as np
from copulas.univariate import *
rng=np.random.RandomState(0); data=rng.normal(size=100)
for cls in [GaussianKDE, GaussianUnivariate, TruncatedGaussian, Univariate]:
    m=cls(); m.fit(data); x=np.array([0.1,0.5])
    try: print(cls.__name__, m.log_probability_density(x), np.log(m.pdf(x)))
    except Exception as e: print(cls.__name__, 'EXC', type(e).__name__, e)
k=GaussianKDE(); k.fit(data); lo,up=k._get_bounds(); print('cdf below lower', k.cdf(np.array([lo-1, lo, -np.inf])))
# constant-fit models: log pdf, cdf etc
g=GaussianUnivariate(); g.fit(np.full(10,2.0)); print(g.cdf(np.array([1.9,2.0,2.1])), g.percent_point(np.array([0.3])), g.sample(2), g.pdf(np.array([2.0,2.1])))
try: print(g.log_probability_density(np.array([2.0,2.1])))
except Exception as e: print('EXC', e)
u=Univariate(); u.fit(np.full(10,2.0)); print(type(u._instance).__name__, u.cdf(np.array([1.9,2.0,2.1])), u.sample(2), u.to_dict())
