import patch
import numpy as np
from copulas.multivariate import vine as V, tree as T
from copulas.bivariate.base import Bivariate
# writable tau
_orig_fit = V.VineCopula.fit
import pandas as pd
_orig_corr = pd.DataFrame.corr
def train_vine(self, tree_type):
    self.tau_mat = np.array(self.tau_mat)
    return _orig_train(self, tree_type)
_orig_train = V.VineCopula.train_vine
V.VineCopula.train_vine = train_vine
def tree_get_likelihood(self, uni_matrix):
    uni_dim = uni_matrix.shape[1]
    num_edge = len(self.edges)
    values = np.zeros([1, num_edge])
    new_uni_matrix = np.empty([uni_dim, uni_dim])
    for i in range(num_edge):
        edge = self.edges[i]
        value, left_u, right_u = edge.get_likelihood(uni_matrix)
        new_uni_matrix[edge.L, edge.R] = left_u[0]
        new_uni_matrix[edge.R, edge.L] = right_u[0]
        values[0, i] = np.log(value)
    return np.sum(values), new_uni_matrix
T.Tree.get_likelihood = tree_get_likelihood
