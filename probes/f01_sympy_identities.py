import sympy as sp, time
u,v,th,y = sp.symbols('u v theta y', positive=True)
def chk(name, e):
    t=time.time()
    r = sp.simplify(e)
    if r != 0:
        r2 = sp.simplify(sp.powsimp(sp.expand_power_base(sp.powdenest(e, force=True), force=True), force=True))
    else: r2 = r
    print(name, '->', r if r==0 else r2, round(time.time()-t,2),'s')
# Clayton
C = (u**-th + v**-th - 1)**(-1/th)
h_code = v**(-th-1) * (v**-th + u**-th - 1)**((-1-th)/th)
pdf_code = (th+1)*(u*v)**(-(th+1)) * (u**-th+v**-th-1)**(-(2*th+1)/th)
chk('clayton h=dC/dv', sp.diff(C,v)-h_code)
chk('clayton pdf=dh/du', sp.diff(h_code,u)-pdf_code)
# ppf inverse
a = y**(th/(-1-th)); b = v**th
ppf = ((a+b-1)/b)**(-1/th)
chk('clayton h(ppf)=y', h_code.subs(u,ppf)-y)
gen = lambda t: (1/th)*(t**-th-1)
chk('clayton gen', gen(C)-gen(u)-gen(v))
# Frank (theta any sign nonzero) -> use real symbol
t = sp.symbols('t', real=True, nonzero=True)
g = lambda z: sp.exp(-t*z)-1
Cf = -1/t*sp.log(1 + g(u)*g(v)/g(1))
hf = (g(u)*g(v)+g(u))/(g(u)*g(v)+g(1))
pf = (-t*g(1))*(1+g(u+v))/(g(u)*g(v)+g(1))**2
chk('frank h=dC/dv', sp.diff(Cf,v)-hf)
chk('frank pdf=dh/du', sp.diff(hf,u)-pf)
# Gumbel, u,v in (0,1): set u=exp(-p), v=exp(-q) p,q>0? do directly
T = sp.symbols('T', positive=True)
lu, lv = -sp.log(u), -sp.log(v)
Cg = sp.exp(-((lu**T + lv**T)**(1/T)))
hg = Cg * (lu**T+lv**T)**(-1+1/T) * lv**(T-1) / v
tmp = lu**T+lv**T
pg = Cg * (u*v)**-1 * tmp**(-2+2/T) * (sp.log(u)*sp.log(v))**(T-1) * (1+(T-1)*tmp**(-1/T))
chk('gumbel h=dC/dv', sp.diff(Cg,v)-hg)
chk('gumbel pdf=dh/du', sp.diff(hg,u)-pg)
