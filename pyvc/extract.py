"""Mechanical extraction of the code under contract: every run re-reads <repo>/copulas, parses it with `ast`,
and hands the AST of the real functions to the executor. Records file, line span and sha256 of each function
segment for the evidence. Dropped by extraction: docstrings and comments only (they are not executable)."""
import ast
import hashlib
import os

REPO = os.environ.get('COPULAS_REPO', '/repo')


class Source(object):
    def __init__(self, root=None):
        self.root = root or REPO
        self._trees = {}
        self._src = {}

    def module_path(self, name):
        parts = name.split('.')
        if parts[0] != 'copulas':
            return None
        base = os.path.join(self.root, *parts)
        if os.path.isfile(base + '.py'):
            return base + '.py'
        if os.path.isdir(base) and os.path.isfile(os.path.join(base, '__init__.py')):
            return os.path.join(base, '__init__.py')
        return None

    def text(self, path):
        if path not in self._src:
            with open(path) as f:
                self._src[path] = f.read()
        return self._src[path]

    def tree(self, path):
        if path not in self._trees:
            self._trees[path] = ast.parse(self.text(path), filename=path)
        return self._trees[path]

    def function_info(self, qualname):
        """'copulas.optimize.bisect' / 'copulas.bivariate.clayton.Clayton.fit' -> dict(file, span, sha256)"""
        parts = qualname.split('.')
        for i in range(len(parts), 0, -1):
            p = self.module_path('.'.join(parts[:i]))
            if p is None:
                continue
            node = self.tree(p)
            ok = True
            for name in parts[i:]:
                if name == '<locals>':
                    continue
                found = None
                for n in ast.walk(node) if not isinstance(node, ast.Module) else node.body:
                    if isinstance(n, (ast.FunctionDef, ast.ClassDef)) and n.name == name and n is not node:
                        found = n
                        break
                if found is None:
                    ok = False
                    break
                node = found
            if ok and not isinstance(node, ast.Module):
                seg = ast.get_source_segment(self.text(p), node) or ''
                return {'qualname': qualname, 'file': os.path.relpath(p, self.root),
                        'span': [node.lineno, node.end_lineno],
                        'sha256': hashlib.sha256(seg.encode()).hexdigest()[:16]}
        return {'qualname': qualname, 'file': None, 'span': None, 'sha256': None}

    def all_functions(self, package='copulas'):
        """yield (qualname, node, path) for every function/method defined in the package"""
        base = os.path.join(self.root, package)
        for dirpath, _dirs, files in os.walk(base):
            for fn in sorted(files):
                if not fn.endswith('.py'):
                    continue
                path = os.path.join(dirpath, fn)
                rel = os.path.relpath(path, self.root)[:-3].replace(os.sep, '.')
                if rel.endswith('.__init__'):
                    rel = rel[:-9]
                tree = self.tree(path)
                for n in tree.body:
                    if isinstance(n, ast.FunctionDef):
                        yield rel + '.' + n.name, n, path
                    elif isinstance(n, ast.ClassDef):
                        for m in n.body:
                            if isinstance(m, ast.FunctionDef):
                                yield rel + '.' + n.name + '.' + m.name, m, path
