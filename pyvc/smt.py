r"""SMT back end: validity of  hyps => goal  over QF_NRA + UF, with exp/log/pow/sqrt/ndtr/ndtri axiomatised by
*ground instantiation* on the terms that occur (DESIGN section 5.2). z3 first, cvc5 (binary) on unknown.

Verdicts:  'proved'   hyps /\ axioms /\ not goal is unsat;
           'refuted'  sat AND the model, evaluated with the true functions in 50-digit arithmetic, satisfies hyps
                      and falsifies goal (or the goal mentions only genuinely uninterpreted functions);
           'unknown'  anything else. Only 'refuted' may ever become a VIOLATION.
"""
import os
import itertools
import subprocess
import time
from fractions import Fraction

from . import ir
from .ir import T

TRANSC = ('exp', 'log', 'pow', 'sqrt', 'ndtr', 'ndtri')


def _occ(terms, op):
    return [t for t in terms if t.op == op]


def ground_axioms(formulas, rounds=2, pow_as_explog=True, max_pairs=400):
    """returns list of T axioms instantiated on the transcendental sub-terms of `formulas`"""
    axioms = []
    seen_ax = set()
    done = set()

    def emit(a):
        if a is not ir.TRUE and a not in seen_ax:
            seen_ax.add(a)
            axioms.append(a)

    universe = set()
    for f in formulas:
        ir.subterms(f, universe)
    def _needs_axioms(t):
        # x**k with a small integer k is emitted as an exact product: no axioms needed
        if t.op == 'pow':
            n = ir._num(t.args[1])
            if n is not None and n.denominator == 1 and 0 < abs(n) <= 8:
                return False
        return t.op in TRANSC

    for _round in range(rounds):
        terms = [t for t in universe if _needs_axioms(t) and t not in done]
        allt = [t for t in universe if _needs_axioms(t)]
        if not terms:
            break
        by = {op: _occ(allt, op) for op in TRANSC}
        for t in terms:
            done.add(t)
            op = t.op
            a = t.args[0]
            if op == 'exp':
                emit(ir.gt(t, 0))
                emit(ir.ge(t, ir.add(1, a)))
                emit(ir.eq(ir.lt(a, 0), ir.lt(t, 1)))
                emit(ir.eq(ir.eq(a, 0), ir.eq(t, 1)))
                na = ir.neg(a)
                e2 = T('exp', (na,), 'R') if ir._num(na) != 0 else None
                if e2 is not None and e2 in universe:
                    emit(ir.eq(ir.mul(t, e2), 1))
                if a.op == 'log':
                    emit(ir.implies(ir.gt(a.args[0], 0), ir.eq(t, a.args[0])))
                if a.op == 'mul' and pow_as_explog:
                    pass
            elif op == 'log':
                pos = ir.gt(a, 0)
                emit(ir.implies(pos, ir.eq(ir.lt(a, 1), ir.lt(t, 0))))
                emit(ir.implies(pos, ir.eq(ir.eq(a, 1), ir.eq(t, 0))))
                emit(ir.implies(pos, ir.le(t, ir.sub(a, 1))))
                emit(ir.implies(pos, ir.ge(ir.mul(a, t), ir.sub(a, 1))))      # log a >= 1 - 1/a
                if a.op == 'exp':
                    emit(ir.eq(t, a.args[0]))
                ex = T('exp', (t,), 'R')
                if ex in universe:
                    emit(ir.implies(pos, ir.eq(ex, a)))
                if a.op == 'mul' and len(a.args) == 2:
                    x, y = a.args
                    lx, ly = ir.log(x), ir.log(y)
                    if lx in universe and ly in universe:
                        emit(ir.implies(ir.and_(ir.gt(x, 0), ir.gt(y, 0)), ir.eq(t, ir.add(lx, ly))))
                if a.op == 'pow':
                    x, y = a.args
                    lx = ir.log(x)
                    if lx in universe:
                        emit(ir.implies(ir.gt(x, 0), ir.eq(t, ir.mul(y, lx))))
            elif op == 'pow':
                x, y = t.args
                pos = ir.gt(x, 0)
                emit(ir.implies(pos, ir.gt(t, 0)))
                emit(ir.implies(ir.eq(x, 1), ir.eq(t, 1)))
                emit(ir.implies(ir.eq(y, 0), ir.eq(t, 1)))
                emit(ir.implies(ir.eq(y, 1), ir.eq(t, x)))
                emit(ir.implies(ir.and_(ir.gt(x, 1), ir.gt(y, 0)), ir.gt(t, 1)))
                emit(ir.implies(ir.and_(ir.gt(x, 1), ir.lt(y, 0)), ir.lt(t, 1)))
                emit(ir.implies(ir.and_(pos, ir.lt(x, 1), ir.gt(y, 0)), ir.lt(t, 1)))
                emit(ir.implies(ir.and_(pos, ir.lt(x, 1), ir.lt(y, 0)), ir.gt(t, 1)))
                # 0 ** y for y > 0 (numpy: 0); used by extended-real margin obligations
                emit(ir.implies(ir.and_(ir.eq(x, 0), ir.gt(y, 0)), ir.eq(t, 0)))
                if x.op == 'pow':
                    xx, a1 = x.args
                    tgt = ir.pow_(xx, ir.mul(a1, y))
                    emit(ir.implies(ir.gt(xx, 0), ir.eq(t, tgt)))
                    universe.update(ir.subterms(tgt))
                ny = ir.neg(y)
                inv = ir.pow_(x, ny)
                if inv in universe and inv is not t:
                    emit(ir.implies(pos, ir.eq(ir.mul(t, inv), 1)))
                if x.op == 'mul' and len(x.args) == 2:
                    p, q = x.args
                    pp, qq = ir.pow_(p, y), ir.pow_(q, y)
                    if pp in universe and qq in universe:
                        emit(ir.implies(ir.and_(ir.gt(p, 0), ir.gt(q, 0)), ir.eq(t, ir.mul(pp, qq))))
                if x.op == 'div':
                    p, q = x.args
                    pp, qq = ir.pow_(p, y), ir.pow_(q, y)
                    if pp in universe and qq in universe:
                        emit(ir.implies(ir.and_(ir.gt(p, 0), ir.gt(q, 0)), ir.eq(ir.mul(t, qq), pp)))
                if pow_as_explog:
                    lx = ir.log(x)
                    if lx in universe:
                        ex = ir.exp(ir.mul(y, lx))
                        if ex in universe:
                            emit(ir.implies(pos, ir.eq(t, ex)))
            elif op == 'sqrt':
                emit(ir.implies(ir.ge(a, 0), ir.and_(ir.ge(t, 0), ir.eq(ir.mul(t, t), a))))
            elif op == 'ndtr':
                emit(ir.and_(ir.gt(t, 0), ir.lt(t, 1)))
                emit(ir.eq(ir.lt(a, 0), ir.lt(t, ir.const(Fraction(1, 2)))))
                emit(ir.eq(ir.eq(a, 0), ir.eq(t, ir.const(Fraction(1, 2)))))
                na = ir.neg(a)
                t2 = ir.ndtr(na)
                if t2 in universe and t2 is not t:
                    emit(ir.eq(ir.add(t, t2), 1))
                if a.op == 'ndtri':
                    p = a.args[0]
                    emit(ir.implies(ir.and_(ir.gt(p, 0), ir.lt(p, 1)), ir.eq(t, p)))
            elif op == 'ndtri':
                emit(ir.implies(ir.and_(ir.gt(a, 0), ir.lt(a, 1)),
                                ir.eq(ir.lt(a, ir.const(Fraction(1, 2))), ir.lt(t, 0))))
                if a.op == 'ndtr':
                    emit(ir.eq(t, a.args[0]))
        # pairwise schemas
        npairs = 0
        for op in ('exp', 'log', 'ndtr', 'ndtri'):
            occ = by[op]
            for s, t in itertools.combinations(occ, 2):
                if npairs > max_pairs:
                    break
                npairs += 1
                a, b = s.args[0], t.args[0]
                if op in ('exp', 'ndtr'):
                    emit(ir.eq(ir.lt(a, b), ir.lt(s, t)))
                    emit(ir.eq(ir.eq(a, b), ir.eq(s, t)))
                elif op == 'log':
                    pos = ir.and_(ir.gt(a, 0), ir.gt(b, 0))
                    emit(ir.implies(pos, ir.eq(ir.lt(a, b), ir.lt(s, t))))
                    emit(ir.implies(pos, ir.eq(ir.eq(a, b), ir.eq(s, t))))
                else:
                    dom = ir.and_(ir.gt(a, 0), ir.lt(a, 1), ir.gt(b, 0), ir.lt(b, 1))
                    emit(ir.implies(dom, ir.eq(ir.lt(a, b), ir.lt(s, t))))
                if op == 'exp':
                    sm = T('exp', (ir.add(a, b),), 'R') if ir._num(ir.add(a, b)) is None else None
                    if sm is not None and sm in universe:
                        emit(ir.eq(ir.mul(s, t), sm))
                    df = ir.sub(a, b)
                    dm = T('exp', (df,), 'R') if ir._num(df) is None else None
                    if dm is not None and dm in universe:
                        emit(ir.eq(s, ir.mul(t, dm)))
                    df = ir.sub(b, a)
                    dm = T('exp', (df,), 'R') if ir._num(df) is None else None
                    if dm is not None and dm in universe:
                        emit(ir.eq(t, ir.mul(s, dm)))
        # inverse pairs *through an equality*:  A == exp(b) => log(A) == b ;  A == log(b), b > 0 => exp(A) == b
        for lg in by['log']:
            for ex in by['exp']:
                if npairs > max_pairs:
                    break
                npairs += 1
                A, b = lg.args[0], ex.args[0]
                if A is not ex:
                    emit(ir.implies(ir.eq(A, ex), ir.eq(lg, b)))
                B = ex.args[0]
                if B is not lg:
                    emit(ir.implies(ir.and_(ir.eq(B, lg), ir.gt(lg.args[0], 0)), ir.eq(ex, lg.args[0])))
                nb = ir.neg(B)
                if nb is not lg and B.op != 'const':
                    # exp(-log x) == 1/x
                    emit(ir.implies(ir.and_(ir.eq(nb, lg), ir.gt(lg.args[0], 0)), ir.eq(ir.mul(ex, lg.args[0]), 1)))
        for s, t in itertools.combinations(by['pow'], 2):
            if npairs > max_pairs:
                break
            npairs += 1
            (x1, y1), (x2, y2) = s.args, t.args
            if x1 is x2:
                pos = ir.gt(x1, 0)
                emit(ir.implies(ir.and_(ir.gt(x1, 1), ir.lt(y1, y2)), ir.lt(s, t)))
                emit(ir.implies(ir.and_(ir.gt(x1, 1), ir.lt(y2, y1)), ir.lt(t, s)))
                emit(ir.implies(ir.and_(pos, ir.lt(x1, 1), ir.lt(y1, y2)), ir.gt(s, t)))
                emit(ir.implies(ir.and_(pos, ir.lt(x1, 1), ir.lt(y2, y1)), ir.gt(t, s)))
                sm = ir.pow_(x1, ir.add(y1, y2))
                if sm in universe or sm.op == 'const' or sm is x1 or _round == 0:
                    emit(ir.implies(pos, ir.eq(ir.mul(s, t), sm)))
                    universe.update(ir.subterms(sm))
                df = ir.pow_(x1, ir.sub(y1, y2))
                if df in universe:
                    emit(ir.implies(pos, ir.eq(s, ir.mul(t, df))))
                df = ir.pow_(x1, ir.sub(y2, y1))
                if df in universe:
                    emit(ir.implies(pos, ir.eq(t, ir.mul(s, df))))
            # pow of pow *through an equality*:  X == pow(x, a)  =>  pow(X, b) == pow(x, a*b)
            for (p_, q_) in ((s, t), (t, s)):
                X, b = p_.args
                xx, a1 = q_.args
                if X is not q_ and X.op != 'const' and ir._num(xx) is None:
                    tgt = ir.pow_(xx, ir.mul(a1, b))
                    emit(ir.implies(ir.and_(ir.eq(X, q_), ir.gt(xx, 0)), ir.eq(p_, tgt)))
                    universe.update(ir.subterms(tgt))
            if y1 is y2:
                pos = ir.and_(ir.gt(x1, 0), ir.gt(x2, 0))
                emit(ir.implies(ir.and_(pos, ir.gt(y1, 0)), ir.eq(ir.lt(x1, x2), ir.lt(s, t))))
                emit(ir.implies(ir.and_(pos, ir.lt(y1, 0)), ir.eq(ir.lt(x1, x2), ir.gt(s, t))))
        for a in axioms:
            ir.subterms(a, universe)
    return axioms


def _needs_axioms_pow(t):
    n = ir._num(t.args[1])
    return not (n is not None and n.denominator == 1 and 0 < abs(n) <= 8)


class Result(object):
    def __init__(self, verdict, model=None, backend='z3', seconds=0.0, detail=''):
        self.verdict, self.model, self.backend, self.seconds, self.detail = verdict, model, backend, seconds, detail

    def __repr__(self):
        return 'Result(%s, %s, %.3fs%s)' % (self.verdict, self.backend, self.seconds,
                                            (', ' + self.detail) if self.detail else '')


def _model_env(z3, m, em, vars_):
    env = {}
    for v in vars_:
        zv = em(v)
        val = m.eval(zv, model_completion=True)
        if v.sort == 'B':
            env[v.args[0]] = z3.is_true(val)
        elif v.sort in ('R', 'I'):
            if z3.is_rational_value(val) or z3.is_int_value(val):
                env[v.args[0]] = Fraction(val.as_fraction()) if v.sort == 'R' else val.as_long()
            elif z3.is_algebraic_value(val):
                ap = val.approx(30)
                env[v.args[0]] = Fraction(ap.as_fraction())
            else:
                env[v.args[0]] = None
        else:
            env[v.args[0]] = str(val)
    return env


def numeric_check(hyps, goal, env, ufs=None, prec_digits=50):
    """True  iff every hyp evaluates to True and goal to False at env (with the true exp/log/pow...).
    None when something cannot be evaluated."""
    import mpmath
    old = mpmath.mp.dps
    mpmath.mp.dps = prec_digits
    try:
        cache = {}
        for h in hyps:
            v = ir.evaluate(h, env, ufs, cache=cache)
            if v is not True:
                return False if v is False else None
        g = ir.evaluate(goal, env, ufs, cache=cache)
        if g is False:
            return True
        return False if g is True else None
    except (ir.EvalError, TypeError, KeyError, ZeroDivisionError, ValueError, OverflowError):
        return None
    finally:
        mpmath.mp.dps = old


def prove(hyps, goal, timeout_ms=20000, extra_axioms=(), free_ufs_ok=False, ufs=None, use_cvc5=True, rounds=2,
          pow_as_explog=True, hints=()):
    """Decide validity of (and hyps) => goal."""
    import z3
    t0 = time.time()
    hyps = [ir.const(h) for h in hyps]
    goal = ir.const(goal)
    if goal is ir.TRUE:
        return Result('proved', backend='simplifier', seconds=0.0)
    formulas = list(hyps) + [goal] + list(extra_axioms)
    # hints are extra *terms* whose axioms get instantiated (triggers only; they add no assumption)
    axioms = ground_axioms(formulas + [ir.eq(h, h) if False else ir.T('uf', ('hint', h), 'B') for h in hints],
                           rounds=rounds, pow_as_explog=pow_as_explog)
    em = ir.Z3Emitter()
    s = z3.Solver()
    s.set('timeout', int(timeout_ms))
    for f in itertools.chain(hyps, extra_axioms, axioms):
        s.add(em(f))
    s.add(z3.Not(em(goal)))
    r = s.check()
    dt = time.time() - t0
    if r == z3.unsat:
        return Result('proved', backend='z3', seconds=dt, detail='%d ground axioms' % len(axioms))
    if r == z3.sat:
        m = s.model()
        allv = set()
        for f in formulas:
            allv |= ir.free_vars(f)
        env = _model_env(z3, m, em, allv)
        universe = set()
        for f in formulas:
            ir.subterms(f, universe)
        has_transc = any(t.op in TRANSC and not (t.op == 'pow' and ir._num(t.args[1]) is not None and
                                                 ir._num(t.args[1]).denominator == 1 and abs(ir._num(t.args[1])) <= 8)
                         for t in universe)
        has_uf = any(t.op == 'uf' for t in universe)
        if not has_transc and (not has_uf or free_ufs_ok):
            mm = {'env': env}
            if has_uf:
                mm['uf_points'] = _uf_points(z3, m, em, universe)
            return Result('refuted', model=mm, backend='z3', seconds=dt)
        if not has_uf or ufs:
            ok = numeric_check(hyps + list(extra_axioms), goal, env, ufs)
            if ok is True:
                return Result('refuted', model={'env': env}, backend='z3+mpmath', seconds=dt)
        rep = _repair(z3, s, m, em, universe, timeout_ms)
        if rep is None:
            # ask for a better-behaved abstract model (no division by zero, arguments inside the domains) and retry
            s.push()
            try:
                for t in universe:
                    if t.op == 'div':
                        s.add(em.real(em(t.args[1])) != 0)
                    elif t.op == 'log':
                        s.add(em.real(em(t.args[0])) > 0)
                    elif t.op == 'sqrt':
                        s.add(em.real(em(t.args[0])) >= 0)
                    elif t.op == 'ndtri':
                        s.add(em.real(em(t.args[0])) > 0, em.real(em(t.args[0])) < 1)
                    elif t.op == 'pow' and _needs_axioms_pow(t):
                        s.add(em.real(em(t.args[0])) > 0)
                if s.check() == z3.sat:
                    m2 = s.model()
                    rep = _repair(z3, s, m2, em, universe, timeout_ms)
            finally:
                s.pop()
        if rep is not None and _repaired_is_spurious(z3, rep, em, universe, allv, hyps + list(extra_axioms), goal, ufs):
            # the enclosures leave ~1e-25 of slack: an identity that holds exactly can be 'violated' inside it.
            # Re-evaluated with the true functions the goal holds (or is within rounding), so this is no counterexample.
            rep = None
        if rep is None:
            # ask for a ROBUST counterexample (the goal violated by a margin, arguments inside the domains) and repair that
            rn = _robust_negation(goal)
            if rn is not None:
                s.push()
                try:
                    s.add(em(rn))
                    for t in universe:
                        if t.op == 'div':
                            s.add(em.real(em(t.args[1])) != 0)
                        elif t.op == 'log':
                            s.add(em.real(em(t.args[0])) > 0)
                        elif t.op == 'sqrt':
                            s.add(em.real(em(t.args[0])) >= 0)
                    s.set('timeout', int(min(timeout_ms, 10000)))
                    if s.check() == z3.sat:
                        rep2 = _repair(z3, s, s.model(), em, universe, timeout_ms)
                        if rep2 is not None and not _repaired_is_spurious(z3, rep2, em, universe, allv,
                                                                           hyps + list(extra_axioms), goal, ufs):
                            rep = rep2
                except Exception:
                    pass
                finally:
                    s.pop()
                    s.set('timeout', int(timeout_ms))
        if rep is not None:
            env2 = _model_env(z3, rep, em, allv)
            mm = {'env': env2}
            if has_uf:
                mm['uf_points'] = _uf_points(z3, rep, em, universe)
            return Result('refuted', model=mm, backend='z3+repair', seconds=time.time() - t0,
                          detail='model re-solved with the transcendental applications pinned to 1e-25 enclosures of '
                                 'their true values')
        if free_ufs_ok or not has_uf:
            fm = falsify(hyps + list(extra_axioms), goal, seeds=[env])
            if fm is not None:
                return Result('refuted', model=fm, backend='z3+falsifier', seconds=time.time() - t0,
                              detail='concrete counter-model found by numeric search (true transcendental functions, '
                                     'uninterpreted applications functionally consistent)')
        if free_ufs_ok:
            dm = descent_refute(hyps + list(extra_axioms), goal, timeout_ms=min(timeout_ms, 10000))
            if dm is not None:
                return Result('refuted', model=dm, backend='z3+descent', seconds=time.time() - t0,
                              detail='the two sides differ in one argument chain; values found numerically for the innermost '
                                     'differing pair, then the whole query re-solved with them pinned')
        return Result('unknown', model={'env': env}, backend='z3', seconds=dt,
                      detail='sat under abstraction of transcendental functions; model not confirmed numerically')
    # unknown -> cvc5
    if use_cvc5:
        r2 = _cvc5(s, timeout_ms)
        dt = time.time() - t0
        if r2 == 'unsat':
            return Result('proved', backend='cvc5', seconds=dt, detail='%d ground axioms' % len(axioms))
    return Result('unknown', backend='z3', seconds=time.time() - t0, detail=str(s.reason_unknown()))


def _repair(z3, solver, m, em, universe, timeout_ms):
    """model repair: keep the model's values of the variables and uninterpreted applications that occur inside
    transcendental applications, recompute every transcendental application from them with the TRUE functions, pin
    both (values exactly, true function values to 1e-25 enclosures) and re-solve. A model of the strengthened query is
    a genuine counterexample (up to the enclosures)."""
    import mpmath
    apps = [t for t in universe if t.op in TRANSC]
    if not apps or len(apps) > 80:
        return None
    inside = set()
    for t in apps:
        for a in t.args:
            ir.subterms(a, inside)
    leaves = [t for t in inside if t.op in ('var', 'uf') and t.sort in ('R', 'I')]
    old = mpmath.mp.dps
    mpmath.mp.dps = 40
    pushed = False
    try:
        val = {}
        for t in leaves:
            v = m.eval(em(t), model_completion=True)
            if z3.is_algebraic_value(v):
                v = v.approx(30)
            if z3.is_int_value(v):
                fr = Fraction(v.as_long())
            elif z3.is_rational_value(v):
                fr = Fraction(v.as_fraction())
            else:
                return None
            val[t] = (fr, mpmath.mpf(fr.numerator) / fr.denominator)
        num = {t: v[1] for t, v in val.items()}
        order = _topo(apps)
        for t in order:
            if t in num:
                continue
            if t.op == 'const':
                c = t.args[0]
                if t.sort in ('R', 'I') and not isinstance(c, str):
                    num[t] = mpmath.mpf(Fraction(c).numerator) / Fraction(c).denominator
                elif isinstance(c, str) and t.sort == 'R':
                    return None
                else:
                    num[t] = c
            elif t.op in ('var', 'uf'):
                if t.sort == 'B':
                    num[t] = z3.is_true(m.eval(em(t), model_completion=True))
                elif t.sort in ('U', 'S'):
                    num[t] = ('tok', id(t))              # opaque (only ever an argument of an uninterpreted application)
                else:
                    return None
            else:
                try:
                    num[t] = _eval_op(t, [num[a] for a in t.args], mpmath)
                except (ir.EvalError, KeyError, TypeError, ZeroDivisionError, ValueError, OverflowError):
                    return None
                if num[t] is None:
                    return None
        solver.push()
        pushed = True
        for t, (fr, _x) in val.items():
            solver.add(em.real(em(t)) == z3.RealVal(str(fr)))
        for t in apps:
            y = num[t]
            if not isinstance(y, mpmath.mpf) or not mpmath.isfinite(y) or abs(y) > mpmath.mpf(10) ** 60:
                solver.pop()
                return None
            eps = abs(y) * mpmath.mpf(10) ** -25 + mpmath.mpf(10) ** -38
            lo = Fraction(str(mpmath.nstr(y - eps, 38, strip_zeros=False)))
            hi = Fraction(str(mpmath.nstr(y + eps, 38, strip_zeros=False)))
            solver.add(em(t) >= z3.RealVal(str(lo)), em(t) <= z3.RealVal(str(hi)))
        solver.set('timeout', int(min(timeout_ms, 10000)))
        r = solver.check()
        out = solver.model() if r == z3.sat else None
        solver.pop()
        return out
    except Exception:
        if pushed:
            try:
                solver.pop()
            except Exception:
                pass
        return None
    finally:
        mpmath.mp.dps = old


def _robust_negation(g, margin=Fraction(1, 10 ** 6)):
    """a formula implying not(g) in which every real comparison is violated by at least `margin` (None if g has no such
    comparison): a counterexample of it survives the 1e-25 slack of the enclosures"""
    m = ir.const(margin)

    def neg(t):
        if t.op == 'and':
            parts = [neg(a) for a in t.args]
            parts = [p for p in parts if p is not None]
            return ir.or_(*parts) if parts else None
        if t.op == 'or':
            parts = [neg(a) for a in t.args]
            return ir.and_(*parts) if all(p is not None for p in parts) else None
        if t.op == 'not':
            return pos(t.args[0])
        if t.op in ('eq', 'le', 'lt') and all(a.sort in ('R', 'I') for a in t.args):
            a, b = t.args
            if t.op == 'eq':
                return ir.or_(ir.gt(ir.sub(a, b), m), ir.gt(ir.sub(b, a), m))
            return ir.gt(ir.sub(a, b), m)                       # a <= b / a < b  violated by a margin
        return ir.not_(t)

    def pos(t):
        if t.op == 'and':
            parts = [pos(a) for a in t.args]
            return ir.and_(*parts) if all(p is not None for p in parts) else None
        if t.op == 'or':
            parts = [pos(a) for a in t.args]
            parts = [p for p in parts if p is not None]
            return ir.or_(*parts) if parts else None
        if t.op == 'not':
            return neg(t.args[0])
        if t.op in ('le', 'lt') and all(a.sort in ('R', 'I') for a in t.args):
            a, b = t.args
            return ir.gt(ir.sub(b, a), m)
        return t
    try:
        return neg(g)
    except Exception:
        return None


def _repaired_is_spurious(z3, m, em, universe, allv, hyps, goal, ufs):
    """Evaluate hyps and goal with the TRUE transcendental functions at the repaired model (variables and uninterpreted
    applications take the model's values). True when the goal then holds, is within the rounding band, or a hypothesis
    fails: the 'counterexample' lives only in the slack of the enclosures. False when it is confirmed or cannot be
    evaluated (the caller keeps the model; its hypotheses were satisfied up to 1e-25)."""
    import mpmath
    env = _model_env(z3, m, em, allv)
    old = mpmath.mp.dps
    # z3 likes extreme rationals (1 - 1e-308): first collect every value, then evaluate with enough digits to tell each of
    # them from its neighbours
    need = 50
    for v in env.values():
        if isinstance(v, Fraction):
            need = max(need, 2 * (len(str(v.denominator)) + len(str(abs(v.numerator)))) + 50)
    ufvals = {}
    if not ufs:
        for t in universe:
            if t.op != 'uf':
                continue
            try:
                v = m.eval(em(t), model_completion=True)
            except Exception:
                continue
            if t.sort == 'B':
                ufvals[t] = z3.is_true(v)
            elif t.sort in ('R', 'I'):
                if z3.is_algebraic_value(v):
                    v = v.approx(30)
                if z3.is_int_value(v) or z3.is_rational_value(v):
                    fr = Fraction(v.as_fraction()) if not z3.is_int_value(v) else Fraction(v.as_long())
                    need = max(need, 2 * (len(str(fr.denominator)) + len(str(abs(fr.numerator)))) + 50)
                    ufvals[t] = fr
            else:
                ufvals[t] = str(v)
    mpmath.mp.dps = min(need, 3000)
    try:
        cache = {}
        for t, v in ufvals.items():
            cache[t] = mpmath.mpf(v.numerator) / mpmath.mpf(v.denominator) if isinstance(v, Fraction) else v
        dbg = os.environ.get('VERIF_DEBUG_REPAIR')
        try:
            for h in hyps:
                hv = ir.evaluate(h, env, ufs, cache=cache)
                if hv is False:
                    if dbg:
                        print('REPAIR: hypothesis false at the repaired model:', ir.show(h)[:300])
                        for a_ in (h.args if h.op == 'and' else [h]):
                            print('   conj', ir.show(a_)[:120], '->', ir.evaluate(a_, env, ufs, cache=cache),
                                  [(ir.show(x)[:60], cache.get(x)) for x in ir.subterms(a_) if x.op == 'uf'][:3],
                                  'z3:', m.eval(em(a_), model_completion=True))
                    return True
            g = ir.evaluate(goal, env, ufs, cache=cache)
        except (ir.EvalError, TypeError, KeyError, ZeroDivisionError, ValueError, OverflowError, NotImplementedError) as e:
            if dbg:
                print('REPAIR: cannot evaluate:', repr(e)[:300])
            return False
        if dbg:
            print('REPAIR: goal evaluates to', g)
        return g is not False
    finally:
        mpmath.mp.dps = old


def _uf_points(z3, m, em, universe):
    pts = {}
    for t in universe:
        if t.op == 'uf':
            try:
                args = [m.eval(em(a), model_completion=True) for a in t.args[1:]]
                val = m.eval(em(t), model_completion=True)
                pts.setdefault(t.args[0], []).append(([str(a) for a in args], str(val)))
            except Exception:
                pass
    return pts


def _cvc5(solver, timeout_ms):
    try:
        smt2 = '(set-logic ALL)\n' + solver.to_smt2()
        p = subprocess.run(['/usr/bin/cvc5', '--lang=smt2', '--tlimit=%d' % int(timeout_ms), '--nl-ext-tplanes'],
                           input=smt2, capture_output=True, text=True, timeout=timeout_ms / 1000.0 + 5)
        out = p.stdout.strip().split('\n')[0] if p.stdout.strip() else ''
        return out
    except Exception:
        return 'error'


def satisfiable(formulas, timeout_ms=5000):
    """vacuity guard: is the conjunction satisfiable (under the same abstraction)? returns (bool|None, env)"""
    import z3
    formulas = [ir.const(f) for f in formulas]
    axioms = ground_axioms(formulas)
    em = ir.Z3Emitter()
    s = z3.Solver()
    s.set('timeout', int(timeout_ms))
    for f in itertools.chain(formulas, axioms):
        s.add(em(f))
    r = s.check()
    if r == z3.sat:
        allv = set()
        for f in formulas:
            allv |= ir.free_vars(f)
        return True, _model_env(z3, s.model(), em, allv)
    if r == z3.unsat:
        return False, None
    return None, None


# ------------------------------------------------------------------------------------------------
# numeric falsifier: a search for a concrete counter-model when the solver only has an abstract one
# ------------------------------------------------------------------------------------------------

def falsify(hyps, goal, samples=300, seed=0, seeds=()):
    """Search for an assignment under which every hypothesis evaluates to True and the goal to False, with the TRUE
    exp/log/pow/sqrt/Phi and with every uninterpreted application given an arbitrary but functionally consistent
    value (same argument values => same value). A hit is a genuine counter-model of  hyps => goal."""
    import random
    import mpmath
    rnd = random.Random(seed)
    formulas = list(hyps) + [goal]
    universe = set()
    for f in formulas:
        ir.subterms(f, universe)
    order = _topo(formulas)
    old = mpmath.mp.dps
    mpmath.mp.dps = 40

    def draw(sort, name=''):
        if sort == 'B':
            return rnd.random() < 0.5
        if sort == 'I':
            return mpmath.mpf(rnd.choice([0, 1, 1, 2, 2, 3, 5, 17]))
        if sort in ('U', 'S'):
            return ('tok', rnd.getrandbits(48))
        k = rnd.random()
        if k < 0.35:
            return mpmath.mpf(rnd.gauss(0, 1))
        if k < 0.6:
            return mpmath.mpf(rnd.uniform(0, 1))
        if k < 0.8:
            return mpmath.mpf(rnd.gauss(0, 12))
        if k < 0.9:
            return mpmath.mpf(rnd.choice([0, 1, -1, 0.5, 2, 1e-9, -40, 40, 7.5, -7.5]))
        return mpmath.mpf(rnd.uniform(-3, 3)) * 10 ** rnd.randint(-3, 3)

    try:
        for trial in range(samples):
            val = {}
            table = {}
            bad = False
            hint = seeds[trial] if trial < len(seeds) else {}
            for t in order:
                try:
                    if t.op == 'const':
                        v = t.args[0]
                        if t.sort in ('R', 'I') and not isinstance(v, str):
                            val[t] = mpmath.mpf(Fraction(v).numerator) / Fraction(v).denominator
                        elif isinstance(v, str) and t.sort == 'R':
                            val[t] = {'inf': mpmath.inf, '-inf': -mpmath.inf, 'nan': mpmath.nan}[v]
                        else:
                            val[t] = v
                    elif t.op == 'var':
                        hv = hint.get(t.args[0])
                        if hv is not None and t.sort in ('R', 'I'):
                            val[t] = mpmath.mpf(Fraction(hv).numerator) / Fraction(hv).denominator \
                                if isinstance(hv, (Fraction, int)) else mpmath.mpf(hv)
                        elif hv is not None and t.sort == 'B':
                            val[t] = bool(hv)
                        else:
                            val[t] = draw(t.sort, t.args[0])
                    elif t.op == 'uf':
                        key = (t.args[0], tuple(_key(val[a]) for a in t.args[1:]))
                        if key not in table:
                            table[key] = draw(t.sort, t.args[0])
                        val[t] = table[key]
                    else:
                        val[t] = _eval_op(t, [val[a] for a in t.args], mpmath)
                except (ir.EvalError, ZeroDivisionError, ValueError, OverflowError, TypeError):
                    bad = True
                    break
            if bad:
                continue
            if all(val[h] is True for h in hyps) and val[goal] is False:
                env = {t.args[0]: (float(v) if isinstance(v, mpmath.mpf) else v) for t, v in val.items() if t.op == 'var'}
                ufv = {}
                for t, v in val.items():
                    if t.op == 'uf' and t.sort in ('R', 'I', 'B'):
                        ufv.setdefault(t.args[0], []).append(float(v) if isinstance(v, mpmath.mpf) else v)
                return {'env': env, 'uf_values': {k: v[:4] for k, v in ufv.items()}, 'trial': trial}
        return None
    finally:
        mpmath.mp.dps = old


def _key(v):
    import mpmath
    if isinstance(v, mpmath.mpf):
        return ('n', mpmath.nstr(v, 25))
    return v


def _topo(formulas):
    seen, order = set(), []
    for f in formulas:
        stack = [(f, False)]
        while stack:
            t, done = stack.pop()
            if done:
                if t not in seen:
                    seen.add(t)
                    order.append(t)
                continue
            if t in seen:
                continue
            stack.append((t, True))
            for a in t.args:
                if isinstance(a, T) and a not in seen:
                    stack.append((a, False))
    return order


def _eval_op(t, a, mpmath):
    op = t.op
    tol = mpmath.mpf(10) ** -25

    def cmp_(x, y):
        if isinstance(x, mpmath.mpf) or isinstance(y, mpmath.mpf):
            d = x - y
            if abs(d) <= tol * max(1, abs(x), abs(y)):
                return 0 if x == y else None
            return -1 if d < 0 else 1
        return 0 if x == y else 2
    if op == 'add':
        return mpmath.fsum(a)
    if op == 'mul':
        r = mpmath.mpf(1)
        for x in a:
            r *= x
        return r
    if op == 'div':
        if a[1] == 0:
            raise ir.EvalError('div0')
        return a[0] / a[1]
    if op == 'pow':
        n = ir._num(t.args[1])
        if n is not None and n.denominator == 1:
            if a[0] == 0 and n < 0:
                raise ir.EvalError('0**neg')
            return a[0] ** int(n)
        if a[0] < 0 or (a[0] == 0 and a[1] <= 0):
            raise ir.EvalError('pow domain')
        if a[0] > 0 and abs(a[1] * mpmath.log(a[0])) > 5000:
            raise ir.EvalError('overflow')
        return mpmath.power(a[0], a[1])
    if op == 'exp':
        if abs(a[0]) > 5000:
            raise ir.EvalError('overflow')                      # also keeps mpmath from computing ln 2 to 1e30 digits
        return mpmath.exp(a[0])
    if op == 'log':
        if a[0] <= 0:
            raise ir.EvalError('log domain')
        return mpmath.log(a[0])
    if op == 'sqrt':
        if a[0] < 0:
            raise ir.EvalError('sqrt domain')
        return mpmath.sqrt(a[0])
    if op == 'abs':
        return abs(a[0])
    if op == 'sign':
        return mpmath.mpf((a[0] > 0) - (a[0] < 0))
    if op == 'min':
        return min(a)
    if op == 'max':
        return max(a)
    if op == 'ndtr':
        return mpmath.ncdf(a[0])
    if op == 'ndtri':
        if not (0 < a[0] < 1):
            raise ir.EvalError('ndtri domain')
        return mpmath.sqrt(2) * mpmath.erfinv(2 * a[0] - 1)
    if op == 'ite':
        if a[0] is None:
            raise ir.EvalError('undetermined')
        return a[1] if a[0] else a[2]
    if op == 'not':
        return None if a[0] is None else (not a[0])
    if op == 'and':
        if any(x is False for x in a):
            return False
        return True if all(x is True for x in a) else None
    if op == 'or':
        if any(x is True for x in a):
            return True
        return False if all(x is False for x in a) else None
    if op in ('lt', 'le', 'eq'):
        c = cmp_(a[0], a[1])
        if c is None:
            return None
        if op == 'eq':
            return c == 0
        if c == 2:
            raise ir.EvalError('order of non-numbers')
        return (c < 0) if op == 'lt' else (c <= 0)
    raise ir.EvalError('op ' + op)


# ------------------------------------------------------------------------------------------------
# refutation of data-flow equalities by descent to the first differing argument
# ------------------------------------------------------------------------------------------------

def _descend(a, b, depth=0):
    """a != b syntactically. While both are applications of the same (uninterpreted or injective-looking) head with
    exactly one differing argument position, go into it. Returns the innermost differing pair."""
    while depth < 40 and a.op == b.op and len(a.args) == len(b.args) and a.op in ('uf', 'ndtri', 'ndtr', 'exp', 'log'):
        if a.op == 'uf' and a.args[0] != b.args[0]:
            break
        diff = [(x, y) for x, y in zip(a.args, b.args) if isinstance(x, T) and x is not y]
        if len(diff) != 1:
            break
        a, b = diff[0]
        depth += 1
    return a, b


def descent_refute(hyps, goal, timeout_ms=10000, samples=400, seed=0):
    """goal: an equality A == B. Find values of the symbols of the innermost differing pair (a, b) with a != b under
    the true functions, then ask z3 for a model of  hyps /\\ not goal  with those values pinned (transcendental
    applications pinned to enclosures of their true values). Sound: a returned model is a model of the pinned,
    hence of the original, query; uninterpreted functions stay free."""
    import random
    import mpmath
    import z3
    if goal.op != 'eq' or goal.args[0].sort not in ('R', 'I', 'U'):
        return None
    a, b = _descend(goal.args[0], goal.args[1])
    if a.sort not in ('R', 'I'):
        return None
    pair = ir.ne(a, b)
    sub = set()
    ir.subterms(pair, sub)
    leaf_syms = {t for t in sub if t.op == 'var' or t.op == 'uf'}
    # hypotheses that only talk about symbols of the pair are respected by the local search
    local = []
    for h in hyps:
        hs = set()
        ir.subterms(h, hs)
        if all((t in leaf_syms) for t in hs if t.op in ('var', 'uf')):
            local.append(h)
    order = _topo([pair] + local)
    rnd = random.Random(seed)
    consts = sorted({abs(float(ir._num(t))) for t in order if t.op == 'const' and ir._num(t) is not None and
                     abs(ir._num(t)) > 4})
    old = mpmath.mp.dps
    mpmath.mp.dps = 40
    witness = None
    try:
        for trial in range(samples):
            val, table, bad = {}, {}, False
            for t in order:
                try:
                    if t.op == 'const':
                        v = t.args[0]
                        if t.sort in ('R', 'I') and not isinstance(v, str):
                            val[t] = mpmath.mpf(Fraction(v).numerator) / Fraction(v).denominator
                        elif isinstance(v, str) and t.sort == 'R':
                            val[t] = {'inf': mpmath.inf, '-inf': -mpmath.inf, 'nan': mpmath.nan}[v]
                        else:
                            val[t] = v
                    elif t.op == 'var' or t.op == 'uf':
                        if t.op == 'uf':
                            key = (t.args[0], tuple(_key(val[x]) for x in t.args[1:] if isinstance(x, T)))
                            if key in table:
                                val[t] = table[key]
                                continue
                        if t.sort == 'B':
                            v = rnd.random() < 0.5
                        elif t.sort == 'I':
                            v = mpmath.mpf(rnd.choice([1, 2, 3, 5]))
                        elif t.sort in ('U', 'S'):
                            v = ('tok', rnd.getrandbits(40))
                        else:
                            k = rnd.random()
                            if consts and k > 0.8:
                                # around the large constants the formulas compare against (e.g. 1/eps thresholds)
                                v = mpmath.mpf(rnd.choice(consts)) * rnd.choice([0.5, 2, 4]) * rnd.choice([1, 1, -1])
                            else:
                                v = mpmath.mpf(rnd.gauss(0, 1)) if k < 0.3 else (mpmath.mpf(rnd.uniform(0.05, 3)) if k < 0.6
                                                                                else mpmath.mpf(rnd.gauss(0, 30)))
                            v = mpmath.mpf(round(float(v) * 64)) / 64          # dyadic: exactly representable for z3
                        val[t] = v
                        if t.op == 'uf':
                            table[key] = v
                    else:
                        val[t] = _eval_op(t, [val[x] for x in t.args], mpmath)
                except (ir.EvalError, ZeroDivisionError, ValueError, OverflowError, TypeError):
                    bad = True
                    break
            if bad or val[pair] is not True or not all(val[h] is True for h in local):
                continue
            witness = val
            break
        if witness is None:
            return None
        # pin and re-solve
        em = ir.Z3Emitter()
        s = z3.Solver()
        s.set('timeout', int(timeout_ms))
        formulas = list(hyps) + [goal]
        for f in hyps:
            s.add(em(f))
        s.add(z3.Not(em(goal)))
        for ax in ground_axioms(formulas):
            s.add(em(ax))
        for t in leaf_syms:
            v = witness.get(t)
            if isinstance(v, mpmath.mpf) and t.sort in ('R', 'I'):
                fr = Fraction(str(mpmath.nstr(v, 30, strip_zeros=False)))
                s.add(em.real(em(t)) == z3.RealVal(str(fr)))
            elif isinstance(v, bool):
                s.add(em(t) == z3.BoolVal(v))
        for t in sub:
            if t.op in TRANSC and isinstance(witness.get(t), mpmath.mpf) and mpmath.isfinite(witness[t]):
                y = witness[t]
                eps = abs(y) * mpmath.mpf(10) ** -25 + mpmath.mpf(10) ** -38
                lo = Fraction(str(mpmath.nstr(y - eps, 36, strip_zeros=False)))
                hi = Fraction(str(mpmath.nstr(y + eps, 36, strip_zeros=False)))
                s.add(em(t) >= z3.RealVal(str(lo)), em(t) <= z3.RealVal(str(hi)))
        if s.check() != z3.sat:
            return None
        m = s.model()
        allv = set()
        for f in formulas:
            allv |= ir.free_vars(f)
        env = _model_env(z3, m, em, allv)
        return {'env': env, 'differing_pair': [ir.show(a)[:300], ir.show(b)[:300]],
                'pair_values': [float(witness[a]), float(witness[b])]}
    finally:
        mpmath.mp.dps = old
