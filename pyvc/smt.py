r"""SMT back end: validity of  hyps => goal  over QF_NRA + UF, with exp/log/pow/sqrt/ndtr/ndtri axiomatised by
*ground instantiation* on the terms that occur (DESIGN section 5.2). z3 first, cvc5 (binary) on unknown.

Verdicts:  'proved'   hyps /\ axioms /\ not goal is unsat;
           'refuted'  sat AND the model, evaluated with the true functions in 50-digit arithmetic, satisfies hyps
                      and falsifies goal (or the goal mentions only genuinely uninterpreted functions);
           'unknown'  anything else. Only 'refuted' may ever become a VIOLATION.
"""
import itertools
import subprocess
import time
from fractions import Fraction

from . import ir
from .ir import T

TRANSC = ('exp', 'log', 'pow', 'sqrt', 'ndtr', 'ndtri')


def _occ(terms, op):
    return [t for t in terms if t.op == op]


def ground_axioms(formulas, rounds=2, pow_as_explog=True, max_pairs=400):
    """returns list of T axioms instantiated on the transcendental sub-terms of `formulas`"""
    axioms = []
    seen_ax = set()
    done = set()

    def emit(a):
        if a is not ir.TRUE and a not in seen_ax:
            seen_ax.add(a)
            axioms.append(a)

    universe = set()
    for f in formulas:
        ir.subterms(f, universe)
    def _needs_axioms(t):
        # x**k with a small integer k is emitted as an exact product: no axioms needed
        if t.op == 'pow':
            n = ir._num(t.args[1])
            if n is not None and n.denominator == 1 and 0 < abs(n) <= 8:
                return False
        return t.op in TRANSC

    for _round in range(rounds):
        terms = [t for t in universe if _needs_axioms(t) and t not in done]
        allt = [t for t in universe if _needs_axioms(t)]
        if not terms:
            break
        by = {op: _occ(allt, op) for op in TRANSC}
        for t in terms:
            done.add(t)
            op = t.op
            a = t.args[0]
            if op == 'exp':
                emit(ir.gt(t, 0))
                emit(ir.ge(t, ir.add(1, a)))
                emit(ir.eq(ir.lt(a, 0), ir.lt(t, 1)))
                emit(ir.eq(ir.eq(a, 0), ir.eq(t, 1)))
                na = ir.neg(a)
                e2 = T('exp', (na,), 'R') if ir._num(na) != 0 else None
                if e2 is not None and e2 in universe:
                    emit(ir.eq(ir.mul(t, e2), 1))
                if a.op == 'log':
                    emit(ir.implies(ir.gt(a.args[0], 0), ir.eq(t, a.args[0])))
                if a.op == 'mul' and pow_as_explog:
                    pass
            elif op == 'log':
                pos = ir.gt(a, 0)
                emit(ir.implies(pos, ir.eq(ir.lt(a, 1), ir.lt(t, 0))))
                emit(ir.implies(pos, ir.eq(ir.eq(a, 1), ir.eq(t, 0))))
                emit(ir.implies(pos, ir.le(t, ir.sub(a, 1))))
                emit(ir.implies(pos, ir.ge(ir.mul(a, t), ir.sub(a, 1))))      # log a >= 1 - 1/a
                if a.op == 'exp':
                    emit(ir.eq(t, a.args[0]))
                ex = T('exp', (t,), 'R')
                if ex in universe:
                    emit(ir.implies(pos, ir.eq(ex, a)))
                if a.op == 'mul' and len(a.args) == 2:
                    x, y = a.args
                    lx, ly = ir.log(x), ir.log(y)
                    if lx in universe and ly in universe:
                        emit(ir.implies(ir.and_(ir.gt(x, 0), ir.gt(y, 0)), ir.eq(t, ir.add(lx, ly))))
                if a.op == 'pow':
                    x, y = a.args
                    lx = ir.log(x)
                    if lx in universe:
                        emit(ir.implies(ir.gt(x, 0), ir.eq(t, ir.mul(y, lx))))
            elif op == 'pow':
                x, y = t.args
                pos = ir.gt(x, 0)
                emit(ir.implies(pos, ir.gt(t, 0)))
                emit(ir.implies(ir.eq(x, 1), ir.eq(t, 1)))
                emit(ir.implies(ir.eq(y, 0), ir.eq(t, 1)))
                emit(ir.implies(ir.eq(y, 1), ir.eq(t, x)))
                emit(ir.implies(ir.and_(ir.gt(x, 1), ir.gt(y, 0)), ir.gt(t, 1)))
                emit(ir.implies(ir.and_(ir.gt(x, 1), ir.lt(y, 0)), ir.lt(t, 1)))
                emit(ir.implies(ir.and_(pos, ir.lt(x, 1), ir.gt(y, 0)), ir.lt(t, 1)))
                emit(ir.implies(ir.and_(pos, ir.lt(x, 1), ir.lt(y, 0)), ir.gt(t, 1)))
                # 0 ** y for y > 0 (numpy: 0); used by extended-real margin obligations
                emit(ir.implies(ir.and_(ir.eq(x, 0), ir.gt(y, 0)), ir.eq(t, 0)))
                if x.op == 'pow':
                    xx, a1 = x.args
                    tgt = ir.pow_(xx, ir.mul(a1, y))
                    emit(ir.implies(ir.gt(xx, 0), ir.eq(t, tgt)))
                    universe.update(ir.subterms(tgt))
                ny = ir.neg(y)
                inv = ir.pow_(x, ny)
                if inv in universe and inv is not t:
                    emit(ir.implies(pos, ir.eq(ir.mul(t, inv), 1)))
                if x.op == 'mul' and len(x.args) == 2:
                    p, q = x.args
                    pp, qq = ir.pow_(p, y), ir.pow_(q, y)
                    if pp in universe and qq in universe:
                        emit(ir.implies(ir.and_(ir.gt(p, 0), ir.gt(q, 0)), ir.eq(t, ir.mul(pp, qq))))
                if x.op == 'div':
                    p, q = x.args
                    pp, qq = ir.pow_(p, y), ir.pow_(q, y)
                    if pp in universe and qq in universe:
                        emit(ir.implies(ir.and_(ir.gt(p, 0), ir.gt(q, 0)), ir.eq(ir.mul(t, qq), pp)))
                if pow_as_explog:
                    lx = ir.log(x)
                    if lx in universe:
                        ex = ir.exp(ir.mul(y, lx))
                        if ex in universe:
                            emit(ir.implies(pos, ir.eq(t, ex)))
            elif op == 'sqrt':
                emit(ir.implies(ir.ge(a, 0), ir.and_(ir.ge(t, 0), ir.eq(ir.mul(t, t), a))))
            elif op == 'ndtr':
                emit(ir.and_(ir.gt(t, 0), ir.lt(t, 1)))
                emit(ir.eq(ir.lt(a, 0), ir.lt(t, ir.const(Fraction(1, 2)))))
                emit(ir.eq(ir.eq(a, 0), ir.eq(t, ir.const(Fraction(1, 2)))))
                na = ir.neg(a)
                t2 = ir.ndtr(na)
                if t2 in universe and t2 is not t:
                    emit(ir.eq(ir.add(t, t2), 1))
                if a.op == 'ndtri':
                    p = a.args[0]
                    emit(ir.implies(ir.and_(ir.gt(p, 0), ir.lt(p, 1)), ir.eq(t, p)))
            elif op == 'ndtri':
                emit(ir.implies(ir.and_(ir.gt(a, 0), ir.lt(a, 1)),
                                ir.eq(ir.lt(a, ir.const(Fraction(1, 2))), ir.lt(t, 0))))
                if a.op == 'ndtr':
                    emit(ir.eq(t, a.args[0]))
        # pairwise schemas
        npairs = 0
        for op in ('exp', 'log', 'ndtr', 'ndtri'):
            occ = by[op]
            for s, t in itertools.combinations(occ, 2):
                if npairs > max_pairs:
                    break
                npairs += 1
                a, b = s.args[0], t.args[0]
                if op in ('exp', 'ndtr'):
                    emit(ir.eq(ir.lt(a, b), ir.lt(s, t)))
                    emit(ir.eq(ir.eq(a, b), ir.eq(s, t)))
                elif op == 'log':
                    pos = ir.and_(ir.gt(a, 0), ir.gt(b, 0))
                    emit(ir.implies(pos, ir.eq(ir.lt(a, b), ir.lt(s, t))))
                    emit(ir.implies(pos, ir.eq(ir.eq(a, b), ir.eq(s, t))))
                else:
                    dom = ir.and_(ir.gt(a, 0), ir.lt(a, 1), ir.gt(b, 0), ir.lt(b, 1))
                    emit(ir.implies(dom, ir.eq(ir.lt(a, b), ir.lt(s, t))))
                if op == 'exp':
                    sm = T('exp', (ir.add(a, b),), 'R') if ir._num(ir.add(a, b)) is None else None
                    if sm is not None and sm in universe:
                        emit(ir.eq(ir.mul(s, t), sm))
                    df = ir.sub(a, b)
                    dm = T('exp', (df,), 'R') if ir._num(df) is None else None
                    if dm is not None and dm in universe:
                        emit(ir.eq(s, ir.mul(t, dm)))
                    df = ir.sub(b, a)
                    dm = T('exp', (df,), 'R') if ir._num(df) is None else None
                    if dm is not None and dm in universe:
                        emit(ir.eq(t, ir.mul(s, dm)))
        # inverse pairs *through an equality*:  A == exp(b) => log(A) == b ;  A == log(b), b > 0 => exp(A) == b
        for lg in by['log']:
            for ex in by['exp']:
                if npairs > max_pairs:
                    break
                npairs += 1
                A, b = lg.args[0], ex.args[0]
                if A is not ex:
                    emit(ir.implies(ir.eq(A, ex), ir.eq(lg, b)))
                B = ex.args[0]
                if B is not lg:
                    emit(ir.implies(ir.and_(ir.eq(B, lg), ir.gt(lg.args[0], 0)), ir.eq(ex, lg.args[0])))
                nb = ir.neg(B)
                if nb is not lg and B.op != 'const':
                    # exp(-log x) == 1/x
                    emit(ir.implies(ir.and_(ir.eq(nb, lg), ir.gt(lg.args[0], 0)), ir.eq(ir.mul(ex, lg.args[0]), 1)))
        for s, t in itertools.combinations(by['pow'], 2):
            if npairs > max_pairs:
                break
            npairs += 1
            (x1, y1), (x2, y2) = s.args, t.args
            if x1 is x2:
                pos = ir.gt(x1, 0)
                emit(ir.implies(ir.and_(ir.gt(x1, 1), ir.lt(y1, y2)), ir.lt(s, t)))
                emit(ir.implies(ir.and_(ir.gt(x1, 1), ir.lt(y2, y1)), ir.lt(t, s)))
                emit(ir.implies(ir.and_(pos, ir.lt(x1, 1), ir.lt(y1, y2)), ir.gt(s, t)))
                emit(ir.implies(ir.and_(pos, ir.lt(x1, 1), ir.lt(y2, y1)), ir.gt(t, s)))
                sm = ir.pow_(x1, ir.add(y1, y2))
                if sm in universe or sm.op == 'const' or sm is x1 or _round == 0:
                    emit(ir.implies(pos, ir.eq(ir.mul(s, t), sm)))
                    universe.update(ir.subterms(sm))
                df = ir.pow_(x1, ir.sub(y1, y2))
                if df in universe:
                    emit(ir.implies(pos, ir.eq(s, ir.mul(t, df))))
                df = ir.pow_(x1, ir.sub(y2, y1))
                if df in universe:
                    emit(ir.implies(pos, ir.eq(t, ir.mul(s, df))))
            # pow of pow *through an equality*:  X == pow(x, a)  =>  pow(X, b) == pow(x, a*b)
            for (p_, q_) in ((s, t), (t, s)):
                X, b = p_.args
                xx, a1 = q_.args
                if X is not q_ and X.op != 'const' and ir._num(xx) is None:
                    tgt = ir.pow_(xx, ir.mul(a1, b))
                    emit(ir.implies(ir.and_(ir.eq(X, q_), ir.gt(xx, 0)), ir.eq(p_, tgt)))
                    universe.update(ir.subterms(tgt))
            if y1 is y2:
                pos = ir.and_(ir.gt(x1, 0), ir.gt(x2, 0))
                emit(ir.implies(ir.and_(pos, ir.gt(y1, 0)), ir.eq(ir.lt(x1, x2), ir.lt(s, t))))
                emit(ir.implies(ir.and_(pos, ir.lt(y1, 0)), ir.eq(ir.lt(x1, x2), ir.gt(s, t))))
        for a in axioms:
            ir.subterms(a, universe)
    return axioms


class Result(object):
    def __init__(self, verdict, model=None, backend='z3', seconds=0.0, detail=''):
        self.verdict, self.model, self.backend, self.seconds, self.detail = verdict, model, backend, seconds, detail

    def __repr__(self):
        return 'Result(%s, %s, %.3fs%s)' % (self.verdict, self.backend, self.seconds,
                                            (', ' + self.detail) if self.detail else '')


def _model_env(z3, m, em, vars_):
    env = {}
    for v in vars_:
        zv = em(v)
        val = m.eval(zv, model_completion=True)
        if v.sort == 'B':
            env[v.args[0]] = z3.is_true(val)
        elif v.sort in ('R', 'I'):
            if z3.is_rational_value(val) or z3.is_int_value(val):
                env[v.args[0]] = Fraction(val.as_fraction()) if v.sort == 'R' else val.as_long()
            elif z3.is_algebraic_value(val):
                ap = val.approx(30)
                env[v.args[0]] = Fraction(ap.as_fraction())
            else:
                env[v.args[0]] = None
        else:
            env[v.args[0]] = str(val)
    return env


def numeric_check(hyps, goal, env, ufs=None, prec_digits=50):
    """True  iff every hyp evaluates to True and goal to False at env (with the true exp/log/pow...).
    None when something cannot be evaluated."""
    import mpmath
    old = mpmath.mp.dps
    mpmath.mp.dps = prec_digits
    try:
        cache = {}
        for h in hyps:
            v = ir.evaluate(h, env, ufs, cache=cache)
            if v is not True:
                return False if v is False else None
        g = ir.evaluate(goal, env, ufs, cache=cache)
        if g is False:
            return True
        return False if g is True else None
    except (ir.EvalError, TypeError, KeyError, ZeroDivisionError, ValueError, OverflowError):
        return None
    finally:
        mpmath.mp.dps = old


def prove(hyps, goal, timeout_ms=20000, extra_axioms=(), free_ufs_ok=False, ufs=None, use_cvc5=True, rounds=2,
          pow_as_explog=True, hints=()):
    """Decide validity of (and hyps) => goal."""
    import z3
    t0 = time.time()
    hyps = [ir.const(h) for h in hyps]
    goal = ir.const(goal)
    if goal is ir.TRUE:
        return Result('proved', backend='simplifier', seconds=0.0)
    formulas = list(hyps) + [goal] + list(extra_axioms)
    # hints are extra *terms* whose axioms get instantiated (triggers only; they add no assumption)
    axioms = ground_axioms(formulas + [ir.eq(h, h) if False else ir.T('uf', ('hint', h), 'B') for h in hints],
                           rounds=rounds, pow_as_explog=pow_as_explog)
    em = ir.Z3Emitter()
    s = z3.Solver()
    s.set('timeout', int(timeout_ms))
    for f in itertools.chain(hyps, extra_axioms, axioms):
        s.add(em(f))
    s.add(z3.Not(em(goal)))
    r = s.check()
    dt = time.time() - t0
    if r == z3.unsat:
        return Result('proved', backend='z3', seconds=dt, detail='%d ground axioms' % len(axioms))
    if r == z3.sat:
        m = s.model()
        allv = set()
        for f in formulas:
            allv |= ir.free_vars(f)
        env = _model_env(z3, m, em, allv)
        universe = set()
        for f in formulas:
            ir.subterms(f, universe)
        has_transc = any(t.op in TRANSC and not (t.op == 'pow' and ir._num(t.args[1]) is not None and
                                                 ir._num(t.args[1]).denominator == 1 and abs(ir._num(t.args[1])) <= 8)
                         for t in universe)
        has_uf = any(t.op == 'uf' for t in universe)
        if not has_transc and (not has_uf or free_ufs_ok):
            mm = {'env': env}
            if has_uf:
                mm['uf_points'] = _uf_points(z3, m, em, universe)
            return Result('refuted', model=mm, backend='z3', seconds=dt)
        if not has_uf or ufs:
            ok = numeric_check(hyps + list(extra_axioms), goal, env, ufs)
            if ok is True:
                return Result('refuted', model={'env': env}, backend='z3+mpmath', seconds=dt)
        rep = _repair(z3, s, m, em, universe, timeout_ms)
        if rep is not None:
            env2 = _model_env(z3, rep, em, allv)
            mm = {'env': env2}
            if has_uf:
                mm['uf_points'] = _uf_points(z3, rep, em, universe)
            return Result('refuted', model=mm, backend='z3+repair', seconds=time.time() - t0,
                          detail='model re-solved with the transcendental applications pinned to 1e-25 enclosures of '
                                 'their true values')
        return Result('unknown', model={'env': env}, backend='z3', seconds=dt,
                      detail='sat under abstraction of transcendental functions; model not confirmed numerically')
    # unknown -> cvc5
    if use_cvc5:
        r2 = _cvc5(s, timeout_ms)
        dt = time.time() - t0
        if r2 == 'unsat':
            return Result('proved', backend='cvc5', seconds=dt, detail='%d ground axioms' % len(axioms))
    return Result('unknown', backend='z3', seconds=time.time() - t0, detail=str(s.reason_unknown()))


def _repair(z3, solver, m, em, universe, timeout_ms):
    """model repair: fix the argument of every transcendental application to its value in the model, replace the
    abstract value of the application by a tight enclosure of the TRUE value there, and re-solve. A model of the
    strengthened query is a genuine counterexample (up to the 1e-25 enclosures)."""
    import mpmath
    apps = [t for t in universe if t.op in TRANSC]
    if not apps or len(apps) > 60:
        return None
    old = mpmath.mp.dps
    mpmath.mp.dps = 40
    try:
        solver.push()
        for t in apps:
            vals = []
            for a in t.args:
                v = m.eval(em(a), model_completion=True)
                if z3.is_algebraic_value(v):
                    v = v.approx(30)
                if not (z3.is_rational_value(v) or z3.is_int_value(v)):
                    solver.pop()
                    return None
                vals.append(Fraction(v.as_long()) if z3.is_int_value(v) else Fraction(v.as_fraction()))
            x = [mpmath.mpf(v.numerator) / v.denominator for v in vals]
            try:
                if t.op == 'exp':
                    y = mpmath.exp(x[0])
                elif t.op == 'log':
                    if x[0] <= 0:
                        solver.pop()
                        return None
                    y = mpmath.log(x[0])
                elif t.op == 'sqrt':
                    if x[0] < 0:
                        solver.pop()
                        return None
                    y = mpmath.sqrt(x[0])
                elif t.op == 'pow':
                    if x[0] <= 0 and not (vals[1].denominator == 1 and (x[0] != 0 or vals[1] > 0)):
                        solver.pop()
                        return None
                    y = mpmath.power(x[0], x[1])
                elif t.op == 'ndtr':
                    y = mpmath.ncdf(x[0])
                else:
                    solver.pop()
                    return None
            except Exception:
                solver.pop()
                return None
            if not mpmath.isfinite(y) or abs(y) > mpmath.mpf(10) ** 60:
                solver.pop()
                return None
            eps = abs(y) * mpmath.mpf(10) ** -25 + mpmath.mpf(10) ** -40
            lo = Fraction(str(mpmath.nstr(y - eps, 38, strip_zeros=False)))
            hi = Fraction(str(mpmath.nstr(y + eps, 38, strip_zeros=False)))
            for a, v in zip(t.args, vals):
                solver.add(em.real(em(a)) == z3.RealVal(str(v)))
            solver.add(em(t) >= z3.RealVal(str(lo)), em(t) <= z3.RealVal(str(hi)))
        solver.set('timeout', int(min(timeout_ms, 10000)))
        r = solver.check()
        out = solver.model() if r == z3.sat else None
        solver.pop()
        return out
    except Exception:
        try:
            solver.pop()
        except Exception:
            pass
        return None
    finally:
        mpmath.mp.dps = old


def _uf_points(z3, m, em, universe):
    pts = {}
    for t in universe:
        if t.op == 'uf':
            try:
                args = [m.eval(em(a), model_completion=True) for a in t.args[1:]]
                val = m.eval(em(t), model_completion=True)
                pts.setdefault(t.args[0], []).append(([str(a) for a in args], str(val)))
            except Exception:
                pass
    return pts


def _cvc5(solver, timeout_ms):
    try:
        smt2 = '(set-logic ALL)\n' + solver.to_smt2()
        p = subprocess.run(['/usr/bin/cvc5', '--lang=smt2', '--tlimit=%d' % int(timeout_ms), '--nl-ext-tplanes'],
                           input=smt2, capture_output=True, text=True, timeout=timeout_ms / 1000.0 + 5)
        out = p.stdout.strip().split('\n')[0] if p.stdout.strip() else ''
        return out
    except Exception:
        return 'error'


def satisfiable(formulas, timeout_ms=5000):
    """vacuity guard: is the conjunction satisfiable (under the same abstraction)? returns (bool|None, env)"""
    import z3
    formulas = [ir.const(f) for f in formulas]
    axioms = ground_axioms(formulas)
    em = ir.Z3Emitter()
    s = z3.Solver()
    s.set('timeout', int(timeout_ms))
    for f in itertools.chain(formulas, axioms):
        s.add(em(f))
    r = s.check()
    if r == z3.sat:
        allv = set()
        for f in formulas:
            allv |= ir.free_vars(f)
        return True, _model_env(z3, s.model(), em, allv)
    if r == z3.unsat:
        return False, None
    return None, None
