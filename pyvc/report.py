"""Check driver: collects named obligations, discharges them (SMT -> CAS -> ICP as the kind allows) in a process
pool, runs bounded stand-ins, matches refutations against known_findings.json, replays counterexamples on the
real code, writes evidence/<id>.json, prints VIOLATION / KNOWN-FINDING lines and picks the exit code.

Exit codes: 0 all discharged (known findings allowed) | 1 >= 1 new violation | 2 undecided | 3 engine failure.
"""
import ast
import fnmatch
import hashlib
import json
import multiprocessing
import os
import sys
import time
import traceback

from . import ir, smt, libmodel

VERIF = os.path.dirname(os.path.dirname(os.path.abspath(__file__)))
# where evidence/ and replays/ are written (default: the checkout); trial runs on scratch copies redirect it
OUT = os.environ.get('VERIF_OUT') or VERIF


class Ob(object):
    """one proof obligation"""
    def __init__(self, name, hyps, goal, kind='post', where='', backends=('smt',), box=None, cas=None, hints=(),
                 replay=None, canary=False, function=None, clause='', timeout_ms=20000, free_ufs_ok=False,
                 extra_axioms=(), note='', smt_opts=None):
        self.name, self.hyps, self.goal, self.kind, self.where = name, list(hyps), goal, kind, where
        self.backends, self.box, self.cas, self.hints = tuple(backends), box, cas, tuple(hints)
        self.replay, self.canary, self.function, self.clause = replay, canary, function, clause
        self.timeout_ms, self.free_ufs_ok, self.extra_axioms = timeout_ms, free_ufs_ok, tuple(extra_axioms)
        self.note = note
        self.smt_opts = smt_opts or {}
        self.result = None


class Outcome(object):
    def __init__(self, verdict, backend, seconds, detail='', model=None):
        self.verdict, self.backend, self.seconds, self.detail, self.model = verdict, backend, seconds, detail, model

    def as_dict(self):
        return {'verdict': self.verdict, 'backend': self.backend, 'seconds': round(self.seconds, 4),
                'detail': self.detail, 'model': self.model}


_OBS = []


class _Timeout(BaseException):
    """raised by the per-obligation alarm; a BaseException so that no `except Exception` inside a back end can swallow it"""


def _alarm(*_a):
    raise _Timeout()


HARD_LIMIT_S = int(os.environ.get('VERIF_OB_LIMIT', '300'))


class NativeTimeout(BaseException):
    """raised by time_limit; a BaseException so that native drivers with broad handlers cannot swallow it"""


class time_limit(object):
    """run native code of the repository under a wall-clock limit (a changed tree may loop forever)"""
    def __init__(self, seconds):
        self.seconds = int(seconds)

    def __enter__(self):
        import signal

        def on_alarm(signum, frame):
            raise NativeTimeout('no result within %d s' % self.seconds)
        self.outer_left = signal.alarm(0)             # an enclosing limit keeps running (approximately) afterwards
        self.t0 = time.time()
        self.old = signal.signal(signal.SIGALRM, on_alarm)
        signal.alarm(min(self.seconds, self.outer_left) if self.outer_left else self.seconds)

    def __exit__(self, *a):
        import signal
        signal.alarm(0)
        signal.signal(signal.SIGALRM, self.old)
        if self.outer_left:
            signal.alarm(max(1, int(self.outer_left - (time.time() - self.t0))))
        return False


NATIVE_LIMIT_S = int(os.environ.get('VERIF_NATIVE_LIMIT', '240'))


def _discharge_index(i):
    import signal
    t0 = time.time()
    try:
        signal.signal(signal.SIGALRM, _alarm)
        signal.alarm(HARD_LIMIT_S)
        try:
            return i, _discharge(_OBS[i]).as_dict()
        finally:
            signal.alarm(0)
    except _Timeout:
        return i, Outcome('unknown', 'timeout', time.time() - t0, 'hard limit %ds' % HARD_LIMIT_S).as_dict()
    except Exception:
        return i, Outcome('error', 'engine', 0.0, traceback.format_exc()[-1500:]).as_dict()


def _discharge(ob):
    t0 = time.time()
    last = None
    for be in ob.backends:
        if be == 'smt':
            r = smt.prove(ob.hyps, ob.goal, timeout_ms=ob.timeout_ms, hints=ob.hints, free_ufs_ok=ob.free_ufs_ok,
                          extra_axioms=ob.extra_axioms, **ob.smt_opts)
            out = Outcome(r.verdict, r.backend, r.seconds, r.detail, _jsonable(r.model))
        elif be == 'cas':
            from . import cas
            r = ob.cas()
            out = Outcome(r.verdict, 'sympy', r.seconds, r.detail, _jsonable(r.model))
        elif be == 'icp':
            from . import icp
            r = icp.prove_box(ob.hyps, ob.goal, ob.box, max_boxes=getattr(ob, 'max_boxes', 200000),
                              extended=getattr(ob, 'extended', False))
            out = Outcome(r.verdict, 'icp', r.seconds, '%d boxes %s' % (r.boxes, r.detail), _jsonable(r.model))
        elif be == 'syntactic':
            if ob.goal is ir.TRUE:
                out = Outcome('proved', 'syntactic', 0.0)
            elif ob.goal is ir.FALSE:
                out = Outcome('refuted', 'syntactic', 0.0, 'definite syntactic violation: ' + ob.clause[-200:], {})
            else:
                out = Outcome('unknown', 'syntactic', 0.0, 'terms differ: ' + ir.show(ob.goal)[:300])
        else:
            raise ValueError(be)
        if out.verdict in ('proved', 'refuted'):
            out.seconds = time.time() - t0
            return out
        last = out
    last.seconds = time.time() - t0
    return last


def _jsonable(m):
    if m is None:
        return None
    try:
        def conv(x):
            if isinstance(x, dict):
                return {str(k): conv(v) for k, v in x.items()}
            if isinstance(x, (list, tuple)):
                return [conv(v) for v in x]
            if isinstance(x, (int, float, str, bool)) or x is None:
                return x
            try:
                return float(x)
            except Exception:
                return str(x)
        return conv(m)
    except Exception:
        return str(m)


def parse_region(text, sorts=None, names=None):
    """'theta >= 3.5 and v <= 0.01' -> T (names are variables; used by known_findings regions)"""
    sorts = sorts or {}
    names = names or {}
    node = ast.parse(text, mode='eval').body

    def ev(n):
        if isinstance(n, ast.BoolOp):
            vs = [ev(v) for v in n.values]
            return ir.and_(*vs) if isinstance(n.op, ast.And) else ir.or_(*vs)
        if isinstance(n, ast.UnaryOp) and isinstance(n.op, ast.Not):
            return ir.not_(ev(n.operand))
        if isinstance(n, ast.UnaryOp) and isinstance(n.op, ast.USub):
            return ir.neg(ev(n.operand))
        if isinstance(n, ast.Compare):
            left = ev(n.left)
            out = []
            for op, c in zip(n.ops, n.comparators):
                right = ev(c)
                f = {ast.Lt: ir.lt, ast.LtE: ir.le, ast.Gt: ir.gt, ast.GtE: ir.ge, ast.Eq: ir.eq, ast.NotEq: ir.ne}[type(op)]
                out.append(f(left, right))
                left = right
            return ir.and_(*out)
        if isinstance(n, ast.BinOp):
            a, b = ev(n.left), ev(n.right)
            return {ast.Add: ir.add, ast.Sub: ir.sub, ast.Mult: ir.mul, ast.Div: ir.div, ast.Pow: ir.pow_}[type(n.op)](a, b)
        if isinstance(n, ast.Constant):
            return ir.const(n.value)
        if isinstance(n, ast.Name):
            return ir.var(names.get(n.id, n.id), sorts.get(n.id, 'R'))
        raise ValueError('region syntax: ' + ast.dump(n))
    return ev(node)


class Check(object):
    def __init__(self, prop, tier='quick', seed=0):
        self.prop, self.tier, self.seed = prop, tier, seed
        self.obs = []
        self.bounded = []          # dicts describing bounded stand-ins that ran
        self.functions = {}        # qualname -> info
        self.assumptions = []
        self.not_addressed = []
        self.lemmas = []
        self.engine_errors = []
        self.undecided = []
        self.violations = []       # (name, replay_path, line_suffix)
        self.known = []
        self.t0 = time.time()
        self.findings = load_findings()
        self.notes = []

    # ---- building ----
    def add(self, ob):
        self.obs.append(ob)
        return ob

    def under_contract(self, source, qualnames):
        for q in qualnames:
            self.functions[q] = source.function_info(q)

    def engine_error(self, msg):
        self.engine_errors.append(msg)

    # ---- running ----
    def discharge_all(self, procs=None):
        global _OBS
        _OBS = self.obs
        todo = [i for i, o in enumerate(self.obs) if o.result is None]
        if not todo:
            return
        procs = procs or min(16, max(1, len(todo)))
        if procs > 1 and len(todo) > 1:
            ctx = multiprocessing.get_context('fork')
            with ctx.Pool(procs) as pool:
                for i, d in pool.imap_unordered(_discharge_index, todo):
                    self.obs[i].result = d
        else:
            for i in todo:
                _i, d = _discharge_index(i)
                self.obs[i].result = d

    # ---- verdicts ----
    def finish(self, checker_cmd, level='proof', trusted=None, extra_cov=None):
        self.discharge_all()
        canaries_ok = True
        proved_canaries = []
        n_real = 0
        n_dis = 0
        by_backend = {}
        samples = []
        for ob in self.obs:
            r = ob.result
            be = r['backend']
            bb = by_backend.setdefault(be, {'count': 0, 'seconds': 0.0})
            bb['count'] += 1
            bb['seconds'] = round(bb['seconds'] + r['seconds'], 4)
            if ob.canary:
                if r['verdict'] == 'proved':
                    canaries_ok = False
                    proved_canaries.append(ob.name)
                continue
            n_real += 1
            if r['verdict'] == 'proved':
                n_dis += 1
            elif r['verdict'] == 'refuted':
                self._refuted(ob)
            elif r['verdict'] == 'error':
                self.engine_error('%s: %s' % (ob.name, r['detail']))
            else:
                self.undecided.append((ob.name, r['backend'], r['detail']))
            if len(samples) < 6:
                samples.append({'obligation': ob.name, 'function': ob.function, 'kind': ob.kind,
                                'goal': ir.show(ob.goal)[:400],
                                'hyps': [ir.show(h)[:160] for h in ob.hyps[:8]],
                                'verdict': r['verdict'], 'backend': r['backend'], 'seconds': r['seconds']})
        n_known = len([k for k in self.known if k[0] in {o.name for o in self.obs}])
        if proved_canaries and not self.violations:
            # a must-fail obligation was proved although every real obligation holds: the engine proves too much
            for nm in proved_canaries:
                self.engine_error('canary %s was PROVED: engine unsound' % nm)
        elif proved_canaries:
            self.notes.append('canaries proved under a violated tree (not an engine verdict): %s' % proved_canaries)
        if n_real == 0 and not self.bounded and not self.undecided:
            self.engine_error('zero obligations generated')
        cov = {
            # obligations = those this run had to prove; the obligations that match a recorded finding of known_findings.json
            # are REFUTED (that is what makes them a finding) and are counted separately, never as discharged
            'obligations': n_real - n_known, 'discharged': n_dis, 'refuted_matching_known_findings': n_known,
            'obligations_generated': n_real, 'checker_cmd': checker_cmd,
            'trusted_base': sorted(set(trusted or []) | set('%s: %s' % kv for kv in libmodel.USED.items())),
            'discharged_by_proof': n_dis,
            'known_findings_matched': [k[0] for k in self.known],
            'by_backend': by_backend,
            'functions_under_contract': list(self.functions.values()),
            'canaries': {'count': sum(1 for o in self.obs if o.canary), 'all_failed_as_required': canaries_ok},
            'bounded': self.bounded, 'not_addressed': self.not_addressed, 'lemmas': self.lemmas,
            'undecided': [list(u) for u in self.undecided], 'samples': samples,
            'engine_errors': self.engine_errors, 'notes': self.notes,
            'crosscheck': getattr(self, 'crosschecks', []),
            'obligation_table': [{'name': o.name, 'verdict': o.result['verdict'], 'backend': o.result['backend'],
                                  'seconds': o.result['seconds'], 'canary': o.canary} for o in self.obs],
        }
        # exploration-style keys as well (always measured)
        ev = sum(b.get('evaluations', 0) for b in self.bounded)
        dn = sum(b.get('distinct_nontrivial', 0) for b in self.bounded)
        if ev:
            cov['evaluations'] = ev
            cov['distinct_nontrivial'] = dn
            cov['rule'] = '; '.join(b.get('rule', '') for b in self.bounded)
        if extra_cov:
            cov.update(extra_cov)
        evidence = {
            'property_id': self.prop, 'tier': self.tier, 'seed': int(self.seed), 'level': level, 'coverage': cov,
            'assumptions': self.assumptions, 'wall_s': round(time.time() - self.t0, 2),
            'violations': len(self.violations),
        }
        os.makedirs(os.path.join(OUT, 'evidence'), exist_ok=True)
        with open(os.path.join(OUT, 'evidence', self.prop + '.json'), 'w') as f:
            json.dump(evidence, f, indent=1, default=str)
        for name, text in [(k[0], k[1]) for k in self.known]:
            print('KNOWN-FINDING: property=%s %s' % (self.prop, text))
        for name, path, suffix in self.violations[:12]:
            print('VIOLATION property=%s replay=%s%s' % (self.prop, path, suffix))
        if len(self.violations) > 12:
            print('... and %d more violated obligations (all listed in evidence/%s.json and under replays/%s/)' %
                  (len(self.violations) - 12, self.prop, self.prop))
        for u in self.undecided:
            print('UNDECIDED obligation=%s backend=%s %s' % (u[0], u[1], str(u[2])[:200]))
        for e in self.engine_errors:
            print('ENGINE-ERROR %s' % str(e)[:2000])
        print('%s [%s]: %d obligations, %d proved, %d known findings, %d violations, %d undecided, %d bounded '
              'stand-ins (%d evaluations), %.1fs' % (self.prop, self.tier, n_real, n_dis, n_known, len(self.violations),
                                                     len(self.undecided), len(self.bounded), ev,
                                                     time.time() - self.t0))
        if self.violations:
            return 1
        if self.engine_errors:
            return 3
        if self.undecided:
            return 2
        return 0

    # ---- refutations ----
    def _refuted(self, ob):
        r = ob.result
        model = r.get('model') or {}
        # 1. known finding?
        for f in self.findings:
            if f.get('status') == 'fixed' or f.get('property') != self.prop:
                continue
            if not fnmatch.fnmatch(ob.name, f.get('obligation', '')):
                continue
            if f.get('region'):
                try:
                    region = parse_region(f['region'], f.get('sorts'), f.get('vars'))
                    r2 = smt.prove(list(ob.hyps) + [ir.not_(region)], ob.goal, timeout_ms=ob.timeout_ms,
                                   hints=ob.hints, free_ufs_ok=ob.free_ufs_ok, extra_axioms=ob.extra_axioms)
                    if r2.verdict != 'proved' and 'icp' in ob.backends and ob.box:
                        from . import icp
                        r3 = icp.prove_box(list(ob.hyps) + [ir.not_(region)], ob.goal, ob.box,
                                           max_boxes=getattr(ob, 'max_boxes', 200000),
                                           extended=getattr(ob, 'extended', False))
                        verdict = r3.verdict
                    else:
                        verdict = r2.verdict
                except Exception as e:
                    verdict = 'error: %s' % e
                if verdict == 'proved':
                    self.known.append((ob.name, f['text']))
                    return
                if verdict == 'refuted':
                    continue            # a violation outside the listed region: new
                self.undecided.append((ob.name, 'known-finding-region', 'outside the listed region: ' + str(verdict)))
                return
            else:
                self.known.append((ob.name, f['text']))
                return
        # 2. replay on the real code
        rep = {'property': self.prop, 'obligation': ob.name, 'function': ob.function, 'clause': ob.clause,
               'goal': ir.show(ob.goal)[:2000], 'hyps': [ir.show(h)[:400] for h in ob.hyps], 'solver': r,
               'model': model}
        suffix = ''
        if ob.replay is not None:
            try:
                with time_limit(NATIVE_LIMIT_S):
                    native = ob.replay(model.get('env', model) if isinstance(model, dict) else {})
            except NativeTimeout as e:
                native = {'confirmed': True, 'detail': 'the real code did not return while replaying this obligation: %s' % e}
            except Exception:
                native = {'confirmed': False, 'detail': 'replay crashed: ' + traceback.format_exc()[-800:]}
            rep['native_replay'] = native
            if not native.get('confirmed'):
                suffix = ' no-failing-input-found'
        else:
            rep['native_replay'] = None
            suffix = ' no-failing-input-found'
        h = hashlib.sha256((ob.name + json.dumps(model, sort_keys=True, default=str)).encode()).hexdigest()[:10]
        d = os.path.join(OUT, 'replays', self.prop)
        os.makedirs(d, exist_ok=True)
        path = os.path.join(d, '%s.%s.json' % (ob.name.replace('/', '_'), h))
        with open(path, 'w') as f:
            json.dump(rep, f, indent=1, default=str)
        self.violations.append((ob.name, os.path.relpath(path, VERIF), suffix))

    def bounded_violation(self, name, case, detail):
        """a bounded stand-in (run-time contract on the real function) failed on a concrete input"""
        for f in self.findings:
            if f.get('status') == 'fixed' or f.get('property') != self.prop:
                continue
            if fnmatch.fnmatch(name, f.get('obligation', '')) and f.get('witness_match') and \
                    f['witness_match'](case) if callable(f.get('witness_match')) else False:
                self.known.append((name, f['text']))
                return
        rep = {'property': self.prop, 'obligation': name, 'kind': 'bounded', 'case': case, 'detail': detail,
               'native_replay': {'confirmed': True, 'detail': detail}}
        h = hashlib.sha256((name + json.dumps(case, sort_keys=True, default=str)).encode()).hexdigest()[:10]
        d = os.path.join(OUT, 'replays', self.prop)
        os.makedirs(d, exist_ok=True)
        path = os.path.join(d, '%s.%s.json' % (name.replace('/', '_'), h))
        with open(path, 'w') as f:
            json.dump(rep, f, indent=1, default=str)
        self.violations.append((name, os.path.relpath(path, VERIF), ''))


def load_findings():
    p = os.path.join(VERIF, 'known_findings.json')
    if not os.path.exists(p):
        return []
    with open(p) as f:
        d = json.load(f)
    return d.get('findings', [])
