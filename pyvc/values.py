"""Symbolic values manipulated by the executor.

Sym     a scalar (real / int / bool) given by an IR term.
Lane    a 1-d numpy array seen through ONE generic element: `t` is the element term at the generic index
        IDX ('@i'); input arrays are lane variables named '<name>@i'. Element k of any derived array is obtained
        by substituting '<name>@i' -> '<name>@k' (elementwise code commutes with indexing). Whole-array reductions
        (.all/.any/.max/.min) are fresh scalars constrained only by what they imply for the generic lane, i.e. the
        other lanes of the batch are adversarial.
Arr2    an (n, k) array with concrete k: k column Lanes (column views alias the Lane objects).
Opaque  a library object (RandomState, fitted scipy model, DataFrame handled elsewhere ...).
Arrays are mutable Python objects, so numpy aliasing (views, in-place stores) is object identity here; `owner`
tags an array that (aliases something that) belongs to the caller - a store into it is a frame event.
"""
from fractions import Fraction

from . import ir
from . import paths

IDX = ir.var('@i', 'I')
COUNT_OF = {}


class State(object):
    ctx = None            # current paths.Context
    where = ''            # current source location 'qualname:lineno'
    safety = False        # emit definedness obligations for div/log/pow/sqrt
    interp = None
    rng = None            # ghost: term (sort 'U') for the global numpy.random state
    gen_n = None          # length / selection of the lane-map loop being executed
    gen_mask = None


def ctx():
    return State.ctx


def _safety(name, goal, mask=None):
    if State.safety and goal is not ir.TRUE:
        g = goal if mask is None else ir.implies(mask, goal)
        State.ctx.oblige('safety.%s@%s' % (name, State.where), g, kind='safety', where=State.where)


def is_number(x):
    return isinstance(x, (int, float, Fraction)) and not isinstance(x, bool)


def to_term(x):
    if isinstance(x, Sym):
        return x.t
    if isinstance(x, (bool, int, float, Fraction)):
        return ir.const(x)
    if isinstance(x, ir.T):
        return x
    if x is None:
        return ir.const(None)
    if isinstance(x, str):
        return ir.const(x)
    raise paths.Unsupported('to_term(%s)' % type(x).__name__)


def truth_term(x):
    """term for Python truthiness of a scalar value"""
    if isinstance(x, Sym):
        if x.t.sort == 'B':
            return x.t
        if x.t.sort in ('R', 'I'):
            return ir.ne(x.t, 0)
        return ir.ne(x.t, ir.const(None))
    if isinstance(x, (Lane, Arr2)):
        raise paths.Unsupported('truth value of an array')
    return ir.const(bool(x))


def truth(x):
    if isinstance(x, Sym):
        return State.ctx.branch(truth_term(x))
    if isinstance(x, (Lane, Arr2)):
        if isinstance(x, Lane) and _is_one(x.n):
            return State.ctx.branch(truth_term(Sym(x.t)))
        from .interp import PyRaise, make_exc
        raise PyRaise(make_exc('ValueError', 'The truth value of an array with more than one element is ambiguous'))
    return bool(x)


def _is_one(n):
    return (isinstance(n, int) and n == 1) or (isinstance(n, Sym) and n.t is ir.ONE)


# ------------------------------------------------------------------------------------------------
# scalar
# ------------------------------------------------------------------------------------------------

def _arith(op, a, b):
    """a, b terms -> term; emits safety obligations"""
    if op == 'add':
        return ir.add(a, b)
    if op == 'sub':
        return ir.sub(a, b)
    if op == 'mul':
        return ir.mul(a, b)
    if op == 'div':
        _safety('div', ir.ne(b, 0))
        return ir.div(a, b)
    if op == 'pow':
        n = ir._num(b)
        if n is not None and n.denominator == 1:
            if n < 0:
                _safety('pow', ir.ne(a, 0))
        else:
            _safety('pow', ir.or_(ir.gt(a, 0), ir.and_(ir.eq(a, 0), ir.gt(b, 0))))
        return ir.pow_(a, b)
    if op == 'floordiv':
        return ir.uf('floordiv', [a, b], 'I' if a.sort == 'I' and b.sort == 'I' else 'R')
    if op == 'mod':
        return ir.uf('mod', [a, b], 'I' if a.sort == 'I' and b.sort == 'I' else 'R')
    if op == 'and':
        return ir.and_(a, b)
    if op == 'or':
        return ir.or_(a, b)
    if op == 'xor':
        return ir.ne(a, b)
    raise paths.Unsupported('arith ' + op)


def _cmp(op, a, b):
    if op == 'lt':
        return ir.lt(a, b)
    if op == 'le':
        return ir.le(a, b)
    if op == 'gt':
        return ir.gt(a, b)
    if op == 'ge':
        return ir.ge(a, b)
    if op == 'eq':
        return ir.eq(a, b)
    if op == 'ne':
        return ir.ne(a, b)
    raise paths.Unsupported('cmp ' + op)


class Sym(object):
    __slots__ = ('t',)
    __array_priority__ = 1000

    def __init__(self, t):
        self.t = to_term(t) if not isinstance(t, ir.T) else t

    def __repr__(self):
        return 'Sym(%s)' % ir.show(self.t)

    def __hash__(self):
        return hash(self.t)

    def __bool__(self):
        return truth(self)

    # numpy-scalar-like attributes
    @property
    def shape(self):
        return ()

    @property
    def ndim(self):
        return 0

    def item(self):
        return self

    def copy(self):
        return self

    def __float__(self):
        n = ir._num(self.t)
        if n is None:
            raise paths.Unsupported('float() of a symbolic value')
        return float(n)

    def __index__(self):
        n = ir._num(self.t)
        if n is None or n.denominator != 1:
            raise paths.Unsupported('symbolic value used as an index')
        return int(n)


def binop(op, a, b):
    """numeric / boolean binary operation over numbers, Sym, Lane, Arr2"""
    if isinstance(a, GenList):
        a = a.lane
    if isinstance(b, GenList):
        b = b.lane
    if isinstance(a, Arr2) or isinstance(b, Arr2):
        return _arr2_binop(op, a, b)
    if isinstance(a, Lane) or isinstance(b, Lane):
        return _lane_binop(op, a, b)
    if isinstance(a, Sym) or isinstance(b, Sym):
        cmp = op in ('lt', 'le', 'gt', 'ge', 'eq', 'ne')
        if cmp and not (_scalarish(a) and _scalarish(b)):
            return op == 'ne'                        # symbolic scalar vs. None / str / other objects
        ta, tb = to_term(a), to_term(b)
        return Sym(_cmp(op, ta, tb) if cmp else _arith(op, ta, tb))
    return NotImplemented


def _scalarish(x):
    return isinstance(x, (Sym, int, float, Fraction, bool)) or (isinstance(x, Sym))


def unop(op, a):
    if isinstance(a, Lane):
        return a._map1(op)
    if isinstance(a, Sym):
        if op == 'neg':
            return Sym(ir.neg(a.t))
        if op == 'pos':
            return a
        if op == 'not':
            return Sym(ir.not_(truth_term(a)))
        if op == 'invert':
            if a.t.sort == 'B':
                return Sym(ir.not_(a.t))
    raise paths.Unsupported('unop %s on %s' % (op, type(a).__name__))


def _install_ops(cls):
    names = {'add': 'add', 'sub': 'sub', 'mul': 'mul', 'truediv': 'div', 'pow': 'pow', 'floordiv': 'floordiv',
             'mod': 'mod', 'and': 'and', 'or': 'or', 'xor': 'xor'}
    for py, op in names.items():
        def f(self, other, op=op):
            return binop(op, self, other)

        def r(self, other, op=op):
            return binop(op, other, self)
        setattr(cls, '__%s__' % py, f)
        setattr(cls, '__r%s__' % py, r)
    for py in ('lt', 'le', 'gt', 'ge', 'eq', 'ne'):
        def c(self, other, op=py):
            return binop(op, self, other)
        setattr(cls, '__%s__' % py, c)
    cls.__neg__ = lambda self: unop('neg', self)
    cls.__pos__ = lambda self: self
    cls.__invert__ = lambda self: unop('invert', self)
    cls.__abs__ = lambda self: apply1('abs', self)


# ------------------------------------------------------------------------------------------------
# 1-d arrays
# ------------------------------------------------------------------------------------------------

class Lane(object):
    __array_priority__ = 2000
    _ids = 0

    def __init__(self, t, n, mask=None, owner=None, readonly=False):
        self.t = to_term(t) if not isinstance(t, ir.T) else t
        self.n = n
        self.mask = mask          # population restriction (term of the selecting boolean lane) or None
        self.owner = owner        # frame tag: name of the caller-owned object this array aliases
        self.readonly = readonly

    def __repr__(self):
        return 'Lane(%s%s)' % (ir.show(self.t), '' if self.mask is None else ' | ' + ir.show(self.mask))

    __hash__ = object.__hash__

    def __bool__(self):
        return truth(self)

    def __len__(self):
        raise paths.Unsupported('len() of a symbolic array must go through the executor')

    @property
    def shape(self):
        return (self.length(),)

    @property
    def ndim(self):
        return 1

    @property
    def size(self):
        return self.length()

    @property
    def dtype(self):
        return DType('bool' if self.t.sort == 'B' else ('int' if self.t.sort == 'I' else 'float'))

    @property
    def T(self):
        return self

    def length(self):
        if self.mask is not None:
            t = ir.uf('count', [self.mask], 'I')
            COUNT_OF[t] = (self.mask, self.n)        # lets np.full((count,), v) rebuild an array on the same selection
            return Sym(t)
        return self.n

    def whole(self):
        """a term naming the whole array (function of the generic element term, hence of the input arrays)"""
        if self.t.op == 'var' and self.t.args[0].endswith('@i') and self.mask is None:
            return ir.var(self.t.args[0][:-2], 'U')
        args = [self.t] + ([self.mask] if self.mask is not None else [])
        if not _mentions_lane(self.t):
            # an array filled with a lane-independent value is determined by the value AND its length
            args.append(to_term(self.n))
        return ir.uf('arr', args, 'U')

    def fresh_like(self, t):
        return Lane(t, self.n, self.mask)

    def copy(self):
        return Lane(self.t, self.n, self.mask)

    def astype(self, _dtype):
        if self.t.sort == 'B':
            return Lane(ir.ite(self.t, 1, 0), self.n, self.mask)
        return self.copy()

    def tolist(self):
        return GenList(self.copy())          # a new Python list: no longer the caller's (or anybody's) array

    def _map1(self, op):
        if op == 'neg':
            return self.fresh_like(ir.neg(self.t))
        if op in ('invert', 'not'):
            return self.fresh_like(ir.not_(self.t))
        raise paths.Unsupported('lane unop ' + op)

    def elem(self, k):
        """element at index k (int or Sym): substitute the lane variables"""
        if self.mask is not None:
            raise paths.Unsupported('indexing a boolean-selected array')
        kt = to_term(k)
        if _is_one(self.n) or not _mentions_lane(self.t):
            return Sym(self.t)
        mapping = {}
        for v in ir.free_vars(self.t):
            nm = v.args[0]
            if v is IDX:
                mapping[v] = kt
            elif nm.endswith('@i'):
                mapping[v] = ir.var('%s@%s' % (nm[:-2], ir.show(kt)), v.sort)
        return Sym(ir.substitute(self.t, mapping))

    # ---- reductions (adversarial w.r.t. the other lanes) ----
    def all(self, axis=None):
        if self.t.sort != 'B':
            return Lane(ir.ne(self.t, 0), self.n, self.mask).all()
        if self.t.op == 'const':
            # all() of an empty selection is True; a constant-False lane is False only if non-empty
            if self.t is ir.TRUE:
                return True
        if _is_one(self.n) and self.mask is None:
            return Sym(self.t)
        if _universally(self._guard(self.t)):
            return True
        b = State.ctx.fresh('all', 'B')
        State.ctx.assume(ir.implies(b, self._guard(self.t)))
        return Sym(b)

    def any(self, axis=None):
        if self.t.sort != 'B':
            return Lane(ir.ne(self.t, 0), self.n, self.mask).any()
        if self.t is ir.FALSE:
            return False
        if _is_one(self.n) and self.mask is None:
            return Sym(self.t)
        g = self.t if self.mask is None else ir.and_(self.mask, self.t)
        if _universally(ir.not_(g)):
            return False
        b = State.ctx.fresh('any', 'B')
        State.ctx.assume(ir.implies(ir.not_(b), ir.not_(g)))
        return Sym(b)

    def _guard(self, t):
        return t if self.mask is None else ir.implies(self.mask, t)

    def max(self, axis=None):
        if _is_one(self.n) and self.mask is None:
            return Sym(self.t)
        m = ir.uf('np.max', [self.whole()], self.t.sort)       # a function of the whole array, >= every element
        State.ctx.assume(self._guard(ir.le(self.t, m)))
        _minmax_facts(self.whole(), self.t.sort)
        return Sym(m)

    def min(self, axis=None):
        if _is_one(self.n) and self.mask is None:
            return Sym(self.t)
        m = ir.uf('np.min', [self.whole()], self.t.sort)
        State.ctx.assume(self._guard(ir.le(m, self.t)))
        _minmax_facts(self.whole(), self.t.sort)
        return Sym(m)

    def sum(self, axis=None):
        if _is_one(self.n) and self.mask is None and not _mentions_lane(self.t) and self.t.sort == 'R':
            return Sym(self.t)                       # the sum of a one-element array is its element
        return Sym(ir.uf('np.sum', [self.whole()], 'I' if self.t.sort in ('B', 'I') else 'R'))

    def mean(self, axis=None):
        return Sym(ir.uf('np.mean', [self.whole()]))

    def std(self, axis=None, ddof=0):
        w = self.whole()
        t = ir.uf('np.std', [w, to_term(ddof)])
        # mathematical facts: std >= 0, and > 0 iff the array is not constant
        State.ctx.assume(ir.ge(t, 0))
        State.ctx.assume(ir.eq(ir.gt(t, 0), ir.gt(ir.uf('n_unique', [w], 'I'), 1)))
        return Sym(t)

    def dot(self, other):
        if isinstance(other, Lane):
            return Sym(ir.uf('np.dot', [self.whole(), other.whole()]))
        raise paths.Unsupported('dot')

    def clip(self, lo, hi):
        return apply2('max', apply2('min', self, hi), lo) if False else clip(self, lo, hi)

    def reshape(self, *shape):
        if len(shape) == 1 and isinstance(shape[0], (list, tuple)):
            shape = tuple(shape[0])
        if len(shape) == 2 and shape[1] == 1 and shape[0] == -1:
            return Arr2([self], self.n)
        if shape == (-1,):
            return self
        raise paths.Unsupported('reshape %r' % (shape,))

    def ravel(self):
        return self

    def flatten(self):
        return self.copy()

    # ---- indexing ----
    def getitem(self, key):
        if isinstance(key, Lane) and key.t.sort == 'B':
            if key.mask is not None and key.mask is not self.mask:
                raise paths.Unsupported('nested boolean selection')
            if self.mask is not None and self.mask is not key.mask:
                raise paths.Unsupported('boolean selection of a selection')
            return Lane(self.t, self.n, key.t, self.owner)           # selection copies in numpy (fresh), owner
        if isinstance(key, slice):
            if key == slice(None, None, None):
                return self                                            # view
            raise paths.Unsupported('slice of a symbolic array')
        if key is Ellipsis:
            return self
        if isinstance(key, tuple) and len(key) == 2 and key[1] is None and key[0] == slice(None, None, None):
            return Arr2([self], self.n)                                # X[:, None]
        if isinstance(key, (int, Sym)):
            return self.elem(key)
        if isinstance(key, GenIndex):
            return Sym(self.t)
        raise paths.Unsupported('array index %r' % (key,))

    def setitem(self, key, val):
        if self.readonly:
            from .interp import PyRaise, make_exc
            raise PyRaise(make_exc('ValueError', 'assignment destination is read-only'))
        if self.owner is not None:
            State.ctx.event('mutate', self.owner, State.where)
        if isinstance(key, Lane) and key.t.sort == 'B':
            if isinstance(val, Lane):
                if val.mask is not key.t and not (val.mask is None and _is_one(val.n)):
                    raise paths.Unsupported('masked store with a differently selected value')
                v = val.t
            else:
                v = to_term(val)
            self.t = ir.ite(key.t, v, self.t)
            return
        if key is Ellipsis or (isinstance(key, slice) and key == slice(None, None, None)):
            if isinstance(val, Lane):
                self.t = val.t
            else:
                self.t = to_term(val)
            return
        if isinstance(key, (int, Sym)):
            if _is_one(self.n):
                self.t = to_term(val)
            else:
                self.t = ir.ite(ir.eq(IDX, to_term(key)), to_term(val), self.t)
            return
        if isinstance(key, GenIndex):
            self.t = to_term(val)
            return
        raise paths.Unsupported('array store %r' % (key,))


def _minmax_facts(w, sort):
    """min <= max, with equality iff the array is constant (mathematical fact)"""
    if sort not in ('R', 'I'):
        return
    lo, hi = ir.uf('np.min', [w], sort), ir.uf('np.max', [w], sort)
    State.ctx.assume(ir.le(lo, hi))
    State.ctx.assume(ir.eq(ir.lt(lo, hi), ir.gt(ir.uf('n_unique', [w], 'I'), 1)))


def assume_all_lanes(cond):
    """a fact about EVERY lane of the batch (a precondition on whole input arrays): recorded so that the adversarial
    reductions cannot contradict it, and assumed for the generic lane"""
    c = State.ctx
    if not hasattr(c, 'universal'):
        c.universal = []
    c.universal.append(cond)
    c.assume(cond)


def _universally(t):
    """is the lane predicate t implied, for every lane, by the facts assumed for all lanes (and lane-free facts)?"""
    c = State.ctx
    uni = getattr(c, 'universal', None)
    if not uni:
        return False
    from . import smt
    lane_free = [p for p in c.pc if not _mentions_lane(p)]
    r = smt.prove(list(uni) + lane_free, t, timeout_ms=2000, use_cvc5=False, free_ufs_ok=True)
    return r.verdict == 'proved'


_ML_CACHE = {}


def _mentions_lane(t):
    """does t depend on the generic lane index?  (occurrences under the whole-array binder arr(...) are bound)"""
    r = _ML_CACHE.get(t)
    if r is None:
        if t.op == 'var':
            r = t.args[0].endswith('@i') or t is IDX
        elif t.op == 'const' or (t.op == 'uf' and t.args[0] == 'arr'):
            r = False
        else:
            r = any(_mentions_lane(a) for a in t.args if isinstance(a, ir.T))
        _ML_CACHE[t] = r
    return r


class GenIndex(object):
    """the generic index of a lane-map comprehension / loop"""
    def __repr__(self):
        return 'GenIndex'


class GenList(object):
    """a Python list of unknown length whose generic element is known (result of a lane-map loop / .tolist())"""
    def __init__(self, lane):
        self.lane = lane

    def __repr__(self):
        return 'GenList(%r)' % (self.lane,)


class DType(object):
    def __init__(self, kind):
        self.kind = kind

    def __repr__(self):
        return 'dtype(%s)' % self.kind


def _lane_of(x, like):
    if isinstance(x, Lane):
        return x
    return None


def _lane_binop(op, a, b):
    la, lb = isinstance(a, Lane), isinstance(b, Lane)
    ref = a if la else b
    if la and lb:
        mask = _merge_mask(a, b)
        n = a.n if not _is_one(a.n) else b.n
    else:
        mask, n = ref.mask, ref.n
    ta = a.t if la else to_term(a)
    tb = b.t if lb else to_term(b)
    cmp = op in ('lt', 'le', 'gt', 'ge', 'eq', 'ne')
    if State.safety and mask is not None and not cmp:
        # definedness only matters on the selected population
        saved = State.ctx.pc
        State.ctx.pc = saved + [mask]
        try:
            t = _arith(op, ta, tb)
        finally:
            State.ctx.pc = saved
    else:
        t = _cmp(op, ta, tb) if cmp else _arith(op, ta, tb)
    return Lane(t, n, mask)


def _merge_mask(a, b):
    if a.mask is b.mask:
        return a.mask
    if a.mask is None and _is_one(a.n):
        return b.mask
    if b.mask is None and _is_one(b.n):
        return a.mask
    raise paths.Unsupported('elementwise operation between differently selected arrays')


class Arr2(object):
    """(n, k) array, k concrete: list of column Lanes"""
    __array_priority__ = 3000

    def __init__(self, cols, n, owner=None):
        self.cols = list(cols)
        self.n = n
        self.owner = owner
        if owner is not None:
            for c in self.cols:
                if c.owner is None:
                    c.owner = owner

    def __repr__(self):
        return 'Arr2(%r)' % (self.cols,)

    __hash__ = object.__hash__

    def __bool__(self):
        return truth(self)

    @property
    def shape(self):
        return (self.n, len(self.cols))

    @property
    def ndim(self):
        return 2

    _dtype = None

    @property
    def T(self):
        """transpose, decidable only where the path condition fixes the number of rows to the number of columns (a square
        block): entry (i, j) of the result is entry (j, i), each new column an explicit case split over the old ones"""
        from . import smt
        k = len(self.cols)
        if any(c.mask is not None for c in self.cols):
            raise paths.Unsupported('transpose of a boolean-selected array')
        r = smt.prove(list(State.ctx.pc), ir.eq(to_term(self.n), k), timeout_ms=3000)
        if r.verdict != 'proved':
            raise paths.Unsupported('attribute T of Arr2 with a row count the path does not fix')
        cols = []
        for j in range(k):
            t = self.cols[k - 1].elem(j).t
            for i in range(k - 2, -1, -1):
                t = ir.ite(ir.eq(IDX, i), self.cols[i].elem(j).t, t)
            cols.append(Lane(t, k))
        return Arr2(cols, k)

    @property
    def dtype(self):
        return self._dtype if self._dtype is not None else self.cols[0].dtype

    def copy(self):
        r = Arr2([c.copy() for c in self.cols], self.n)
        r._dtype = self._dtype
        return r

    def whole(self):
        return ir.uf('arr2', [c.whole() for c in self.cols], 'U')

    def tolist(self):
        from .interp import GenRows
        return GenRows([c.copy() for c in self.cols])

    def getitem(self, key):
        if isinstance(key, tuple) and len(key) == 2:
            r, c = key
            if isinstance(r, slice) and r == slice(None, None, None):
                if isinstance(c, int):
                    return self.cols[c]                      # column view
                if isinstance(c, (list, tuple)):
                    return Arr2([self.cols[j].copy() for j in c], self.n)   # fancy index: copy
            if isinstance(r, (int, Sym)) and isinstance(c, int):
                return self.cols[c].elem(r)
        if isinstance(key, (int, Sym)):
            return RowView(self, key)
        if isinstance(key, GenIndex):
            return RowView(self, key)
        if isinstance(key, Lane) and key.t.sort == 'B':
            # boolean row mask: the selected rows, column by column (each column carries the selection)
            return Arr2([c.getitem(key) for c in self.cols], self.n)
        if isinstance(key, tuple) and len(key) == 2 and isinstance(key[0], slice) and key[0] == slice(None, None, None) \
                and hasattr(key[1], 'data') and all(isinstance(b, (bool, Sym)) for b in key[1].data):
            # boolean COLUMN mask: each entry decided by a case split
            keep = [b if isinstance(b, bool) else bool(State.ctx.branch(b.t)) for b in key[1].data]
            return Arr2([c.copy() for c, b in zip(self.cols, keep) if b], self.n)
        raise paths.Unsupported('Arr2 index %r' % (key,))

    def setitem(self, key, val):
        if isinstance(key, tuple) and len(key) == 2:
            r, c = key
            if isinstance(r, slice) and r == slice(None, None, None) and isinstance(c, int):
                self.cols[c].setitem(Ellipsis, val)
                return
        if isinstance(key, Arr2) and len(key.cols) == len(self.cols) and all(k.t.sort == 'B' for k in key.cols) \
                and not isinstance(val, (Lane, Arr2)):
            # A[mask] = scalar with a boolean mask of the same shape: column by column
            for col, mk in zip(self.cols, key.cols):
                col.setitem(mk, val)
            return
        raise paths.Unsupported('Arr2 store %r' % (key,))

    def _rowwise(self, op):
        t = None
        for c in self.cols:
            if c.t.sort != 'B':
                raise paths.Unsupported('row-wise any/all of a non-boolean array')
            t = c.t if t is None else (ir.or_(t, c.t) if op == 'or' else ir.and_(t, c.t))
        return Lane(t, self.n, self.cols[0].mask)

    def all(self, axis=None):
        if axis in (1, -1):
            return self._rowwise('and')           # one boolean per row
        r = None
        for c in self.cols:
            x = c.all()
            r = x if r is None else binop('and', r, x) if isinstance(x, Sym) or isinstance(r, Sym) else (r and x)
        return r

    def any(self, axis=None):
        if axis in (1, -1):
            return self._rowwise('or')
        r = None
        for c in self.cols:
            x = c.any()
            r = x if r is None else binop('or', r, x) if isinstance(x, Sym) or isinstance(r, Sym) else (r or x)
        return r


class RowView(object):
    """one row of an Arr2 (used by `for x in X` / X[i])"""
    def __init__(self, arr, k):
        self.arr, self.k = arr, k

    def items(self):
        if isinstance(self.k, GenIndex):
            return [Sym(c.t) for c in self.arr.cols]
        return [c.elem(self.k) for c in self.arr.cols]


def _arr2_binop(op, a, b):
    if isinstance(a, Arr2) and isinstance(b, Arr2):
        if len(a.cols) != len(b.cols):
            raise paths.Unsupported('Arr2 shapes')
        return Arr2([binop(op, x, y) for x, y in zip(a.cols, b.cols)], a.n)
    if isinstance(a, Arr2):
        if isinstance(b, Lane):
            raise paths.Unsupported('Arr2 with 1-d broadcast')
        return Arr2([binop(op, x, b) for x in a.cols], a.n)
    if isinstance(a, Lane):
        raise paths.Unsupported('Arr2 with 1-d broadcast')
    return Arr2([binop(op, a, y) for y in b.cols], b.n)


class Opaque(object):
    """library object; `kind` selects the method table in libmodel, `t` is a term naming it (sort 'U')"""
    def __init__(self, kind, t=None, **fields):
        self.kind = kind
        self.t = t
        self.fields = fields

    def __repr__(self):
        return 'Opaque(%s%s)' % (self.kind, '' if self.t is None else ', ' + ir.show(self.t))

    __hash__ = object.__hash__


class UndefType(object):
    def __repr__(self):
        return 'Undef'


Undef = UndefType()

_install_ops(Sym)
_install_ops(Lane)
_install_ops(Arr2)


# ------------------------------------------------------------------------------------------------
# elementwise function application
# ------------------------------------------------------------------------------------------------

def _fn1(name, t):
    if name == 'exp':
        return ir.exp(t)
    if name == 'log':
        _safety('log', ir.gt(t, 0))
        return ir.log(t)
    if name == 'sqrt':
        _safety('sqrt', ir.ge(t, 0))
        return ir.sqrt(t)
    if name == 'abs':
        return ir.abs_(t)
    if name == 'sign':
        return ir.sign(t)
    if name == 'ndtr':
        return ir.ndtr(t)
    if name == 'ndtri':
        return ir.ndtri(t)
    if name == 'not':
        return ir.not_(t)
    if name == 'isnan':
        if t.op == 'const':
            return ir.TRUE if t.args[0] == 'nan' else ir.FALSE
        if t.op == 'ite':
            return ir.ite(t.args[0], _fn1('isnan', t.args[1]), _fn1('isnan', t.args[2]))
        if t.op == 'abs':
            return _fn1('isnan', t.args[0])
        return ir.uf('isnan', [t], 'B') if _nanable(t) else ir.FALSE
    return ir.uf(name, [t])


NANABLE = set()


def _nanable(t):
    return t in NANABLE


def apply1(name, x):
    if isinstance(x, Lane):
        if State.safety and x.mask is not None:
            saved = State.ctx.pc
            State.ctx.pc = saved + [x.mask]
            try:
                return x.fresh_like(_fn1(name, x.t))
            finally:
                State.ctx.pc = saved
        return x.fresh_like(_fn1(name, x.t))
    if isinstance(x, Arr2):
        return Arr2([apply1(name, c) for c in x.cols], x.n)
    if isinstance(x, Sym) or is_number(x) or isinstance(x, bool):
        return Sym(_fn1(name, to_term(x)))
    raise paths.Unsupported('%s(%s)' % (name, type(x).__name__))


def apply2(name, a, b):
    f = {'min': ir.min_, 'max': ir.max_}[name]
    if isinstance(a, Arr2) or isinstance(b, Arr2):
        raise paths.Unsupported(name + ' on 2-d')
    if isinstance(a, Lane) or isinstance(b, Lane):
        la, lb = isinstance(a, Lane), isinstance(b, Lane)
        ref = a if la else b
        mask = _merge_mask(a, b) if (la and lb) else ref.mask
        n = ref.n if not (la and lb) else (a.n if not _is_one(a.n) else b.n)
        return Lane(f(a.t if la else to_term(a), b.t if lb else to_term(b)), n, mask)
    return Sym(f(to_term(a), to_term(b)))


def clip(x, lo, hi):
    if lo is not None:
        x = apply2('max', x, lo)
    if hi is not None:
        x = apply2('min', x, hi)
    return x


def where(c, a, b):
    if isinstance(c, Lane):
        ta = a.t if isinstance(a, Lane) else to_term(a)
        tb = b.t if isinstance(b, Lane) else to_term(b)
        return Lane(ir.ite(c.t, ta, tb), c.n, c.mask)
    if isinstance(c, Sym):
        if isinstance(a, Lane) or isinstance(b, Lane):
            ref = a if isinstance(a, Lane) else b
            ta = a.t if isinstance(a, Lane) else to_term(a)
            tb = b.t if isinstance(b, Lane) else to_term(b)
            return Lane(ir.ite(c.t, ta, tb), ref.n, ref.mask)
        return Sym(ir.ite(c.t, to_term(a), to_term(b)))
    return a if c else b


class UFun(object):
    """an uninterpreted (possibly lane-specific) real function handed to the code under verification as a callable:
    f(x)[i] = F(i, x[i]).  The hypotheses on F (monotone, ...) are axioms instantiated on the applications that occur."""
    def __init__(self, name, per_lane=True):
        self.name, self.per_lane = name, per_lane
        self.calls = []

    def apply_term(self, t, scalar=False):
        return ir.uf(self.name, [ir.ZERO if (scalar or not self.per_lane) else IDX, t])

    def sym_call(self, interp, args, kwargs):
        x = args[0]
        if isinstance(x, Lane):
            r = Lane(self.apply_term(x.t), x.n, x.mask)
        elif isinstance(x, (Sym, int, float)):
            r = Sym(self.apply_term(to_term(x), scalar=True))
        else:
            raise paths.Unsupported('uninterpreted function applied to %r' % (x,))
        return r

    def applications(self, terms):
        out = set()
        for t in terms:
            for s in ir.subterms(t):
                if s.op == 'uf' and s.args[0] == self.name:
                    out.add(s)
        return out

    def monotone_axioms(self, terms):
        """ground instances of  x <= y => F(i,x) <= F(i,y)  for the applications occurring in `terms`"""
        apps = sorted(self.applications(terms), key=lambda a: ir.show(a))
        ax = []
        for a in apps:
            for b in apps:
                if a is not b and a.args[1] is b.args[1]:
                    ax.append(ir.implies(ir.le(a.args[2], b.args[2]), ir.le(a, b)))
        return ax
