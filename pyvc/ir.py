"""Expression IR shared by every back end.

One hash-consed term type `T` with four emitters (z3, sympy, mpmath.iv intervals, mpmath numbers).
Python floats are read as the exact rationals they spell (DESIGN section 4.1).
Sorts: 'R' real, 'I' integer, 'B' boolean, 'U' uninterpreted (library objects, arrays as wholes).
"""
from fractions import Fraction
import itertools

_INTERN = {}


class T(object):
    __slots__ = ('op', 'args', 'sort', '_hash', '__weakref__')

    def __new__(cls, op, args, sort):
        key = (op, args, sort)
        t = _INTERN.get(key)
        if t is None:
            t = object.__new__(cls)
            t.op, t.args, t.sort = op, args, sort
            t._hash = hash(key)
            _INTERN[key] = t
        return t

    def __hash__(self):
        return self._hash

    def __reduce__(self):
        return (T, (self.op, self.args, self.sort))

    def __eq__(self, other):
        return self is other

    def __ne__(self, other):
        return self is not other

    def __repr__(self):
        return show(self)

    @property
    def is_const(self):
        return self.op == 'const'

    @property
    def value(self):
        assert self.op == 'const'
        return self.args[0]


def show(t, depth=0):
    if depth > 12:
        return '...'
    if t.op == 'const':
        v = t.args[0]
        return str(v)
    if t.op == 'var':
        return t.args[0]
    if t.op == 'uf':
        return '%s(%s)' % (t.args[0], ', '.join(show(a, depth + 1) for a in t.args[1:]))
    inf = {'add': ' + ', 'mul': '*', 'lt': ' < ', 'le': ' <= ', 'eq': ' == ', 'and': ' & ', 'or': ' | ',
           'div': '/', 'pow': '**', 'implies': ' => '}
    if t.op in inf:
        return '(' + inf[t.op].join(show(a, depth + 1) for a in t.args) + ')'
    return '%s(%s)' % (t.op, ', '.join(show(a, depth + 1) for a in t.args))


# ------------------------------------------------------------------------------------------------
# constructors with light, semantics-preserving simplification (over the reals)
# ------------------------------------------------------------------------------------------------

def const(v):
    if isinstance(v, T):
        return v
    if isinstance(v, bool):
        return T('const', (v,), 'B')
    if isinstance(v, int):
        return T('const', (v,), 'I')
    if isinstance(v, float):
        if v != v or v in (float('inf'), float('-inf')):
            return T('const', (str(v),), 'R')      # 'inf', '-inf', 'nan' : extended-real constants
        return T('const', (Fraction(repr(v)),), 'R')
    if isinstance(v, Fraction):
        if v.denominator == 1:
            return T('const', (int(v),), 'I')
        return T('const', (v,), 'R')
    if isinstance(v, str):
        return T('const', (v,), 'S')
    if v is None:
        return T('const', (None,), 'U')
    raise TypeError('const(%r)' % (v,))


TRUE = const(True)
FALSE = const(False)
ZERO = const(0)
ONE = const(1)
INF = const(float('inf'))
NINF = const(float('-inf'))


def var(name, sort='R'):
    return T('var', (name,), sort)


def uf(name, args, sort='R'):
    return T('uf', (name,) + tuple(const(a) for a in args), sort)


def _num(t):
    """exact numeric value of a finite numeric constant, else None"""
    if t.op == 'const' and t.sort in ('R', 'I') and not isinstance(t.args[0], str):
        return Fraction(t.args[0])
    return None


def is_inf(t):
    return t.op == 'const' and t.args[0] in ('inf', '-inf')


def _nsort(*ts):
    return 'I' if all(t.sort == 'I' for t in ts) else 'R'


def add(*ts):
    flat = []
    c = Fraction(0)
    for t in ts:
        t = const(t)
        if t.op == 'add':
            items = t.args
        else:
            items = (t,)
        for x in items:
            n = _num(x)
            if n is not None:
                c += n
            else:
                flat.append(x)
    if any(is_inf(x) for x in flat):
        infs = [x for x in flat if is_inf(x)]
        if all(x is infs[0] for x in infs):
            return infs[0]
        return const(float('nan'))
    # collect like terms:  k1*t + k2*t -> (k1+k2)*t
    if len(flat) > 1:
        coef = {}
        order = []
        for x in flat:
            k, base = _split_coef(x)
            if base not in coef:
                coef[base] = Fraction(0)
                order.append(base)
            coef[base] += k
        if len(order) < len(flat) or any(coef[b] == 0 for b in order):
            flat = []
            for b in order:
                k = coef[b]
                if k == 0:
                    continue
                flat.append(b if k == 1 else mul(const(k), b))
    if c != 0:
        flat.append(const(c))
    if not flat:
        return ZERO
    if len(flat) == 1:
        return flat[0]
    flat.sort(key=_order)
    return T('add', tuple(flat), _nsort(*flat))


def _split_coef(x):
    """x = k * base with k a rational constant"""
    if x.op == 'mul':
        ks = [a for a in x.args if _num(a) is not None]
        if ks:
            rest = [a for a in x.args if _num(a) is None]
            k = Fraction(1)
            for a in ks:
                k *= _num(a)
            if len(rest) == 1:
                return k, rest[0]
            rest.sort(key=_order)
            return k, T('mul', tuple(rest), _nsort(*rest))
    return Fraction(1), x


def _order(t):
    return (0 if t.op == 'const' else 1, t.op, id(t))


def neg(t):
    t = const(t)
    n = _num(t)
    if n is not None:
        return const(-n)
    if is_inf(t):
        return NINF if t is INF else INF
    if t.op == 'neg':
        return t.args[0]
    return mul(const(-1), t)


def sub(a, b):
    return add(a, neg(b))


def mul(*ts):
    flat = []
    c = Fraction(1)
    for t in ts:
        t = const(t)
        items = t.args if t.op == 'mul' else (t,)
        for x in items:
            n = _num(x)
            if n is not None:
                c *= n
            else:
                flat.append(x)
    if c == 0 and not any(is_inf(x) for x in flat):
        return ZERO
    if any(is_inf(x) for x in flat):
        return T('mul', tuple(flat + ([const(c)] if c != 1 else [])), 'R')
    if not flat:
        return const(c)
    if c != 1:
        if len(flat) == 1 and flat[0].op == 'add':
            return add(*[mul(const(c), a) for a in flat[0].args])
        flat.append(const(c))
    if len(flat) == 1:
        return flat[0]
    flat.sort(key=_order)
    return T('mul', tuple(flat), _nsort(*flat))


def div(a, b):
    a, b = const(a), const(b)
    na, nb = _num(a), _num(b)
    if nb is not None and nb != 0:
        if na is not None:
            return const(na / nb)
        return mul(const(1 / nb), a)
    if a is b and nb is None:
        pass        # x/x is 1 only when x != 0: keep the term, the safety obligation decides
    return T('div', (a, b), 'R')


def pow_(a, b):
    a, b = const(a), const(b)
    na, nb = _num(a), _num(b)
    if nb is not None:
        if nb == 0:
            return ONE
        if nb == 1:
            return a
        if na is not None and nb.denominator == 1 and (na != 0 or nb > 0):
            return const(na ** int(nb))
    if na is not None and na == 1:
        return ONE
    return T('pow', (a, b), 'R')


def exp(a):
    a = const(a)
    if _num(a) == 0:
        return ONE
    if a is NINF:
        return ZERO
    if a is INF:
        return INF
    return T('exp', (a,), 'R')


def log(a):
    a = const(a)
    if _num(a) == 1:
        return ZERO
    if _num(a) == 0:
        return NINF
    return T('log', (a,), 'R')


def sqrt(a):
    a = const(a)
    n = _num(a)
    if n is not None and n >= 0:
        from math import isqrt
        if n.denominator == 1 and isqrt(n.numerator) ** 2 == n.numerator:
            return const(isqrt(n.numerator))
    return T('sqrt', (a,), 'R')


def abs_(a):
    a = const(a)
    n = _num(a)
    if n is not None:
        return const(abs(n))
    if a.op == 'const' and a.args[0] in ('nan', 'inf'):
        return a
    if a.op == 'const' and a.args[0] == '-inf':
        return const(float('inf'))
    return T('abs', (a,), a.sort)


def sign(a):
    a = const(a)
    n = _num(a)
    if n is not None:
        return const((n > 0) - (n < 0))
    return T('sign', (a,), 'I')


def min_(a, b):
    a, b = const(a), const(b)
    if a is b:
        return a
    na, nb = _num(a), _num(b)
    if na is not None and nb is not None:
        return a if na <= nb else b
    return T('min', (a, b), _nsort(a, b))


def max_(a, b):
    a, b = const(a), const(b)
    if a is b:
        return a
    na, nb = _num(a), _num(b)
    if na is not None and nb is not None:
        return a if na >= nb else b
    return T('max', (a, b), _nsort(a, b))


def ndtr(a):
    return T('ndtr', (const(a),), 'R')


def ndtri(a):
    return T('ndtri', (const(a),), 'R')


def _extcmp(a, b):
    """comparison when decidable, else None -> (lt, eq). Non-constant terms denote *finite* reals (assumption 1),
    so they compare strictly inside (-inf, +inf)."""
    def val(t):
        if is_inf(t):
            return float('inf') if t is INF else float('-inf')
        return _num(t)
    va, vb = val(a), val(b)
    if va is None or vb is None:
        if va is None and vb is None:
            return None
        fin, other, flip = (a, vb, False) if va is None else (b, va, True)
        if fin.op == 'const' or fin.sort not in ('R', 'I'):
            return None
        if other == float('inf'):
            return (True, False) if not flip else (False, False)
        if other == float('-inf'):
            return (False, False) if not flip else (True, False)
        return None
    return (va < vb, va == vb)


def lt(a, b):
    a, b = const(a), const(b)
    r = _extcmp(a, b)
    if r is not None:
        return const(bool(r[0]))
    if a is b:
        return FALSE
    return T('lt', (a, b), 'B')


def le(a, b):
    a, b = const(a), const(b)
    r = _extcmp(a, b)
    if r is not None:
        return const(bool(r[0] or r[1]))
    if a is b:
        return TRUE
    return T('le', (a, b), 'B')


def gt(a, b):
    return lt(b, a)


def ge(a, b):
    return le(b, a)


def eq(a, b):
    a, b = const(a), const(b)
    if a is b:
        return TRUE
    if a.op == 'const' and b.op == 'const':
        r = _extcmp(a, b)
        if r is not None:
            return const(bool(r[1]))
        return const(a.args[0] == b.args[0])
    if is_inf(a) or is_inf(b):
        r = _extcmp(a, b)
        if r is not None:
            return const(bool(r[1]))
    if a.sort == 'B' and b.sort == 'B':
        return T('eq', (a, b), 'B')
    x, y = sorted((a, b), key=_order)
    return T('eq', (x, y), 'B')


def ne(a, b):
    return not_(eq(a, b))


def not_(a):
    a = const(a)
    if a is TRUE:
        return FALSE
    if a is FALSE:
        return TRUE
    if a.op == 'not':
        return a.args[0]
    if a.op == 'lt':
        return le(a.args[1], a.args[0])
    if a.op == 'le':
        return lt(a.args[1], a.args[0])
    return T('not', (a,), 'B')


def and_(*ts):
    flat = []
    for t in ts:
        t = const(t)
        if t is TRUE:
            continue
        if t is FALSE:
            return FALSE
        if t.op == 'and':
            flat.extend(t.args)
        else:
            flat.append(t)
    out = []
    for x in flat:
        if x not in out:
            out.append(x)
    if not out:
        return TRUE
    if len(out) == 1:
        return out[0]
    return T('and', tuple(out), 'B')


def or_(*ts):
    flat = []
    for t in ts:
        t = const(t)
        if t is FALSE:
            continue
        if t is TRUE:
            return TRUE
        if t.op == 'or':
            flat.extend(t.args)
        else:
            flat.append(t)
    out = []
    for x in flat:
        if x not in out:
            out.append(x)
    if not out:
        return FALSE
    if len(out) == 1:
        return out[0]
    return T('or', tuple(out), 'B')


def implies(a, b):
    return or_(not_(a), b)


def ite(c, a, b):
    c, a, b = const(c), const(a), const(b)
    if c is TRUE:
        return a
    if c is FALSE:
        return b
    if a is b:
        return a
    if a.sort == 'B' and b.sort == 'B':
        return or_(and_(c, a), and_(not_(c), b))
    s = a.sort if a.sort == b.sort else ('R' if {a.sort, b.sort} <= {'R', 'I'} else a.sort)
    return T('ite', (c, a, b), s)


_fresh = itertools.count()


def fresh(prefix, sort='R'):
    return var('%s!%d' % (prefix, next(_fresh)), sort)


# ------------------------------------------------------------------------------------------------
# traversal helpers
# ------------------------------------------------------------------------------------------------

def subterms(t, seen=None):
    if seen is None:
        seen = set()
    stack = [t]
    while stack:
        x = stack.pop()
        if x in seen:
            continue
        seen.add(x)
        for a in x.args:
            if isinstance(a, T):
                stack.append(a)
    return seen


def free_vars(t):
    return {x for x in subterms(t) if x.op == 'var'}


def substitute(t, mapping, cache=None):
    """simultaneous substitution term -> term, rebuilding through the simplifying constructors"""
    if cache is None:
        cache = {}
    if t in mapping:
        return mapping[t]
    if t in cache:
        return cache[t]
    if t.op in ('const', 'var'):
        return t
    args = [substitute(a, mapping, cache) if isinstance(a, T) else a for a in t.args]
    r = rebuild(t.op, args, t.sort)
    cache[t] = r
    return r


_BUILD = {}


def rebuild(op, args, sort):
    if op == 'uf':
        return T('uf', tuple(args), sort)
    f = _BUILD.get(op)
    if f is None:
        return T(op, tuple(args), sort)
    return f(*args)


_BUILD.update({'add': add, 'mul': mul, 'div': div, 'pow': pow_, 'exp': exp, 'log': log, 'sqrt': sqrt, 'abs': abs_,
               'sign': sign, 'min': min_, 'max': max_, 'ndtr': ndtr, 'ndtri': ndtri, 'lt': lt, 'le': le, 'eq': eq,
               'not': not_, 'and': and_, 'or': or_, 'ite': ite, 'neg': neg})


# ------------------------------------------------------------------------------------------------
# emitter: z3
# ------------------------------------------------------------------------------------------------

class Z3Emitter(object):
    """T -> z3 expression. exp/log/pow/sqrt/ndtr/ndtri and 'uf' are z3 uninterpreted functions; their meaning
    comes from the ground axioms of pyvc.smt. Division is z3's total division (definedness is a separate
    safety obligation)."""

    def __init__(self):
        import z3
        self.z3 = z3
        self.cache = {}
        self.funcs = {}
        self.usort = z3.DeclareSort('Obj')
        self.strs = {}

    def sort(self, s):
        z3 = self.z3
        return {'R': z3.RealSort(), 'I': z3.IntSort(), 'B': z3.BoolSort(), 'U': self.usort, 'S': self.usort}[s]

    def func(self, name, argsorts, sort):
        key = (name, tuple(argsorts), sort)
        f = self.funcs.get(key)
        if f is None:
            f = self.z3.Function('%s#%d' % (name, len(self.funcs)) if any(k[0] == name for k in self.funcs) else name,
                                 *([self.sort(s) for s in argsorts] + [self.sort(sort)]))
            self.funcs[key] = f
        return f

    def real(self, e):
        z3 = self.z3
        return z3.ToReal(e) if e.sort() == z3.IntSort() else e

    def __call__(self, t):
        r = self.cache.get(t)
        if r is None:
            r = self._emit(t)
            self.cache[t] = r
        return r

    def _emit(self, t):
        z3 = self.z3
        op = t.op
        if op == 'const':
            v = t.args[0]
            if t.sort == 'B':
                return z3.BoolVal(v)
            if t.sort == 'I':
                return z3.IntVal(v)
            if t.sort == 'R':
                if isinstance(v, str):
                    return z3.Real('const_' + v.replace('-', 'neg'))       # extended constants: opaque reals
                return z3.RealVal(str(v))
            k = ('strconst', v)
            if k not in self.strs:
                self.strs[k] = z3.Const('k_%d' % len(self.strs), self.usort)
            return self.strs[k]
        if op == 'var':
            return z3.Const(t.args[0], self.sort(t.sort))
        if op == 'uf':
            args = [self(a) for a in t.args[1:]]
            f = self.func(t.args[0], [a.sort for a in t.args[1:]], t.sort)
            return f(*args) if args else z3.Const('uf0_' + t.args[0], self.sort(t.sort))
        a = [self(x) for x in t.args]
        if op == 'add':
            if t.sort == 'R':
                a = [self.real(x) for x in a]
            return z3.Sum(a)
        if op == 'mul':
            if t.sort == 'R':
                a = [self.real(x) for x in a]
            return z3.Product(a)
        if op == 'div':
            return self.real(a[0]) / self.real(a[1])
        if op == 'pow':
            n = _num(t.args[1])
            if n is not None and n.denominator == 1 and 0 < abs(n) <= 8:
                base = self.real(a[0])
                p = z3.Product([base] * abs(int(n)))
                return p if n > 0 else 1 / p
            return self.func('pow', ['R', 'R'], 'R')(self.real(a[0]), self.real(a[1]))
        if op in ('exp', 'log', 'sqrt', 'ndtr', 'ndtri'):
            return self.func(op, ['R'], 'R')(self.real(a[0]))
        if op == 'abs':
            return z3.If(a[0] >= 0, a[0], -a[0])
        if op == 'sign':
            return z3.If(a[0] > 0, z3.IntVal(1), z3.If(a[0] < 0, z3.IntVal(-1), z3.IntVal(0)))
        if op == 'min':
            x, y = self._same(a[0], a[1])
            return z3.If(x <= y, x, y)
        if op == 'max':
            x, y = self._same(a[0], a[1])
            return z3.If(x >= y, x, y)
        if op == 'lt':
            x, y = self._same(a[0], a[1])
            return x < y
        if op == 'le':
            x, y = self._same(a[0], a[1])
            return x <= y
        if op == 'eq':
            x, y = self._same(a[0], a[1])
            return x == y
        if op == 'not':
            return z3.Not(a[0])
        if op == 'and':
            return z3.And(a)
        if op == 'or':
            return z3.Or(a)
        if op == 'ite':
            x, y = self._same(a[1], a[2])
            return z3.If(a[0], x, y)
        raise NotImplementedError('z3 emit ' + op)

    def _same(self, x, y):
        z3 = self.z3
        if x.sort() != y.sort() and {x.sort(), y.sort()} == {z3.IntSort(), z3.RealSort()}:
            return self.real(x), self.real(y)
        return x, y


# ------------------------------------------------------------------------------------------------
# emitter: sympy
# ------------------------------------------------------------------------------------------------

def to_sympy(t, symbols, cache=None, ufs=None):
    """symbols: dict var-name -> sympy symbol (missing ones are created as real symbols)."""
    import sympy as sp
    if cache is None:
        cache = {}
    if t in cache:
        return cache[t]
    op = t.op
    if op == 'const':
        v = t.args[0]
        if isinstance(v, bool):
            r = sp.true if v else sp.false
        elif isinstance(v, str):
            r = {'inf': sp.oo, '-inf': -sp.oo, 'nan': sp.nan}.get(v, sp.Symbol(v))
        else:
            r = sp.Rational(Fraction(v).numerator, Fraction(v).denominator)
    elif op == 'var':
        if t.args[0] not in symbols:
            symbols[t.args[0]] = sp.Symbol(t.args[0], real=True)
        r = symbols[t.args[0]]
    elif op == 'uf':
        args = [to_sympy(a, symbols, cache, ufs) for a in t.args[1:]]
        if ufs and t.args[0] in ufs:
            r = ufs[t.args[0]](*args)
        else:
            r = sp.Function(t.args[0])(*args)
    else:
        a = [to_sympy(x, symbols, cache, ufs) for x in t.args]
        if op == 'add':
            r = sp.Add(*a)
        elif op == 'mul':
            r = sp.Mul(*a)
        elif op == 'div':
            r = a[0] / a[1]
        elif op == 'pow':
            r = a[0] ** a[1]
        elif op == 'exp':
            r = sp.exp(a[0])
        elif op == 'log':
            r = sp.log(a[0])
        elif op == 'sqrt':
            r = sp.sqrt(a[0])
        elif op == 'abs':
            r = sp.Abs(a[0])
        elif op == 'sign':
            r = sp.sign(a[0])
        elif op == 'min':
            r = sp.Min(*a)
        elif op == 'max':
            r = sp.Max(*a)
        elif op == 'ndtr':
            r = (1 + sp.erf(a[0] / sp.sqrt(2))) / 2
        elif op == 'ndtri':
            r = sp.sqrt(2) * sp.erfinv(2 * a[0] - 1)
        elif op == 'lt':
            r = sp.Lt(a[0], a[1])
        elif op == 'le':
            r = sp.Le(a[0], a[1])
        elif op == 'eq':
            r = sp.Eq(a[0], a[1])
        elif op == 'not':
            r = sp.Not(a[0])
        elif op == 'and':
            r = sp.And(*a)
        elif op == 'or':
            r = sp.Or(*a)
        elif op == 'ite':
            r = sp.Piecewise((a[1], a[0]), (a[2], True))
        else:
            raise NotImplementedError('sympy emit ' + op)
    cache[t] = r
    return r


# ------------------------------------------------------------------------------------------------
# emitter: numbers (mpmath mpf at a chosen precision) and intervals (mpmath.iv)
# ------------------------------------------------------------------------------------------------

class EvalError(Exception):
    pass


def evaluate(t, env, ufs=None, ctx=None, cache=None, extended=False):
    """Numeric evaluation with mpmath. env: var-name -> number/bool. ufs: name -> python callable.
    ctx is mpmath.mp (numbers) or mpmath.iv (intervals). Booleans over intervals are three-valued:
    True / False / None (undetermined)."""
    import mpmath
    if ctx is None:
        ctx = mpmath.mp
    if cache is None:
        cache = {}
    iv = ctx is mpmath.iv

    def ev(t):
        if t in cache:
            return cache[t]
        r = ev1(t)
        cache[t] = r
        return r

    def num(v):
        if isinstance(v, str):
            return {'inf': ctx.inf, '-inf': -ctx.inf, 'nan': ctx.nan if not iv else ctx.mpf([-ctx.inf, ctx.inf])}[v]
        f = Fraction(v)
        if iv:
            return ctx.mpf(f.numerator) / ctx.mpf(f.denominator)
        return ctx.mpf(f.numerator) / ctx.mpf(f.denominator)

    def tri_and(vals):
        if any(v is False for v in vals):
            return False
        if all(v is True for v in vals):
            return True
        return None

    def ev1(t):
        op = t.op
        if op == 'const':
            v = t.args[0]
            if t.sort == 'B':
                return v
            if t.sort in ('R', 'I'):
                return num(v)
            return v
        if op == 'var':
            if t.args[0] not in env:
                raise EvalError('unbound ' + t.args[0])
            v = env[t.args[0]]
            if isinstance(v, (bool, str)) or v is None:
                return v
            if isinstance(v, (int, Fraction)):
                return num(v)
            if isinstance(v, float):
                return ctx.mpf(v)
            return v
        if op == 'uf':
            if not ufs or t.args[0] not in ufs:
                raise EvalError('uninterpreted ' + t.args[0])
            return ufs[t.args[0]](*[ev(a) for a in t.args[1:]])
        if op == 'ite':
            c = ev(t.args[0])
            if c is True:
                return ev(t.args[1])
            if c is False:
                return ev(t.args[2])
            a, b = ev(t.args[1]), ev(t.args[2])
            if iv:
                return ctx.mpf([min(a.a, b.a), max(a.b, b.b)])
            raise EvalError('undetermined ite')
        if op == 'and':
            return tri_and([ev(a) for a in t.args])
        if op == 'or':
            r = tri_and([(None if v is None else (not v)) for v in [ev(a) for a in t.args]])
            return None if r is None else (not r)
        if op == 'not':
            v = ev(t.args[0])
            return None if v is None else (not v)
        a = [ev(x) for x in t.args]
        try:
            if op == 'add':
                r = a[0]
                for x in a[1:]:
                    r = r + x
                return r
            if op == 'mul':
                r = a[0]
                for x in a[1:]:
                    r = r * x
                return r
            if op == 'div':
                if iv and 0 in a[1]:
                    raise EvalError('division by interval containing 0')
                return a[0] / a[1]
            if op == 'pow':
                n = _num(t.args[1])
                if n is not None and n.denominator == 1:
                    if iv:
                        if n >= 0:
                            return a[0] ** int(n)
                        if 0 in a[0]:
                            raise EvalError('0 ** negative')
                        return 1 / (a[0] ** int(-n))
                    return a[0] ** int(n)
                if iv:
                    if extended and a[0].a == 0 and a[0].b == 0 and a[1].a > 0:
                        return ctx.mpf(0)                      # 0 ** y, y > 0
                    if extended and a[0].a == ctx.inf and a[1].a > 0:
                        return ctx.mpf([ctx.inf, ctx.inf])     # (+inf) ** y, y > 0
                    if extended and a[0].a == 0 and a[0].b > 0 and a[1].a > 0 and a[0].b != ctx.inf:
                        top = ctx.exp(a[1] * ctx.log(ctx.mpf(a[0].b)))        # monotone in the base for y > 0
                        return ctx.mpf([0, top.b])
                    if extended and a[0].a > 0 and a[0].b == ctx.inf and a[1].a > 0:
                        bot = ctx.exp(a[1] * ctx.log(ctx.mpf(a[0].a)))
                        return ctx.mpf([bot.a, ctx.inf])
                    if a[0].a <= 0:
                        raise EvalError('pow base not positive')
                    return ctx.exp(a[1] * ctx.log(a[0]))
                if a[0] <= 0:
                    if a[0] == 0 and a[1] > 0:
                        return ctx.mpf(0)
                    raise EvalError('pow base not positive')
                return ctx.power(a[0], a[1])
            if op == 'exp':
                return ctx.exp(a[0])
            if op == 'log':
                if extended and iv and a[0].a == 0 and a[0].b >= 0:
                    return ctx.mpf([-ctx.inf, ctx.log(ctx.mpf(a[0].b)).b if a[0].b > 0 else -ctx.inf])
                if (iv and a[0].a <= 0) or (not iv and a[0] <= 0):
                    raise EvalError('log of non-positive')
                return ctx.log(a[0])
            if op == 'sqrt':
                if (iv and a[0].a < 0) or (not iv and a[0] < 0):
                    raise EvalError('sqrt of negative')
                return ctx.sqrt(a[0])
            if op == 'abs':
                return abs(a[0])
            if op == 'sign':
                if iv:
                    if a[0].a > 0:
                        return ctx.mpf(1)
                    if a[0].b < 0:
                        return ctx.mpf(-1)
                    if a[0].a == 0 and a[0].b == 0:
                        return ctx.mpf(0)
                    return ctx.mpf([-1, 1])
                return ctx.mpf((a[0] > 0) - (a[0] < 0))
            if op == 'min':
                if iv:
                    return ctx.mpf([min(a[0].a, a[1].a), min(a[0].b, a[1].b)])
                return min(a[0], a[1])
            if op == 'max':
                if iv:
                    return ctx.mpf([max(a[0].a, a[1].a), max(a[0].b, a[1].b)])
                return max(a[0], a[1])
            if op == 'ndtr':
                if iv:
                    lo = mpmath.ncdf(mpmath.mpf(a[0].a)) if a[0].a != -mpmath.inf else mpmath.mpf(0)
                    hi = mpmath.ncdf(mpmath.mpf(a[0].b)) if a[0].b != mpmath.inf else mpmath.mpf(1)
                    e = mpmath.mpf(2) ** (-mpmath.mp.prec + 4)
                    return ctx.mpf([max(0, lo - e), min(1, hi + e)])
                return mpmath.ncdf(a[0])
            if op == 'ndtri':
                if iv:
                    raise EvalError('ndtri over intervals')
                return mpmath.sqrt(2) * mpmath.erfinv(2 * a[0] - 1)
            if op in ('lt', 'le', 'eq'):
                x, y = a
                if iv and not isinstance(x, (bool, str)) and x is not None:
                    if op == 'lt':
                        return True if x.b < y.a else (False if x.a >= y.b else None)
                    if op == 'le':
                        return True if x.b <= y.a else (False if x.a > y.b else None)
                    if x.a == x.b == y.a == y.b:
                        return True
                    return False if (x.b < y.a or y.b < x.a) else None
                if x is None or y is None:
                    return None                         # an undetermined operand (tolerance band) decides nothing
                if isinstance(x, (bool, str)) or isinstance(y, (bool, str)):
                    return bool(x == y) if op == 'eq' else None
                # numbers: decided only outside a tolerance band (rounding of the 50-digit evaluation)
                tol = ctx.mpf(10) ** (-(ctx.dps * 3) // 5) * max(1, abs(x), abs(y))
                if op == 'eq':
                    if x == y:
                        return True
                    return False if abs(x - y) > tol else None
                if abs(x - y) <= tol:
                    if x == y and op == 'le':
                        return True
                    if x == y and op == 'lt':
                        return False
                    return None
                return bool(x < y)
        except (ZeroDivisionError, ValueError, mpmath.libmp.libhyper.NoConvergence) as e:
            raise EvalError(str(e))
        raise NotImplementedError('evaluate ' + op)

    return ev(t)
