"""Glue: build an interpreter over the current /repo source, run a symbolic execution over all paths."""
from . import ir, paths, values, libmodel, extract, interp as interp_mod
from .values import State


def new_interp(root=None):
    src = extract.Source(root)
    I = interp_mod.Interp(src, libmodel)
    return I


def run_paths(I, body, safety=False, rng0='G0', max_paths=4000, prune=True):
    """body(ctx) -> value. Executes over all feasible paths; returns list of PathResult.
    PathResult.state is whatever body stored in ctx.out (dict)."""
    ctx = paths.Context(max_paths=max_paths, prune=prune)

    def run(c):
        State.ctx = c
        State.interp = I
        State.safety = safety
        State.rng = ir.var(rng0, 'U')
        State.where = ''
        I.frames = []
        I.generic_depth = 0
        c.out = {}
        try:
            v = body(c)
            return 'return', v, c.out
        except interp_mod.PyRaise as e:
            e.state = c.out
            raise
    res = paths.explore(ctx, run)
    return res, ctx
