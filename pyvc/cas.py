"""Computer-algebra back end (sympy): identities  lhs == rhs  on a stated domain.

verdict 'proved'  : simplify(lhs - rhs) (after an optional bijective substitution) is literally 0;
        'refuted' : the residual is numerically non-zero (> 1e-9 relative, 40 digits) at a sampled domain point;
        'unknown' : residual not reduced to 0 but numerically ~0 at all sampled points.
"""
import random
import time
from fractions import Fraction

import sympy as sp

from . import ir


class Result(object):
    def __init__(self, verdict, seconds, detail='', witness=None):
        self.verdict, self.seconds, self.detail, self.model, self.backend = verdict, seconds, detail, witness, 'sympy'

    def __repr__(self):
        return 'Result(%s, sympy, %.2fs %s)' % (self.verdict, self.seconds, self.detail)


def _reduce(e):
    for f in (lambda x: sp.simplify(sp.powdenest(x, force=True)),
              lambda x: sp.simplify(sp.powsimp(sp.powdenest(x, force=True), force=True)),
              lambda x: sp.simplify(x),
              lambda x: sp.simplify(sp.expand_log(sp.powsimp(sp.expand_power_base(x, force=True), force=True), force=True)),
              lambda x: sp.simplify(sp.powdenest(sp.expand(x), force=True)),
              lambda x: sp.simplify(sp.factor(sp.together(x)))):
        try:
            r = f(e)
        except Exception:
            continue
        if r == 0:
            return r
    return e


def identity(lhs, rhs, domain, subs=None, samples=12, seed=0, timeout=60, accept=None, seeds=()):
    """lhs, rhs: sympy expressions. domain: dict symbol -> (lo, hi) open interval used for refutation sampling
    (given in terms of the *original* symbols). subs: optional dict symbol -> expression (bijective change of
    variables that makes the identity algebraic)."""
    t0 = time.time()
    res = lhs - rhs
    worst, wit = _numeric(res, lhs, domain, samples, seed, accept, seeds)
    if worst > 1e-9:
        return Result('refuted', time.time() - t0, 'residual %.3g at %s' % (float(worst), wit), wit)
    e = res.subs(subs) if subs else res
    r = _reduce(e)
    if r == 0:
        return Result('proved', time.time() - t0)
    return Result('unknown', time.time() - t0, 'residual not reduced: %s' % str(r)[:120])


def _numeric(res, lhs, domain, samples, seed, accept=None, seeds=()):
    """largest relative residual over sampled points that lie on the path (accept(pt) is True)"""
    rnd = random.Random(seed)
    worst = 0
    wit = None
    extra = [x for x in res.free_symbols if x not in domain]
    byname = {str(k): k for k in list(domain) + extra}
    pts = []
    for sd in seeds:                         # e.g. a solver model of the path condition
        pt = {}
        for k, val in sd.items():
            if k in byname and val is not None:
                try:
                    pt[byname[k]] = sp.Float(float(val), 40) if not isinstance(val, Fraction) else \
                        sp.Rational(val.numerator, val.denominator)
                except Exception:
                    pass
        if all(k in pt for k in domain):
            pts.append(pt)
            # variants of the seed: re-draw random subsets of the coordinates (the seed may be a degenerate point)
            keys = list(domain)
            for _j in range(10):
                q = dict(pt)
                for k in keys:
                    if rnd.random() < 0.5:
                        lo, hi = domain[k]
                        q[k] = sp.Float(rnd.uniform(lo, hi), 40)
                pts.append(q)
    # corners of the domain box (defects often live in an extreme parameter region)
    keys = list(domain)
    if len(keys) <= 4:
        import itertools
        for combo in itertools.product(*[(domain[k][0], domain[k][1]) for k in keys]):
            pts.append({k: sp.Float(c, 40) for k, c in zip(keys, combo)})
    tries = 0
    n0 = len(pts)
    while len(pts) < samples + n0 and tries < samples * 6:
        tries += 1
        pt = {s: sp.Float(rnd.uniform(lo, hi), 40) for s, (lo, hi) in domain.items()}
        pts.append(pt)
    for pt in pts:
        for x in extra:                      # symbols outside the stated domain (e.g. arbitrary object state)
            if x not in pt:
                pt[x] = sp.Float(rnd.uniform(0.1, 2.0), 40)
        if accept is not None and not accept({str(k): v for k, v in pt.items()}):
            continue
        try:
            val = sp.N(res.subs(pt), 40)
            scale = max(1, abs(sp.N(lhs.subs(pt), 40)))
            rel = abs(val) / scale
            if rel.is_real is False or rel != rel:
                continue
            if rel > worst:
                worst, wit = rel, {str(k): float(v) for k, v in pt.items()}
        except Exception:
            continue
    return worst, wit


def term_to_sympy(t, assumptions=None):
    """assumptions: dict var-name -> dict of sympy assumptions (positive=True ...)"""
    syms = {}
    for v in ir.free_vars(t):
        name = v.args[0]
        kw = dict(real=True)
        kw.update((assumptions or {}).get(name, {}))
        syms[name] = sp.Symbol(name, **kw)
    return ir.to_sympy(t, syms), syms
