"""AST interpreter over symbolic values for the Python subset sdv-dev/Copulas is written in.

The source is read from <repo>/copulas on every run (pyvc.extract); nothing is re-typed. Repository functions are
executed from their real AST (decorators included, as the wrappers they are); calls into numpy/scipy/pandas go to
the assumed contracts of pyvc.libmodel; a function may instead be replaced by a *summary* (its contract) through
`Interp.summaries[qualname]` - that is the modular step: callers are then checked against the callee's contract.
Anything outside the modelled subset raises paths.Unsupported (never silently skipped).
"""
import ast
import builtins as _builtins
import enum
import operator

from . import ir, paths, values
from .paths import Unsupported, PathEnd
from .values import Sym, Lane, Arr2, Opaque, GenIndex, GenList, State, Undef


# ------------------------------------------------------------------------------------------------
# run-time structures
# ------------------------------------------------------------------------------------------------

class PyList(list):
    """interpreter-created list; `gen` is set when it holds the generic element of a lane-map loop"""
    gen = None

    def __repr__(self):
        return 'PyList(%s%s)' % (list.__repr__(self), '' if self.gen is None else ' gen=%r' % (self.gen,))


class Env(object):
    def __init__(self, vars=None, parent=None):
        self.vars = vars if vars is not None else {}
        self.parent = parent

    def lookup(self, name):
        e = self
        while e is not None:
            if name in e.vars:
                return e.vars[name]
            e = e.parent
        raise KeyError(name)


class ModuleVal(object):
    def __init__(self, name, path):
        self.name, self.path = name, path
        self.env = Env({'__name__': name})
        self.loaded = False

    def __repr__(self):
        return 'ModuleVal(%s)' % self.name


class FuncVal(object):
    def __init__(self, node, env, module, cls=None, qualname=None, defaults=None, kw_defaults=None):
        self.node, self.env, self.module, self.cls = node, env, module, cls
        self.name = node.name if hasattr(node, 'name') else '<lambda>'
        self.qualname = qualname or self.name
        self.defaults = defaults or []
        self.kw_defaults = kw_defaults or {}
        self.wrapped = None          # functools.wraps target
        self.attrs = {}

    def __repr__(self):
        return 'FuncVal(%s)' % self.qualname


class BoundMethod(object):
    def __init__(self, obj, func):
        self.obj, self.func = obj, func

    def __repr__(self):
        return 'BoundMethod(%r.%s)' % (self.obj, getattr(self.func, 'name', self.func))

    def __eq__(self, other):
        return isinstance(other, BoundMethod) and other.obj is self.obj and other.func is self.func

    def __hash__(self):
        return hash((id(self.obj), id(self.func)))


class ClassMethodVal(object):
    def __init__(self, func):
        self.func = func


class StaticMethodVal(object):
    def __init__(self, func):
        self.func = func


class PropertyVal(object):
    def __init__(self, func):
        self.func = func


class ClassVal(object):
    def __init__(self, name, module, bases, namespace, qualname):
        self.name, self.module, self.bases, self.ns, self.qualname = name, module, bases, namespace, qualname
        self.subclasses = []
        self.mro = self._mro()
        for b in bases:
            if isinstance(b, ClassVal):
                b.subclasses.append(self)

    def _mro(self):
        seqs = [list(b.mro) for b in self.bases if isinstance(b, ClassVal)] + \
               [[b for b in self.bases if isinstance(b, ClassVal)]]
        res = [self]
        seqs = [s for s in seqs if s]
        while seqs:
            for s in seqs:
                cand = s[0]
                if not any(cand in t[1:] for t in seqs):
                    break
            else:
                raise Unsupported('inconsistent MRO for ' + self.name)
            res.append(cand)
            seqs = [[x for x in s if x is not cand] for s in seqs]
            seqs = [s for s in seqs if s]
        return res

    def is_subclass(self, other):
        if isinstance(other, ClassVal):
            return other in self.mro
        if other is object:
            return True
        for c in self.mro:
            for b in c.bases:
                if b is other:
                    return True
                if isinstance(b, type) and isinstance(other, type) and issubclass(b, other):
                    return True
        return False

    def lookup(self, name):
        for c in self.mro:
            if name in c.ns:
                return c.ns[name], c
        raise KeyError(name)

    def __repr__(self):
        return 'ClassVal(%s)' % self.qualname


class Obj(object):
    def __init__(self, cls):
        self.cls = cls
        self.attrs = {}

    def __repr__(self):
        return 'Obj(%s)' % self.cls.name


class ExcVal(object):
    """an exception instance of the interpreted program"""
    def __init__(self, cls, args):
        self.cls, self.args = cls, args
        self.attrs = {}

    @property
    def clsname(self):
        return self.cls.name if isinstance(self.cls, ClassVal) else self.cls.__name__

    def isinstance_of(self, c):
        if isinstance(self.cls, ClassVal):
            if isinstance(c, ClassVal):
                return self.cls.is_subclass(c)
            return self.cls.is_subclass(c)
        if isinstance(c, ClassVal):
            return False
        return issubclass(self.cls, c)

    def __repr__(self):
        return '%s(%s)' % (self.clsname, ', '.join(str(a)[:80] for a in self.args))


def make_exc(name, *args):
    return ExcVal(getattr(_builtins, name), list(args))


class PyRaise(Exception):
    def __init__(self, exc):
        Exception.__init__(self, repr(exc))
        self.exc = exc


class ReturnEx(Exception):
    def __init__(self, value):
        self.value = value


class BreakEx(Exception):
    pass


class ContinueEx(Exception):
    pass


class SuperProxy(object):
    def __init__(self, cls, obj):
        self.cls, self.obj = cls, obj


class GenRange(object):
    """range(n) with symbolic n: iterated once with the generic index"""
    def __init__(self, n):
        self.n = n


class LoopInv(object):
    """inductive invariant for the loop with ordinal `ordinal` of function `qualname` (DESIGN 3.3)

    inv(view) -> T | list[T]          view.cur[name] current values, view.pre[name] values at loop entry,
                                      view.ghost[name] ghost terms (incl. 'it' = completed iterations for `for`)
    shapes: {name: 'lane'|'real'|'bool'|'int'} for variables first assigned inside the loop
    ghost_init(view) -> {name: T},  ghost_step(view) -> {name: T}
    """
    def __init__(self, name, inv, shapes=None, ghost_init=None, ghost_step=None, ghost_sorts=None, min_iters=0,
                 hints=None, observe=None, havoc=None):
        self.name, self.inv = name, inv
        self.havoc = havoc or {}        # name -> callable(ctx) producing the havoc'd value (custom kinds)
        self.observe = observe          # callable(view) -> dict recorded as event 'loop_body_end' (preserve leg)
        self.shapes = shapes or {}
        self.ghost_init, self.ghost_step = ghost_init, ghost_step
        self.ghost_sorts = ghost_sorts or {}
        self.min_iters = min_iters
        self.hints = hints


class LoopView(object):
    def __init__(self, cur, pre, ghost):
        self.cur, self.pre, self.ghost = cur, pre, ghost


BUILTIN_EXC = {n: getattr(_builtins, n) for n in dir(_builtins)
               if isinstance(getattr(_builtins, n), type) and issubclass(getattr(_builtins, n), BaseException)}


# ------------------------------------------------------------------------------------------------
# the interpreter
# ------------------------------------------------------------------------------------------------

class Interp(object):
    def __init__(self, source, libmodel):
        """source: pyvc.extract.Source; libmodel: module providing external(name) and builtin models"""
        self.source = source
        self.lib = libmodel
        self.modules = {}
        self.summaries = {}          # qualname -> callable(interp, args, kwargs) replacing the body
        self.loop_invs = {}          # (qualname, ordinal) -> LoopInv
        self.call_hooks = []         # callables(qualname, args, kwargs) observing repository calls
        self.return_hooks = {}       # qualname -> callable(locals, return value): lets a contract see final locals
        self.frames = []             # call stack of qualnames
        self.max_depth = 60
        self.generic_depth = 0
        self.generic_lists = []
        self.executed = set()        # qualnames of repository functions whose body was executed
        self.created = []            # objects instantiated, in order (freshness / aliasing obligations)

    # -- modules ---------------------------------------------------------------------------------------
    def module(self, name):
        m = self.modules.get(name)
        if m is None:
            path = self.source.module_path(name)
            if path is None:
                raise Unsupported('unknown repository module ' + name)
            m = ModuleVal(name, path)
            self.modules[name] = m
        if not m.loaded:
            m.loaded = True
            tree = self.source.tree(m.path)
            saved = (State.where,)
            try:
                self.exec_block(tree.body, m.env, m, None, 'module ' + name)
            finally:
                State.where = saved[0]
        return m

    def resolve(self, qualname):
        """'copulas.bivariate.clayton.Clayton.cumulative_distribution' -> value"""
        parts = qualname.split('.')
        for i in range(len(parts), 0, -1):
            mod = '.'.join(parts[:i])
            if self.source.module_path(mod) is not None:
                v = self.module(mod)
                for p in parts[i:]:
                    v = self.getattr(v, p)
                return v
        raise Unsupported('cannot resolve ' + qualname)

    def import_module(self, name):
        if name == 'copulas' or name.startswith('copulas.'):
            return self.module(name)
        return self.lib.external(name)

    # -- statements --------------------------------------------------------------------------------------
    def exec_block(self, stmts, env, module, func, label=None):
        for s in stmts:
            self.exec_stmt(s, env, module, func)

    def exec_stmt(self, s, env, module, func):
        State.where = '%s:%d' % (func.qualname if func is not None else module.name, s.lineno)
        m = getattr(self, 'st_' + type(s).__name__, None)
        if m is None:
            raise Unsupported('statement %s at %s' % (type(s).__name__, State.where))
        return m(s, env, module, func)

    def st_Expr(self, s, env, module, func):
        if isinstance(s.value, ast.Constant):
            return
        self.ev(s.value, env, module, func)

    def st_Pass(self, s, env, module, func):
        return

    def st_Import(self, s, env, module, func):
        for a in s.names:
            if a.asname:
                env.vars[a.asname] = self.import_module(a.name)
            else:
                top = a.name.split('.')[0]
                self.import_module(a.name)
                env.vars[top] = self.import_module(top)

    def st_ImportFrom(self, s, env, module, func):
        modname = s.module
        if s.level:
            raise Unsupported('relative import')
        m = self.import_module(modname)
        for a in s.names:
            try:
                v = self.getattr(m, a.name)
            except PyRaise:
                sub = modname + '.' + a.name
                v = self.import_module(sub)
            except Unsupported as ex:
                v = Missing('%s.%s' % (modname, a.name))
            env.vars[a.asname or a.name] = v

    def st_Assign(self, s, env, module, func):
        v = self.ev(s.value, env, module, func)
        for t in s.targets:
            self.assign(t, v, env, module, func)

    def st_AnnAssign(self, s, env, module, func):
        if s.value is not None:
            self.assign(s.target, self.ev(s.value, env, module, func), env, module, func)

    def st_AugAssign(self, s, env, module, func):
        if isinstance(s.target, ast.Subscript):
            # the subscript expression is evaluated ONCE (it may have effects, e.g. a random mask)
            base = self.ev(s.target.value, env, module, func)
            key = self.ev_index(s.target.slice, env, module, func)
            cur = self.getitem(base, key)
            rhs = self.ev(s.value, env, module, func)
            self.setitem(base, key, self.binop(s.op, cur, rhs))
            return
        if isinstance(s.target, ast.Attribute):
            obj = self.ev(s.target.value, env, module, func)
            cur = self.getattr(obj, s.target.attr)
            rhs = self.ev(s.value, env, module, func)
            self.setattr(obj, s.target.attr, self.binop(s.op, cur, rhs))
            return
        cur = self.ev(_load(s.target), env, module, func)
        rhs = self.ev(s.value, env, module, func)
        if isinstance(cur, (Lane, Arr2)) and isinstance(s.target, ast.Name):
            # numpy in-place operator: mutates the array object
            new = self.binop(s.op, cur, rhs)
            if isinstance(cur, Lane):
                cur.setitem(Ellipsis, new)
                return
        if isinstance(cur, (list,)) and isinstance(s.op, ast.Add):
            self._note_mutation(cur)
            cur.extend(rhs)
            return
        new = self.binop(s.op, cur, rhs)
        self.assign(s.target, new, env, module, func)

    def st_Delete(self, s, env, module, func):
        for t in s.targets:
            if isinstance(t, ast.Name):
                env.vars.pop(t.id, None)
            elif isinstance(t, ast.Subscript):
                base = self.ev(t.value, env, module, func)
                key = self.ev_index(t.slice, env, module, func)
                self._note_mutation(base)
                del base[key]
            else:
                raise Unsupported('del target')

    def st_Return(self, s, env, module, func):
        raise ReturnEx(self.ev(s.value, env, module, func) if s.value is not None else None)

    def st_Break(self, s, env, module, func):
        raise BreakEx()

    def st_Continue(self, s, env, module, func):
        raise ContinueEx()

    def st_Global(self, s, env, module, func):
        raise Unsupported('global statement')

    def _is_noop_block(self, body):
        """statements without any effect on the symbolic state: warnings.warn(...), LOGGER.*(...), pass"""
        for st in body:
            if isinstance(st, ast.Pass):
                continue
            if isinstance(st, ast.Expr) and isinstance(st.value, ast.Call):
                name = ast.unparse(st.value.func)
                if name == 'warnings.warn' or name.startswith('LOGGER.') or name.startswith('logging.'):
                    continue
            return False
        return True

    def st_If(self, s, env, module, func):
        c = self.ev(s.test, env, module, func)
        if not s.orelse and self._is_noop_block(s.body) and isinstance(c, Sym):
            return            # both outcomes lead to the same state: do not split the path (dropped: the warning)
        if values.truth(c):
            self.exec_block(s.body, env, module, func)
        else:
            self.exec_block(s.orelse, env, module, func)

    def st_Assert(self, s, env, module, func):
        c = self.ev(s.test, env, module, func)
        if not values.truth(c):
            msg = [self.ev(s.msg, env, module, func)] if s.msg is not None else []
            raise PyRaise(make_exc('AssertionError', *msg))

    def st_Raise(self, s, env, module, func):
        if s.exc is None:
            cur = env.lookup('__current_exception__') if self._has(env, '__current_exception__') else None
            if cur is None:
                raise Unsupported('bare raise outside except')
            raise PyRaise(cur)
        v = self.ev(s.exc, env, module, func)
        if isinstance(v, ExcVal):
            raise PyRaise(v)
        if isinstance(v, ClassVal) or (isinstance(v, type) and issubclass(v, BaseException)):
            raise PyRaise(ExcVal(v, []))
        raise Unsupported('raise of %r' % (v,))

    def _has(self, env, name):
        try:
            env.lookup(name)
            return True
        except KeyError:
            return False

    def st_Try(self, s, env, module, func):
        try:
            try:
                self.exec_block(s.body, env, module, func)
            except PyRaise as e:
                for h in s.handlers:
                    if h.type is None:
                        match = True
                    else:
                        ht = self.ev(h.type, env, module, func)
                        hts = ht if isinstance(ht, tuple) else (ht,)
                        match = any(e.exc.isinstance_of(c) for c in hts)
                    if match:
                        if h.name:
                            env.vars[h.name] = e.exc
                        env.vars['__current_exception__'] = e.exc
                        self.exec_block(h.body, env, module, func)
                        break
                else:
                    raise
            else:
                self.exec_block(s.orelse, env, module, func)
        finally:
            if s.finalbody:
                self.exec_block(s.finalbody, env, module, func)

    def st_With(self, s, env, module, func):
        if len(s.items) != 1:
            raise Unsupported('with: several items')
        item = s.items[0]
        cm = self.ev(item.context_expr, env, module, func)
        enter = getattr(cm, 'cm_enter', None)
        if enter is None:
            raise Unsupported('with on %r' % (cm,))
        v = cm.cm_enter(self)
        if item.optional_vars is not None:
            self.assign(item.optional_vars, v, env, module, func)
        try:
            self.exec_block(s.body, env, module, func)
        except PyRaise as e:
            if not cm.cm_exit(self, e.exc):
                raise
        except (ReturnEx, BreakEx, ContinueEx):
            cm.cm_exit(self, None)
            raise
        else:
            cm.cm_exit(self, None)

    def st_FunctionDef(self, s, env, module, func, cls=None, prefix=None):
        defaults = [self.ev(d, env, module, func) for d in s.args.defaults]
        kw_defaults = {a.arg: self.ev(d, env, module, func)
                       for a, d in zip(s.args.kwonlyargs, s.args.kw_defaults) if d is not None}
        if prefix is None:
            prefix = (func.qualname + '.<locals>') if func is not None else module.name
        f = FuncVal(s, env, module, cls, prefix + '.' + s.name, defaults, kw_defaults)
        v = f
        for d in reversed(s.decorator_list):
            dv = self.ev(d, env, module, func)
            v = self.call(dv, [v], {})
        env.vars[s.name] = v
        return v

    def st_ClassDef(self, s, env, module, func):
        bases = [self.ev(b, env, module, func) for b in s.bases]
        qual = module.name + '.' + s.name
        if any(b is enum.Enum for b in bases):
            members = []
            for st in s.body:
                if isinstance(st, ast.Assign) and len(st.targets) == 1 and isinstance(st.targets[0], ast.Name):
                    members.append((st.targets[0].id, ast.literal_eval(st.value)))
            E = enum.Enum(s.name, members)
            E.__module__ = module.name
            env.vars[s.name] = E
            return
        ns = {}
        cenv = Env(ns, env)
        cls = ClassVal.__new__(ClassVal)
        # class body: functions need the class for super(); create the ClassVal first with an empty namespace
        ClassVal.__init__(cls, s.name, module, bases, ns, qual)
        for st in s.body:
            State.where = '%s:%d' % (qual, st.lineno)
            if isinstance(st, ast.FunctionDef):
                self.st_FunctionDef(st, cenv, module, func, cls=cls, prefix=qual)
            elif isinstance(st, ast.Expr) and isinstance(st.value, ast.Constant):
                continue
            else:
                self.exec_stmt(st, cenv, module, func)
        v = cls
        for d in reversed(s.decorator_list):
            v = self.call(self.ev(d, env, module, func), [v], {})
        env.vars[s.name] = v

    # loops ---------------------------------------------------------------------------------------------
    def _loop_key(self, s, func):
        if func is None:
            return None
        ordinal = 0
        for n in ast.walk(func.node):
            if isinstance(n, (ast.For, ast.While)):
                if n is s:
                    return (func.qualname, ordinal)
                ordinal += 1
        return None

    def st_For(self, s, env, module, func):
        key = self._loop_key(s, func)
        it = self.ev(s.iter, env, module, func)
        if key in self.loop_invs:
            return self._loop_with_invariant(s, env, module, func, self.loop_invs[key], it)
        items, generic = self.iterate(it)
        if generic:
            # the body is executed ONCE for a generic element: sound only if no iteration reads what another one wrote
            carried = self._loop_carried(s)
            if carried:
                raise Unsupported('lane-map loop with a loop-carried dependence on %s (an iteration reads what an earlier one '
                                  'wrote): needs a loop invariant' % ', '.join(sorted(carried)))
            self.generic_depth += 1
            ref = self._gen_ref(it)
            saved_gen = (State.gen_n, State.gen_mask)
            State.gen_n, State.gen_mask = ref.n, ref.mask
            try:
                for x in items:
                    self.assign(s.target, x, env, module, func)
                    try:
                        self.exec_block(s.body, env, module, func)
                    except ContinueEx:
                        pass
                    except BreakEx:
                        raise Unsupported('break inside a lane-map loop')
            finally:
                self.generic_depth -= 1
                State.gen_n, State.gen_mask = saved_gen
            return
        broke = False
        for x in items:
            self.assign(s.target, x, env, module, func)
            try:
                self.exec_block(s.body, env, module, func)
            except ContinueEx:
                continue
            except BreakEx:
                broke = True
                break
        if not broke:
            self.exec_block(s.orelse, env, module, func)

    @staticmethod
    def _loop_carried(s):
        """names through which one iteration of `for` loop s can observe an earlier one: a local read before it is written in
        the body although the body also writes it, or a list the body appends to and also reads"""
        written = set()
        for n in ast.walk(s.target):
            if isinstance(n, ast.Name):
                written.add(n.id)
        assigned, appended = set(), set()
        for n in ast.walk(ast.Module(body=s.body, type_ignores=[])):
            if isinstance(n, ast.Name) and isinstance(n.ctx, (ast.Store, ast.Del)):
                assigned.add(n.id)
            if isinstance(n, ast.Call) and isinstance(n.func, ast.Attribute) and n.func.attr in ('append', 'extend', 'insert', 'add',
                                                                                                    'update', 'pop', 'remove') \
                    and isinstance(n.func.value, ast.Name):
                appended.add(n.func.value.id)
        carried = set()

        def receiver_ids(node):
            return {id(c.func.value) for c in ast.walk(node) if isinstance(c, ast.Call) and isinstance(c.func, ast.Attribute)
                    and c.func.attr in ('append', 'extend', 'insert', 'add', 'update') and isinstance(c.func.value, ast.Name)}

        def visit(node):
            # source order: value before targets for assignments
            if isinstance(node, (ast.FunctionDef, ast.Lambda, ast.AsyncFunctionDef)):
                return          # a closure defined in the body is evaluated when called; its free variables are checked there
            if isinstance(node, ast.Assign):
                visit(node.value)
                for t in node.targets:
                    visit(t)
                return
            if isinstance(node, ast.AugAssign):
                visit(node.value)
                if isinstance(node.target, ast.Name):
                    if node.target.id not in written:
                        carried.add(node.target.id)
                    written.add(node.target.id)
                else:
                    visit(node.target)
                return
            if isinstance(node, ast.Name):
                if isinstance(node.ctx, ast.Load):
                    if node.id in assigned and node.id not in written:
                        carried.add(node.id)
                    if node.id in appended and id(node) not in recv:
                        carried.add(node.id)
                else:
                    written.add(node.id)
                return
            for ch in ast.iter_child_nodes(node):
                visit(ch)
        recv = set()
        for st in s.body:
            recv |= receiver_ids(st)
        for st in s.body:
            visit(st)
        return carried

    def st_While(self, s, env, module, func):
        key = self._loop_key(s, func)
        if key in self.loop_invs:
            return self._loop_with_invariant(s, env, module, func, self.loop_invs[key], None)
        n = 0
        while values.truth(self.ev(s.test, env, module, func)):
            n += 1
            if n > 2000:
                raise Unsupported('while loop without invariant does not terminate symbolically at ' + State.where)
            try:
                self.exec_block(s.body, env, module, func)
            except ContinueEx:
                continue
            except BreakEx:
                break

    def iterate(self, it):
        """-> (list of items, generic?)"""
        if isinstance(it, GenRange):
            return [GenIndex()], True
        if isinstance(it, Lane):
            if values._is_one(it.n) and it.mask is None:
                return [Sym(it.t)], False
            return [Sym(it.t)], True
        if isinstance(it, Arr2):
            return [values.RowView(it, GenIndex())], True
        if isinstance(it, GenList):
            return [Sym(it.lane.t)], True
        if isinstance(it, ZipVal):
            parts = [self.iterate(x) for x in it.items]
            if any(g for _i, g in parts):
                if not all(g or len(i) == 1 for i, g in parts):
                    raise Unsupported('zip of generic and concrete iterables')
                return [tuple(i[0] for i, _g in parts)], True
            return [tuple(x) for x in zip(*[i for i, _g in parts])], False
        if isinstance(it, EnumerateVal):
            items, g = self.iterate(it.it)
            if g:
                return [(GenIndex(), items[0])], True
            return list(enumerate(items, it.start)), False
        if isinstance(it, values.RowView):
            return it.items(), False
        if isinstance(it, PyList) and it.gen is not None:
            return [Sym(it.gen.t)], True
        if isinstance(it, (list, tuple, range, dict, set, frozenset, str)) or hasattr(it, '__iter__') and \
                not isinstance(it, (Sym, Opaque)):
            if hasattr(it, 'sym_iter'):
                return it.sym_iter(self)
            return list(it), False
        if hasattr(it, 'sym_iter'):
            return it.sym_iter(self)
        if it is None:
            # CPython: iterating None raises TypeError
            raise PyRaise(make_exc('TypeError', "'NoneType' object is not iterable"))
        raise Unsupported('iteration over %r' % (it,))

    def _assigned_names(self, body):
        names, stores = [], []
        for n in ast.walk(ast.Module(body=body, type_ignores=[])):
            if isinstance(n, ast.Name) and isinstance(n.ctx, ast.Store):
                if n.id not in names:
                    names.append(n.id)
            elif isinstance(n, (ast.Subscript,)) and isinstance(n.ctx, ast.Store):
                b = n.value
                if isinstance(b, ast.Name) and b.id not in stores:
                    stores.append(b.id)
            elif isinstance(n, ast.AugAssign) and isinstance(n.target, ast.Name):
                if n.target.id not in names:
                    names.append(n.target.id)
        return names, stores

    def _snapshot(self, v):
        if isinstance(v, Lane):
            return Lane(v.t, v.n, v.mask)
        return v

    def _havoc_like(self, name, v, shape=None):
        c = State.ctx
        if isinstance(v, Lane):
            return Lane(c.fresh(name + '@i', v.t.sort).__class__ and ir.var(c.fresh(name, v.t.sort).args[0] + '@i', v.t.sort),
                        v.n, v.mask)
        if isinstance(v, Sym):
            return Sym(c.fresh(name, v.t.sort))
        if isinstance(v, bool):
            return Sym(c.fresh(name, 'B'))
        if isinstance(v, int):
            return Sym(c.fresh(name, 'I'))
        if isinstance(v, float):
            return Sym(c.fresh(name, 'R'))
        raise Unsupported('cannot havoc %s = %r' % (name, v))

    def _loop_with_invariant(self, s, env, module, func, spec, iterable):
        c = State.ctx
        is_for = isinstance(s, ast.For)
        names, stores = self._assigned_names(s.body + ([ast.Assign(targets=[s.target], value=ast.Constant(0))] if False else []))
        seq = None
        if is_for:
            if hasattr(iterable, 'sym_seq_elem'):
                seq = iterable                        # a sequence of symbolic length with a generic element
                N = values.to_term(iterable.sym_seq_len())
            elif not isinstance(iterable, (range, GenRange)):
                raise Unsupported('invariant loop over a non-range iterable')
            else:
                N = ir.const(len(iterable)) if isinstance(iterable, range) else values.to_term(iterable.n)
        pre = {k: self._snapshot(v) for k, v in env.vars.items()}
        leg = c.choose(['establish', 'preserve', 'exit'])

        def view(ghost):
            return LoopView(env.vars, pre, ghost)

        def inv_terms(ghost):
            r = spec.inv(view(ghost))
            return r if isinstance(r, (list, tuple)) else [r]

        if leg == 0:
            ghost = dict(spec.ghost_init(view({})) if spec.ghost_init else {})
            if is_for:
                ghost['it'] = ir.ZERO
            for j, g in enumerate(inv_terms(ghost)):
                c.oblige('%s.establish.%d' % (spec.name, j), g, kind='invariant', where=State.where,
                         hints=spec.hints(view(ghost)) if spec.hints else ())
            raise PathEnd()

        # havoc everything the body may change
        for nm in stores:
            v = env.vars.get(nm)
            if isinstance(v, Lane):
                v.t = ir.var(c.fresh('h_' + nm, v.t.sort).args[0] + '@i', v.t.sort)
        for nm in spec.havoc:
            if nm == '$rng':
                State.rng = spec.havoc[nm](c)          # the ghost generator state at the loop head
            elif nm not in names and nm in env.vars:
                env.vars[nm] = spec.havoc[nm](c)       # a container the body mutates through a method call
        for nm in names:
            if nm in spec.havoc:
                env.vars[nm] = spec.havoc[nm](c)
                continue
            if nm in env.vars and nm not in spec.shapes:
                if nm in stores and isinstance(env.vars[nm], Lane):
                    continue
                env.vars[nm] = self._havoc_like('h_' + nm, env.vars[nm])
            elif nm in spec.shapes:
                sh = spec.shapes[nm]
                if sh == 'lane':
                    ref = spec.shapes.get('__lane_ref__')
                    refv = env.vars[ref]
                    env.vars[nm] = Lane(ir.var(c.fresh('h_' + nm).args[0] + '@i'), refv.n, refv.mask)
                elif sh == 'lanebool':
                    refv = env.vars[spec.shapes['__lane_ref__']]
                    env.vars[nm] = Lane(ir.var(c.fresh('h_' + nm, 'B').args[0] + '@i', 'B'), refv.n, refv.mask)
                else:
                    env.vars[nm] = Sym(c.fresh('h_' + nm, {'real': 'R', 'bool': 'B', 'int': 'I'}[sh]))
        ghost = {g: c.fresh('g_' + g, srt) for g, srt in spec.ghost_sorts.items()}
        if is_for:
            ghost['it'] = c.fresh('g_it', 'I')
            c.assume(ir.ge(ghost['it'], 0))
        if leg == 1:
            if is_for:
                c.assume(ir.lt(ghost['it'], N))
                self.assign(s.target, Sym(ghost['it']) if seq is None else seq.sym_seq_elem(Sym(ghost['it'])),
                            env, module, func)
            for g in inv_terms(ghost):
                c.assume(g)
            if not is_for:
                if not values.truth(self.ev(s.test, env, module, func)):
                    raise PathEnd()
            try:
                self.exec_block(s.body, env, module, func)
            except ContinueEx:
                pass
            except BreakEx:
                if spec.observe:
                    c.event('loop_break', spec.observe(view(ghost)), State.where)
                env.vars['__ghost__%s' % spec.name] = ghost
                return               # continue after the loop with the state at the break
            if spec.observe:
                c.event('loop_body_end', spec.observe(view(ghost)), State.where)
            alts = [{}]
            if spec.ghost_step:
                st = spec.ghost_step(view(ghost))
                alts = st if isinstance(st, list) else [st]
            conj = []
            for st in alts:
                g2 = dict(ghost)
                g2.update(st)
                if is_for:
                    g2['it'] = ir.add(ghost['it'], 1)
                conj.append(inv_terms(g2))
            if len(conj) == 1:
                for j, g in enumerate(conj[0]):
                    c.oblige('%s.preserve.%d' % (spec.name, j), g, kind='invariant', where=State.where,
                             hints=spec.hints(view(g2)) if spec.hints else ())
            else:
                # existential ghost: the invariant must hold for ONE of the candidate ghost updates
                c.oblige('%s.preserve' % spec.name, ir.or_(*[ir.and_(*ts) for ts in conj]), kind='invariant',
                         where=State.where)
            raise PathEnd()
        # exit leg
        if is_for:
            c.assume(ir.eq(ghost['it'], N))
        if spec.min_iters and is_for:
            pass
        for g in inv_terms(ghost):
            c.assume(g)
        if not is_for:
            if values.truth(self.ev(s.test, env, module, func)):
                raise PathEnd()
        env.vars['__ghost__%s' % spec.name] = ghost
        return

    # -- assignment -----------------------------------------------------------------------------------
    def assign(self, target, v, env, module, func):
        if isinstance(target, ast.Name):
            env.vars[target.id] = v
        elif isinstance(target, (ast.Tuple, ast.List)):
            items = self.unpack(v, len(target.elts))
            for t, x in zip(target.elts, items):
                self.assign(t, x, env, module, func)
        elif isinstance(target, ast.Attribute):
            obj = self.ev(target.value, env, module, func)
            self.setattr(obj, target.attr, v)
        elif isinstance(target, ast.Subscript):
            base = self.ev(target.value, env, module, func)
            key = self.ev_index(target.slice, env, module, func)
            self.setitem(base, key, v)
        elif isinstance(target, ast.Starred):
            raise Unsupported('starred assignment')
        else:
            raise Unsupported('assignment target ' + type(target).__name__)

    def unpack(self, v, n):
        if isinstance(v, (tuple, list)):
            if len(v) != n:
                raise PyRaise(make_exc('ValueError', 'not enough values to unpack'))
            return list(v)
        if isinstance(v, values.RowView):
            items = v.items()
            if len(items) != n:
                raise PyRaise(make_exc('ValueError', 'unpack'))
            return items
        if hasattr(v, 'sym_unpack'):
            return v.sym_unpack(self, n)
        if isinstance(v, Arr2):
            raise Unsupported('unpacking rows of a 2-d array')
        raise Unsupported('unpack %r' % (v,))

    def setitem(self, base, key, v):
        if isinstance(base, (Lane, Arr2)):
            base.setitem(key, v)
        elif isinstance(base, (list, dict)):
            self._note_mutation(base)
            if isinstance(key, Sym):
                key = self.concrete_index(key)
            base[key] = v
        elif hasattr(base, 'sym_setitem'):
            base.sym_setitem(self, key, v)
        else:
            raise Unsupported('store into %r' % (base,))

    def _note_mutation(self, obj):
        owner = OWNERS.get(id(obj))
        if owner is not None and owner[0] is obj:
            State.ctx.event('mutate', owner[1], State.where)

    def concrete_index(self, k):
        n = ir._num(k.t)
        if n is None:
            raise Unsupported('symbolic index into a Python container')
        return int(n)

    # -- attribute access -------------------------------------------------------------------------------
    def getattr(self, obj, name):
        if isinstance(obj, Obj):
            if name in obj.attrs:
                return obj.attrs[name]
            if name == '__class__':
                return obj.cls
            if name == '__dict__':
                return obj.attrs
            if name == '__module__':
                return obj.cls.module.name
            try:
                v, owner = obj.cls.lookup(name)
            except KeyError:
                raise PyRaise(make_exc('AttributeError', "'%s' object has no attribute '%s'" % (obj.cls.name, name)))
            return self._bind(v, obj, obj.cls)
        if isinstance(obj, ClassVal):
            if name == '__name__':
                return obj.name
            if name == '__module__':
                return obj.module.name
            if name == '__bases__':
                return tuple(obj.bases)
            if name == '__subclasses__':
                return lambda: PyList(obj.subclasses)
            try:
                v, owner = obj.lookup(name)
            except KeyError:
                raise PyRaise(make_exc('AttributeError', "type object '%s' has no attribute '%s'" % (obj.name, name)))
            if isinstance(v, ClassMethodVal):
                return BoundMethod(obj, v.func)
            if isinstance(v, StaticMethodVal):
                return v.func
            return v
        if isinstance(obj, ModuleVal):
            if not obj.loaded:
                self.module(obj.name)
            if name in obj.env.vars:
                return obj.env.vars[name]
            sub = obj.name + '.' + name
            if self.source.module_path(sub) is not None:
                return self.module(sub)
            raise PyRaise(make_exc('AttributeError', 'module %s has no attribute %s' % (obj.name, name)))
        if isinstance(obj, SuperProxy):
            mro = obj.obj.cls.mro if isinstance(obj.obj, Obj) else obj.obj.mro
            i = mro.index(obj.cls)
            for c in mro[i + 1:]:
                if name in c.ns:
                    v = c.ns[name]
                    if isinstance(obj.obj, Obj):
                        return self._bind(v, obj.obj, c)
                    if isinstance(v, ClassMethodVal):
                        return BoundMethod(obj.obj, v.func)
                    return v
            if name == '__new__':
                return lambda cls, *a, **k: Obj(cls)
            if name == '__init__':
                return lambda *a, **k: None
            raise PyRaise(make_exc('AttributeError', 'super has no ' + name))
        if isinstance(obj, FuncVal):
            if name in obj.attrs:
                return obj.attrs[name]
            if name == '__name__':
                return obj.name
            if name == '__wrapped__' and obj.wrapped is not None:
                return obj.wrapped
            raise PyRaise(make_exc('AttributeError', 'function has no attribute ' + name))
        if isinstance(obj, BoundMethod):
            return self.getattr(obj.func, name)
        if isinstance(obj, ExcVal):
            if name == 'args':
                return tuple(obj.args)
            if name in obj.attrs:
                return obj.attrs[name]
            raise PyRaise(make_exc('AttributeError', name))
        if hasattr(obj, 'sym_getattr'):
            return obj.sym_getattr(self, name)
        r = self.lib.lib_getattr(self, obj, name)
        if r is not NotImplemented:
            return r
        if isinstance(obj, (Sym, Lane, Arr2, Opaque)):
            try:
                return getattr(obj, name)
            except AttributeError:
                raise Unsupported('attribute %s of %s' % (name, type(obj).__name__))
        try:
            return getattr(obj, name)
        except AttributeError:
            raise PyRaise(make_exc('AttributeError', "'%s' object has no attribute '%s'" % (type(obj).__name__, name)))

    def _bind(self, v, obj, cls):
        if isinstance(v, FuncVal):
            return BoundMethod(obj, v)
        if isinstance(v, ClassMethodVal):
            return BoundMethod(cls if not isinstance(obj, Obj) else obj.cls, v.func)
        if isinstance(v, StaticMethodVal):
            return v.func
        if isinstance(v, PropertyVal):
            return self.call(v.func, [obj], {})
        if getattr(v, 'binds_as_method', False):
            return BoundMethod(obj, v)
        return v

    def hasattr(self, obj, name):
        try:
            self.getattr(obj, name)
            return True
        except PyRaise as e:
            if e.exc.clsname == 'AttributeError':
                return False
            raise

    def setattr(self, obj, name, v):
        if isinstance(obj, Obj):
            for h in ATTR_HOOKS:
                h(obj, name, v)
            obj.attrs[name] = v
        elif isinstance(obj, ClassVal):
            obj.ns[name] = v
        elif isinstance(obj, FuncVal):
            obj.attrs[name] = v
        elif isinstance(obj, ExcVal):
            obj.attrs[name] = v
        elif hasattr(obj, 'sym_setattr'):
            obj.sym_setattr(self, name, v)
        else:
            raise Unsupported('setattr on %r' % (obj,))

    # -- expressions -------------------------------------------------------------------------------------
    def ev(self, e, env, module, func):
        m = getattr(self, 'ex_' + type(e).__name__, None)
        if m is None:
            raise Unsupported('expression %s at %s' % (type(e).__name__, State.where))
        return m(e, env, module, func)

    def ex_Constant(self, e, env, module, func):
        v = e.value
        if isinstance(v, float):
            return Sym(ir.const(v))
        return v

    def ex_Name(self, e, env, module, func):
        try:
            return env.lookup(e.id)
        except KeyError:
            pass
        b = self.lib.builtin(self, e.id)
        if b is not NotImplemented:
            return b
        raise PyRaise(make_exc('NameError', "name '%s' is not defined" % e.id))

    def ex_Attribute(self, e, env, module, func):
        return self.getattr(self.ev(e.value, env, module, func), e.attr)

    def ex_Tuple(self, e, env, module, func):
        return tuple(self._elts(e.elts, env, module, func))

    def ex_List(self, e, env, module, func):
        return PyList(self._elts(e.elts, env, module, func))

    def ex_Set(self, e, env, module, func):
        elts = self._elts(e.elts, env, module, func)
        if any(isinstance(x, Sym) and ir._num(x.t) is None for x in elts):
            return self.lib.SymSet.from_elems(elts)        # a set display with symbolic integers (vine edge variables)
        return set(elts)

    def _elts(self, elts, env, module, func):
        out = []
        for x in elts:
            if isinstance(x, ast.Starred):
                items, g = self.iterate(self.ev(x.value, env, module, func))
                if g:
                    raise Unsupported('star-unpacking a symbolic-length iterable')
                out.extend(items)
            else:
                out.append(self.ev(x, env, module, func))
        return out

    def ex_Dict(self, e, env, module, func):
        d = {}
        for k, v in zip(e.keys, e.values):
            if k is None:
                d.update(self.ev(v, env, module, func))
            else:
                d[self.ev(k, env, module, func)] = self.ev(v, env, module, func)
        return d

    def ex_JoinedStr(self, e, env, module, func):
        parts = []
        for v in e.values:
            if isinstance(v, ast.Constant):
                parts.append(str(v.value))
            else:
                x = self.ev(v.value, env, module, func)
                parts.append(self.to_str(x))
        return ''.join(parts)

    def to_str(self, x):
        if isinstance(x, (Sym, Lane, Arr2, Opaque, Obj, ClassVal)):
            return '<%s>' % type(x).__name__
        try:
            return str(x)
        except Exception:
            return '<?>'

    def ex_UnaryOp(self, e, env, module, func):
        v = self.ev(e.operand, env, module, func)
        if isinstance(e.op, ast.Not):
            if isinstance(v, Sym):
                return Sym(ir.not_(values.truth_term(v)))
            if isinstance(v, (Lane, Arr2)):
                return not values.truth(v)
            return not self.truthy(v)
        if isinstance(v, (Sym, Lane, Arr2)):
            return values.unop({ast.USub: 'neg', ast.UAdd: 'pos', ast.Invert: 'invert'}[type(e.op)], v)
        if hasattr(v, 'sym_unop'):
            return v.sym_unop(self, type(e.op).__name__)
        try:
            return {ast.USub: operator.neg, ast.UAdd: operator.pos, ast.Invert: operator.invert}[type(e.op)](v)
        except TypeError as ex:
            raise PyRaise(make_exc('TypeError', str(ex)))

    def truthy(self, v):
        if isinstance(v, (Sym, Lane, Arr2)):
            return values.truth(v)
        if isinstance(v, (Obj, ClassVal, FuncVal, BoundMethod, Opaque)):
            return True
        if hasattr(v, 'sym_truth'):
            return v.sym_truth(self)
        if isinstance(v, PyList) and v.gen is not None:
            raise Unsupported('truth of a symbolic-length list')
        if isinstance(v, GenList):
            raise Unsupported('truth of a symbolic-length list')
        return bool(v)

    _BIN = {ast.Add: 'add', ast.Sub: 'sub', ast.Mult: 'mul', ast.Div: 'div', ast.Pow: 'pow', ast.FloorDiv: 'floordiv',
            ast.Mod: 'mod', ast.BitAnd: 'and', ast.BitOr: 'or', ast.BitXor: 'xor'}
    _PYBIN = {ast.Add: operator.add, ast.Sub: operator.sub, ast.Mult: operator.mul, ast.Div: operator.truediv,
              ast.Pow: operator.pow, ast.FloorDiv: operator.floordiv, ast.Mod: operator.mod,
              ast.BitAnd: operator.and_, ast.BitOr: operator.or_, ast.BitXor: operator.xor,
              ast.MatMult: operator.matmul}

    def binop(self, op, a, b):
        if hasattr(a, 'sym_binop'):
            r = a.sym_binop(self, type(op).__name__, b, False)
            if r is not NotImplemented:
                return r
        if hasattr(b, 'sym_binop'):
            r = b.sym_binop(self, type(op).__name__, a, True)
            if r is not NotImplemented:
                return r
        if (isinstance(a, GenList) and isinstance(b, (Lane, Sym, GenList))) or \
                (isinstance(b, GenList) and isinstance(a, (Lane, Sym))):
            a = a.lane if isinstance(a, GenList) else a
            b = b.lane if isinstance(b, GenList) else b
        if isinstance(op, ast.Mult) and isinstance(a, list) and len(a) == 1 and isinstance(b, Sym) and \
                isinstance(a[0], (Sym, int, float, str)):
            return GenList(Lane(values.to_term(a[0]), b))          # [c] * n with symbolic n
        if isinstance(op, ast.Add) and isinstance(a, GenList) and isinstance(b, GenList):
            w = ir.uf('concat', [a.lane.whole(), b.lane.whole()], 'U')
            return GenList(Lane(ir.uf('elem', [w, values.IDX], a.lane.t.sort if a.lane.t.sort == b.lane.t.sort else 'R'),
                                Sym(ir.uf('len', [w], 'I'))))
        if isinstance(a, (Sym, Lane, Arr2)) or isinstance(b, (Sym, Lane, Arr2)):
            if type(op) not in self._BIN:
                raise Unsupported('operator %s on symbolic values' % type(op).__name__)
            if isinstance(a, (str, list, tuple)) or isinstance(b, (str, list, tuple)):
                if isinstance(op, ast.Mod) and isinstance(a, str):
                    return a
                raise Unsupported('operator on str/list with symbolic value')
            r = values.binop(self._BIN[type(op)], a, b)
            if r is NotImplemented:
                raise Unsupported('binop %s(%r, %r)' % (type(op).__name__, a, b))
            return r
        if isinstance(a, float) or isinstance(b, float):
            # concrete floats are exact rationals in this semantics
            return values.binop(self._BIN[type(op)], Sym(ir.const(a)), Sym(ir.const(b))) \
                if type(op) in self._BIN and values.is_number(a) and values.is_number(b) else self._PYBIN[type(op)](a, b)
        if isinstance(op, ast.Div) and isinstance(a, int) and isinstance(b, int) and not isinstance(a, bool):
            if b == 0:
                raise PyRaise(make_exc('ZeroDivisionError', 'division by zero'))
            return Sym(ir.div(a, b))
        if isinstance(op, ast.Pow) and isinstance(a, int) and isinstance(b, int) and b < 0:
            return Sym(ir.pow_(a, b))
        if isinstance(a, PyList) and isinstance(op, ast.Add) and isinstance(b, list):
            return PyList(list(a) + list(b))
        if isinstance(a, PyList) and isinstance(op, ast.Mult) and isinstance(b, int):
            return PyList(list(a) * b)
        try:
            return self._PYBIN[type(op)](a, b)
        except ZeroDivisionError:
            raise PyRaise(make_exc('ZeroDivisionError', 'division by zero'))
        except TypeError as ex:
            raise PyRaise(make_exc('TypeError', str(ex)))

    def ex_BinOp(self, e, env, module, func):
        a = self.ev(e.left, env, module, func)
        b = self.ev(e.right, env, module, func)
        return self.binop(e.op, a, b)

    def ex_BoolOp(self, e, env, module, func):
        is_and = isinstance(e.op, ast.And)
        # Python semantics: value of the deciding operand; symbolic scalar booleans are combined into one term
        vals = []
        for x in e.values:
            v = self.ev(x, env, module, func)
            if isinstance(v, Sym):
                vals.append(v)
                continue
            t = self.truthy(v)
            if is_and and not t:
                return v if not vals else (Sym(ir.FALSE) if all(s.t.sort == 'B' for s in vals) else v)
            if (not is_and) and t:
                if not vals:
                    return v
                # earlier symbolic operands may already be true: branch on them
                for s in vals:
                    if values.truth(s):
                        return s
                return v
            # neutral operand: skip
            last = v
        if not vals:
            return last
        if all(s.t.sort == 'B' for s in vals):
            ts = [s.t for s in vals]
            return Sym(ir.and_(*ts) if is_and else ir.or_(*ts))
        # numeric symbolic operands: decide by branching, returning the operand itself
        for s in vals[:-1]:
            t = values.truth(s)
            if is_and and not t:
                return s
            if (not is_and) and t:
                return s
        return vals[-1]

    def ex_Compare(self, e, env, module, func):
        left = self.ev(e.left, env, module, func)
        acc = None
        for op, rhs in zip(e.ops, e.comparators):
            right = self.ev(rhs, env, module, func)
            r = self.compare(op, left, right)
            if acc is None:
                acc = r
            else:
                if isinstance(acc, (Sym, Lane)) or isinstance(r, (Sym, Lane)):
                    acc = values.binop('and', acc if not isinstance(acc, bool) else Sym(ir.const(acc)),
                                       r if not isinstance(r, bool) else Sym(ir.const(r)))
                else:
                    acc = acc and r
            if acc is False:
                return False
            left = right
        return acc

    def compare(self, op, a, b):
        t = type(op)
        if t in (ast.Is, ast.IsNot):
            r = self.identical(a, b)
            return r if t is ast.Is else (not r)
        if t in (ast.In, ast.NotIn):
            r = self.contains(b, a)
            if isinstance(r, Sym):
                return r if t is ast.In else Sym(ir.not_(r.t))
            return r if t is ast.In else (not r)
        name = {ast.Lt: 'lt', ast.LtE: 'le', ast.Gt: 'gt', ast.GtE: 'ge', ast.Eq: 'eq', ast.NotEq: 'ne'}[t]
        if hasattr(a, 'sym_compare'):
            r = a.sym_compare(self, name, b)
            if r is not NotImplemented:
                return r
        if isinstance(a, (Sym, Lane, Arr2)) or isinstance(b, (Sym, Lane, Arr2)):
            if (a is None or b is None or isinstance(a, str) or isinstance(b, str)) and name in ('eq', 'ne'):
                return name == 'ne'
            if a is None or b is None:
                raise PyRaise(make_exc('TypeError', "'%s' not supported between instances of 'NoneType' and number"
                                       % name))
            r = values.binop(name, a, b)
            if r is NotImplemented:
                raise Unsupported('compare %r %s %r' % (a, name, b))
            return r
        if isinstance(a, float) or isinstance(b, float):
            if values.is_number(a) and values.is_number(b):
                return values.binop(name, Sym(ir.const(a)), Sym(ir.const(b)))
        if isinstance(a, (Obj, ClassVal)) or isinstance(b, (Obj, ClassVal)):
            if name == 'eq':
                return a is b
            if name == 'ne':
                return a is not b
        try:
            return {'lt': operator.lt, 'le': operator.le, 'gt': operator.gt, 'ge': operator.ge, 'eq': operator.eq,
                    'ne': operator.ne}[name](a, b)
        except TypeError as ex:
            raise PyRaise(make_exc('TypeError', str(ex)))

    def identical(self, a, b):
        if a is b:
            return True
        if isinstance(a, enum.Enum) or isinstance(b, enum.Enum):
            return a is b
        if isinstance(a, Sym) and isinstance(b, Sym):
            return a.t is b.t
        return False

    def contains(self, container, item):
        if hasattr(container, 'sym_contains'):
            return container.sym_contains(self, item)
        if isinstance(container, (list, tuple, set, frozenset)):
            if isinstance(item, Sym):
                ts = []
                for x in container:
                    if isinstance(x, (Sym, int, float, bool)) and not isinstance(x, str):
                        ts.append(ir.eq(item.t, values.to_term(x)))
                return Sym(ir.or_(*ts)) if ts else False
            for x in container:
                if x is item:
                    return True
                r = self.compare(ast.Eq(), x, item)
                if isinstance(r, Sym):
                    if values.truth(r):
                        return True
                elif r:
                    return True
            return False
        if isinstance(container, dict):
            return item in container
        if isinstance(container, str):
            return item in container
        if isinstance(container, enum.EnumMeta):
            return item in container
        import collections.abc
        if isinstance(container, collections.abc.Mapping) and isinstance(item, (str, int)):
            return item in container
        raise Unsupported('membership in %r' % (container,))

    def ex_IfExp(self, e, env, module, func):
        c = self.ev(e.test, env, module, func)
        if isinstance(c, Sym) and self.generic_depth > 0:
            # inside a lane map: build an ite term instead of forking (keeps rows independent in ONE path),
            # but evaluate each arm under its guard so that definedness obligations see the guard
            ct = values.truth_term(c)
            saved = State.ctx.pc
            State.ctx.pc = saved + [ct]
            try:
                a = self.ev(e.body, env, module, func)
            finally:
                State.ctx.pc = saved
            State.ctx.pc = saved + [ir.not_(ct)]
            try:
                b = self.ev(e.orelse, env, module, func)
            finally:
                State.ctx.pc = saved
            if isinstance(a, (Sym, int, float, bool)) and isinstance(b, (Sym, int, float, bool)):
                return Sym(ir.ite(ct, values.to_term(a), values.to_term(b)))
            raise Unsupported('conditional expression over non-scalars in a lane map')
        if self.truthy(c):
            return self.ev(e.body, env, module, func)
        return self.ev(e.orelse, env, module, func)

    def ex_Lambda(self, e, env, module, func):
        defaults = [self.ev(d, env, module, func) for d in e.args.defaults]
        f = FuncVal(e, env, module, None, (func.qualname if func else module.name) + '.<lambda>', defaults, {})
        return f

    def ex_Starred(self, e, env, module, func):
        raise Unsupported('starred expression')

    def ex_Slice(self, e, env, module, func):
        return slice(self.ev(e.lower, env, module, func) if e.lower else None,
                     self.ev(e.upper, env, module, func) if e.upper else None,
                     self.ev(e.step, env, module, func) if e.step else None)

    def ev_index(self, sl, env, module, func):
        return self.ev(sl, env, module, func)

    def ex_Subscript(self, e, env, module, func):
        # sorted(xs, key=k)[0] is the FIRST element (in iteration order) among those with the least key: found by a
        # case split that is linear in len(xs), instead of sorting the whole sequence (factorially many orders)
        v = e.value
        if isinstance(v, ast.Call) and isinstance(v.func, ast.Name) and v.func.id == 'sorted' and len(v.args) == 1 \
                and isinstance(e.slice, ast.Constant) and e.slice.value == 0 \
                and all(k.arg in ('key',) for k in v.keywords) and self._is_builtin('sorted', env):
            r = self._least(v, env, module, func)
            if r is not NotImplemented:
                return r
        base = self.ev(e.value, env, module, func)
        key = self.ev_index(e.slice, env, module, func)
        return self.getitem(base, key)

    def _is_builtin(self, name, env):
        try:
            env.lookup(name)
            return False
        except KeyError:
            return self.lib.builtin(self, name) is not NotImplemented

    def _least(self, call, env, module, func):
        items, g = self.iterate(self.ev(call.args[0], env, module, func))
        if g or not items:
            return NotImplemented
        keyf = self.ev(call.keywords[0].value, env, module, func) if call.keywords else None
        keys = [self.call(keyf, [it], {}) if keyf is not None else it for it in items]
        if not all(isinstance(k, (Sym, int, float)) for k in keys) or not any(isinstance(k, Sym) for k in keys):
            return NotImplemented
        ts = [values.to_term(k) for k in keys]
        for j in range(len(items) - 1):
            cond = ir.and_(*([ir.lt(ts[j], ts[i]) for i in range(j)] + [ir.le(ts[j], ts[i]) for i in range(j + 1, len(items))]))
            if State.ctx.branch(cond):
                return items[j]
        return items[-1]

    def getitem(self, base, key):
        if isinstance(base, (Lane, Arr2)):
            return base.getitem(key)
        if hasattr(base, 'sym_getitem'):
            return base.sym_getitem(self, key)
        if isinstance(base, GenList):
            if isinstance(key, GenIndex):
                return Sym(base.lane.t)
            return base.lane.elem(key)
        if isinstance(base, PyList) and base.gen is not None:
            if isinstance(key, GenIndex):
                return Sym(base.gen.t)
            return base.gen.elem(key)
        if isinstance(base, (list, tuple, str)):
            if isinstance(key, Sym):
                n = ir._num(key.t)
                if n is not None:
                    key = int(n)
                else:
                    # symbolic index into a concrete sequence: case split
                    for i in range(len(base)):
                        if State.ctx.branch(ir.eq(key.t, i)):
                            return base[i]
                    raise PyRaise(make_exc('IndexError', 'index out of range'))
            if isinstance(key, GenIndex):
                raise Unsupported('generic index into a concrete list')
            try:
                r = base[key]
            except IndexError:
                raise PyRaise(make_exc('IndexError', 'list index out of range'))
            except TypeError as ex:
                raise PyRaise(make_exc('TypeError', str(ex)))
            if isinstance(key, slice) and isinstance(base, list):
                return PyList(r)
            return r
        if isinstance(base, dict):
            try:
                return base[key]
            except KeyError:
                raise PyRaise(make_exc('KeyError', key))
            except TypeError:
                raise Unsupported('unhashable key %r' % (key,))
        if isinstance(base, Sym):
            raise PyRaise(make_exc('IndexError', 'invalid index to scalar variable.'))
        if isinstance(base, enum.EnumMeta):
            try:
                return base[key]
            except KeyError:
                raise PyRaise(make_exc('KeyError', key))
        if isinstance(base, values.RowView):
            return base.items()[key]
        r = self.lib.getitem(self, base, key)
        if r is not NotImplemented:
            return r
        raise Unsupported('subscript of %r' % (base,))

    def ex_ListComp(self, e, env, module, func):
        return self._comp(e, env, module, func, 'list')

    def ex_GeneratorExp(self, e, env, module, func):
        return self._comp(e, env, module, func, 'gen')

    def ex_SetComp(self, e, env, module, func):
        return set(self._comp(e, env, module, func, 'list'))

    def ex_DictComp(self, e, env, module, func):
        out = {}
        cenv = Env({}, env)
        def rec(gens):
            if not gens:
                out[self.ev(e.key, cenv, module, func)] = self.ev(e.value, cenv, module, func)
                return
            g = gens[0]
            items, generic = self.iterate(self.ev(g.iter, cenv, module, func))
            if generic:
                raise Unsupported('dict comprehension over symbolic-length iterable')
            for x in items:
                self.assign(g.target, x, cenv, module, func)
                if all(self.truthy(self.ev(c, cenv, module, func)) for c in g.ifs):
                    rec(gens[1:])
        rec(e.generators)
        return out

    def _comp(self, e, env, module, func, kind):
        cenv = Env({}, env)
        out = PyList()
        if len(e.generators) == 1:
            g = e.generators[0]
            items, generic = self.iterate(self.ev(g.iter, cenv, module, func))
            if generic:
                self.generic_depth += 1
                try:
                    self.assign(g.target, items[0], cenv, module, func)
                    if g.ifs:
                        # filtered comprehension over a generic lane: a boolean selection
                        ct = ir.and_(*[values.truth_term(self._as_sym(self.ev(c, cenv, module, func))) for c in g.ifs])
                        v = self.ev(e.elt, cenv, module, func)
                        ref = self._gen_ref(self.ev(g.iter, cenv, module, func))
                        lane = Lane(values.to_term(v), ref.n, ct if ref.mask is None else ir.and_(ref.mask, ct))
                        return GenList(lane)
                    v = self.ev(e.elt, cenv, module, func)
                finally:
                    self.generic_depth -= 1
                ref = self._gen_ref(self.ev(g.iter, cenv, module, func))
                if isinstance(v, (PyList, list, tuple)) and all(isinstance(x, (Sym, int, float)) for x in v):
                    return GenRows([Lane(values.to_term(x), ref.n, ref.mask) for x in v])
                if not isinstance(v, (Sym, int, float, bool)):
                    raise Unsupported('lane-map comprehension producing %r' % (v,))
                return GenList(Lane(values.to_term(v), ref.n, ref.mask))

        def rec(gens):
            if not gens:
                out.append(self.ev(e.elt, cenv, module, func))
                return
            g = gens[0]
            items, generic = self.iterate(self.ev(g.iter, cenv, module, func))
            if generic:
                raise Unsupported('nested comprehension over symbolic-length iterable')
            for x in items:
                self.assign(g.target, x, cenv, module, func)
                if all(self.truthy(self.ev(c, cenv, module, func)) for c in g.ifs):
                    rec(gens[1:])
        rec(e.generators)
        return out

    def _as_sym(self, v):
        return v if isinstance(v, Sym) else Sym(ir.const(bool(v)))

    def _gen_ref(self, it):
        if isinstance(it, GenRange):
            return Lane(ir.ZERO, it.n)
        if isinstance(it, Lane):
            return it
        if isinstance(it, Arr2):
            return it.cols[0]
        if isinstance(it, GenList):
            return it.lane
        if isinstance(it, PyList) and it.gen is not None:
            return it.gen
        if isinstance(it, ZipVal):
            for x in it.items:
                try:
                    return self._gen_ref(x)
                except Unsupported:
                    continue
        if isinstance(it, EnumerateVal):
            return self._gen_ref(it.it)
        raise Unsupported('generic reference of %r' % (it,))

    # -- calls -----------------------------------------------------------------------------------------
    def ex_Call(self, e, env, module, func):
        # super() without arguments
        if isinstance(e.func, ast.Name) and e.func.id == 'super' and not e.args:
            if func is None or func.cls is None:
                raise Unsupported('super() outside a method')
            first = func.node.args.args[0].arg
            return SuperProxy(func.cls, env.lookup(first))
        f = self.ev(e.func, env, module, func)
        args = []
        for a in e.args:
            if isinstance(a, ast.Starred):
                v = self.ev(a.value, env, module, func)
                if isinstance(v, values.RowView):
                    args.extend(v.items())
                else:
                    items, g = self.iterate(v)
                    if g:
                        raise Unsupported('star-args over a symbolic-length iterable')
                    args.extend(items)
            else:
                args.append(self.ev(a, env, module, func))
        kwargs = {}
        for k in e.keywords:
            if k.arg is None:
                d = self.ev(k.value, env, module, func)
                kwargs.update(d)
            else:
                kwargs[k.arg] = self.ev(k.value, env, module, func)
        saved = State.where
        try:
            return self.call(f, args, kwargs)
        finally:
            State.where = saved

    def call(self, f, args, kwargs):
        if isinstance(f, BoundMethod):
            return self.call(f.func, [f.obj] + list(args), kwargs)
        if isinstance(f, FuncVal):
            return self.call_function(f, args, kwargs)
        if isinstance(f, ClassVal):
            return self.instantiate(f, args, kwargs)
        if isinstance(f, (ClassMethodVal, StaticMethodVal)):
            raise Unsupported('calling a raw descriptor')
        if isinstance(f, type) and issubclass(f, BaseException):
            return ExcVal(f, list(args))
        if isinstance(f, enum.EnumMeta):
            try:
                a0 = args[0]
                if isinstance(a0, Sym) and a0.t.sort == 'U':
                    return a0                      # an abstract member of the enumeration (contract-level value)
                if isinstance(a0, Sym):
                    a0 = self.concrete_index(a0)
                return f(a0)
            except ValueError as ex:
                raise PyRaise(make_exc('ValueError', str(ex)))
        if hasattr(f, 'sym_call'):
            return f.sym_call(self, args, kwargs)
        if callable(f):
            r = self.lib.call(self, f, args, kwargs)
            return r
        raise PyRaise(make_exc('TypeError', '%r is not callable' % (f,)))

    def instantiate(self, cls, args, kwargs):
        if any(isinstance(b, type) and issubclass(b, BaseException) for c in cls.mro for b in c.bases):
            return ExcVal(cls, list(args))
        try:
            new, _o = cls.lookup('__new__')
        except KeyError:
            new = None
        if new is not None:
            nf = new.func if isinstance(new, StaticMethodVal) else new
            obj = self.call(nf, [cls] + list(args), kwargs)
        else:
            obj = Obj(cls)
        self.created.append(obj)
        if isinstance(obj, Obj) and obj.cls.is_subclass(cls):
            try:
                init, _o = obj.cls.lookup('__init__')
            except KeyError:
                init = None
            if init is not None:
                self.call(init, [obj] + list(args), kwargs)
            elif args or kwargs:
                raise PyRaise(make_exc('TypeError', '%s() takes no arguments' % cls.name))
        return obj

    def call_function(self, f, args, kwargs):
        q = f.qualname
        for h in self.call_hooks:
            h(q, args, kwargs)
        summ = self.summaries.get(q)
        if summ is not None:
            return summ(self, args, kwargs)
        if len(self.frames) > self.max_depth:
            raise Unsupported('call depth exceeded at ' + q)
        node = f.node
        env = Env({}, f.env)
        self.bind_args(f, node.args, args, kwargs, env)
        self.frames.append(q)
        self.executed.add(q)
        try:
            if isinstance(node, ast.Lambda):
                return self.ev(node.body, env, f.module, f)
            if _is_generator(node):
                return GeneratorVal(self, f, env)
            rv = None
            try:
                self.exec_block(node.body, env, f.module, f)
            except ReturnEx as r:
                rv = r.value
            hook = self.return_hooks.get(q)
            if hook is not None:
                hook(env.vars, rv)
            return rv
        finally:
            self.frames.pop()

    def bind_args(self, f, a, args, kwargs, env):
        params = [p.arg for p in a.posonlyargs + a.args]
        n = len(params)
        vals = {}
        args = list(args)
        if len(args) > n and a.vararg is None:
            raise PyRaise(make_exc('TypeError', '%s() takes %d positional arguments but %d were given'
                                   % (f.name, n, len(args))))
        for p, v in zip(params, args):
            vals[p] = v
        if a.vararg is not None:
            vals[a.vararg.arg] = tuple(args[n:])
        extra = {}
        kwonly = [p.arg for p in a.kwonlyargs]
        for k, v in kwargs.items():
            if k in params or k in kwonly:
                if k in vals:
                    raise PyRaise(make_exc('TypeError', "%s() got multiple values for argument '%s'" % (f.name, k)))
                vals[k] = v
            elif a.kwarg is not None:
                extra[k] = v
            else:
                raise PyRaise(make_exc('TypeError', "%s() got an unexpected keyword argument '%s'" % (f.name, k)))
        if a.kwarg is not None:
            vals[a.kwarg.arg] = extra
        nd = len(f.defaults)
        for i, p in enumerate(params):
            if p not in vals:
                j = i - (n - nd)
                if j >= 0:
                    vals[p] = f.defaults[j]
                else:
                    raise PyRaise(make_exc('TypeError', "%s() missing required argument '%s'" % (f.name, p)))
        for p in kwonly:
            if p not in vals:
                if p in f.kw_defaults:
                    vals[p] = f.kw_defaults[p]
                else:
                    raise PyRaise(make_exc('TypeError', "%s() missing keyword-only argument '%s'" % (f.name, p)))
        env.vars.update(vals)

    def call_qual(self, qualname, args, kwargs=None):
        return self.call(self.resolve(qualname), args, kwargs or {})

    def call_method(self, obj, name, args, kwargs=None):
        return self.call(self.getattr(obj, name), args, kwargs or {})


def _load(target):
    t = ast.parse(ast.unparse(target), mode='eval').body
    return ast.copy_location(t, target)


def _is_generator(node):
    for n in ast.walk(node):
        if isinstance(n, (ast.Yield, ast.YieldFrom)):
            return True
    return False


class GeneratorVal(object):
    """a generator function call; only the @contextlib.contextmanager shape is supported:
    code; try: yield; finally: code   (or plain  code; yield; code)"""
    def __init__(self, interp, func, env):
        self.func, self.env = func, env


class ContextManagerVal(object):
    """result of calling a @contextmanager generator function"""
    def __init__(self, gen):
        self.gen = gen

    def _split(self):
        body = self.gen.func.node.body
        pre, tr, post = [], None, []
        for i, s in enumerate(body):
            if isinstance(s, ast.Try) and any(isinstance(n, ast.Yield) for n in ast.walk(s)):
                tr = s
                post = body[i + 1:]
                break
            if isinstance(s, ast.Expr) and isinstance(s.value, ast.Yield):
                tr = s
                post = body[i + 1:]
                break
            pre.append(s)
        if tr is None:
            raise Unsupported('contextmanager without yield')
        return pre, tr, post

    def cm_enter(self, interp):
        pre, tr, post = self._split()
        g = self.gen
        interp.frames.append(g.func.qualname)
        try:
            interp.exec_block(pre, g.env, g.func.module, g.func)
            if isinstance(tr, ast.Try):
                ybody = tr.body
                if not (len(ybody) == 1 and isinstance(ybody[0], ast.Expr) and isinstance(ybody[0].value, ast.Yield)):
                    raise Unsupported('contextmanager: try body is not a bare yield')
                if tr.handlers:
                    raise Unsupported('contextmanager: except clauses around yield')
                y = ybody[0].value
            else:
                y = tr.value
            return interp.ev(y.value, g.env, g.func.module, g.func) if y.value is not None else None
        finally:
            interp.frames.pop()

    def cm_exit(self, interp, exc):
        pre, tr, post = self._split()
        g = self.gen
        interp.frames.append(g.func.qualname)
        try:
            if isinstance(tr, ast.Try):
                interp.exec_block(tr.finalbody, g.env, g.func.module, g.func)
                if exc is None:
                    interp.exec_block(post, g.env, g.func.module, g.func)
            else:
                if exc is None:
                    interp.exec_block(post, g.env, g.func.module, g.func)
            return False
        finally:
            interp.frames.pop()


class Missing(object):
    """an imported name without an assumed contract: any use is Unsupported"""
    def __init__(self, name):
        self.name = name

    def sym_call(self, interp, args, kwargs):
        raise Unsupported('no assumed contract for ' + self.name)

    def sym_getattr(self, interp, name):
        raise Unsupported('no assumed contract for %s.%s' % (self.name, name))

    def __repr__(self):
        return 'Missing(%s)' % self.name


class ZipVal(object):
    def __init__(self, items):
        self.items = items


class EnumerateVal(object):
    def __init__(self, it, start=0):
        self.it, self.start = it, start


class GenRows(object):
    """list of rows [[a_i, b_i, ...] for i ...] with generic element: becomes an Arr2 through np.array"""
    def __init__(self, cols):
        self.cols = cols


OWNERS = {}          # id(container) -> (container, owner-name): caller-owned Python containers (frame analysis)
ATTR_HOOKS = []      # callables(obj, name, value) observing attribute writes
