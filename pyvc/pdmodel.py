"""Assumed contract of the pandas objects used by the library (finite-map semantics, DESIGN 5.1).

Frame        DataFrame with a concrete ordered label list and one Lane (symbolic length n) per label
SeriesCol    a column of a Frame as a Series (forwards array operations to its Lane; shares the Lane: a view)
SeriesRow    a labelled vector of concrete length (conditions, normal scores): labels + Sym values
LabeledMat   DataFrame of concrete shape with symbolic entries and row/column labels (the correlation matrix)
Index        ordered label list
"""
from fractions import Fraction

from . import ir, paths, values, libmodel
from .paths import Unsupported
from .values import Sym, Lane, Arr2, State, to_term
from .libmodel import ConcArr, USED, _raise, model

DOC = ('pandas DataFrame/Series/Index: finite maps label -> column in insertion order; [] and `in` go by label; '
       'items() iterates (label, column) in order; to_numpy() yields the values in column order (a read-only array '
       'for the result of corr() under copy-on-write); Index.difference returns the sorted set difference; '
       'corr() is the Pearson (or Kendall) correlation matrix: symmetric, entries in [-1,1], unit diagonal, NaN rows '
       'and columns for constant columns; bool(Series) raises ValueError; DataFrame(dict) keeps key order')


def _used():
    USED['pandas'] = DOC


class Index(object):
    is_index = True

    def __init__(self, labels):
        self.labels = list(labels)

    def __repr__(self):
        return 'Index(%r)' % (self.labels,)

    def sym_iter(self, interp):
        return list(self.labels), False

    def sym_len(self, interp):
        return len(self.labels)

    def sym_contains(self, interp, item):
        return item in self.labels

    def sym_getitem(self, interp, key):
        if isinstance(key, Sym):
            key = interp.concrete_index(key)
        r = self.labels[key]
        return Index(r) if isinstance(key, slice) else r

    def sym_getattr(self, interp, name):
        _used()
        if name == 'difference':
            def difference(other):
                o = other.labels if isinstance(other, Index) else list(other)
                rest = [l for l in self.labels if l not in o]
                try:
                    rest = sorted(rest)
                except TypeError:
                    pass
                return Index(rest)
            return difference
        if name == 'intersection':
            def intersection(other):
                o = other.labels if isinstance(other, Index) else list(other)
                return Index([l for l in self.labels if l in o])
            return intersection
        if name in ('tolist', 'to_list'):
            from .interp import PyList
            return lambda: PyList(self.labels)
        if name == 'to_numpy' or name == 'values':
            from .interp import PyList
            return (lambda: PyList(self.labels)) if name == 'to_numpy' else PyList(self.labels)
        raise Unsupported('Index.' + name)

    def sym_compare(self, interp, op, other):
        return NotImplemented


class SeriesCol(object):
    """a DataFrame column (or a 1-d Series over the rows): wraps the Lane it views"""
    is_series = True

    def __init__(self, lane, name=None):
        self.lane, self.name = lane, name

    def __repr__(self):
        return 'SeriesCol(%r, %r)' % (self.name, self.lane)

    def sym_to_numpy(self, interp):
        return self.lane

    def whole(self):
        return self.lane.whole()

    def sym_len(self, interp):
        return self.lane.length()

    def sym_iter(self, interp):
        return interp.iterate(self.lane)

    def sym_getattr(self, interp, name):
        _used()
        if name in ('to_numpy',):
            return lambda *a, **k: self.lane
        if name == 'values':
            return self.lane
        if name in ('min', 'max', 'mean', 'std', 'sum', 'tolist', 'all', 'any', 'copy', 'astype'):
            if name == 'std':
                return lambda *a, ddof=1, **k: self.lane.std(ddof=ddof)       # pandas default ddof=1
            if name == 'copy':
                return lambda *a, **k: SeriesCol(self.lane.copy(), self.name)
            return getattr(self.lane, name)
        if name in ('shape', 'dtype', 'size'):
            return getattr(self.lane, name)
        if name == 'name':
            return self.name
        if name == 'index':
            return Opaque_range(self.lane.n)
        if name == 'to_frame':
            return lambda: Frame([self.name if self.name is not None else 0], {self.name if self.name is not None else 0: self.lane},
                                 self.lane.n)
        raise Unsupported('Series.' + name)

    def sym_getitem(self, interp, key):
        return self.lane.getitem(key)

    def sym_binop(self, interp, op, other, reflected):
        o = other.lane if isinstance(other, SeriesCol) else other
        import ast
        a, b = (o, self.lane) if reflected else (self.lane, o)
        r = interp.binop(getattr(ast, op)(), a, b)
        return SeriesCol(r, self.name) if isinstance(r, Lane) else r

    def sym_compare(self, interp, op, other):
        o = other.lane if isinstance(other, SeriesCol) else other
        r = values.binop(op, self.lane, o)
        return SeriesCol(r, self.name) if isinstance(r, Lane) else r

    def sym_truth(self, interp):
        _raise('ValueError', 'The truth value of a Series is ambiguous. Use a.empty, a.bool(), a.item(), a.any() or a.all().')


def Opaque_range(n):
    return values.Opaque('RangeIndex', None, n=n)


class SeriesRow(object):
    """labelled vector of concrete length"""
    is_series = True

    def __init__(self, labels, vals, owner=None):
        self.labels, self.vals, self.owner = list(labels), list(vals), owner

    def __repr__(self):
        return 'SeriesRow(%r)' % (dict(zip(self.labels, self.vals)),)

    def sym_len(self, interp):
        return len(self.labels)

    def sym_iter(self, interp):
        return list(self.vals), False

    def sym_contains(self, interp, item):
        return item in self.labels

    def sym_truth(self, interp):
        if len(self.labels) == 0:
            return False
        if len(self.labels) == 1:
            return interp.truthy(self.vals[0])
        _raise('ValueError', 'The truth value of a Series is ambiguous. Use a.empty, a.bool(), a.item(), a.any() or a.all().')

    def sym_getitem(self, interp, key):
        if key in self.labels:
            return self.vals[self.labels.index(key)]
        if isinstance(key, int) and not self.labels or (isinstance(key, int) and all(not isinstance(l, int) for l in self.labels)):
            if 0 <= key < len(self.vals):
                return self.vals[key]
        _raise('KeyError', key)

    def sym_setitem(self, interp, key, v):
        if self.owner is not None:
            State.ctx.event('mutate', self.owner, State.where)
        if key in self.labels:
            self.vals[self.labels.index(key)] = v
        else:
            self.labels.append(key)
            self.vals.append(v)

    def sym_to_numpy(self, interp):
        return ConcArr(list(self.vals))

    def sym_to_dict(self, interp):
        return dict(zip(self.labels, self.vals))

    def sym_getattr(self, interp, name):
        _used()
        if name == 'index':
            return Index(self.labels)
        if name in ('to_numpy',):
            return lambda *a, **k: ConcArr(list(self.vals))
        if name == 'values':
            return ConcArr(list(self.vals))
        if name == 'to_frame':
            return lambda: FrameT(self)
        if name == 'to_dict':
            return lambda: dict(zip(self.labels, self.vals))
        if name == 'copy':
            return lambda *a, **k: SeriesRow(self.labels, self.vals)
        if name == 'items':
            from .interp import PyList
            return lambda: PyList(list(zip(self.labels, self.vals)))
        if name == 'keys':
            return lambda: Index(self.labels)
        if name in ('pop', 'drop', 'update'):
            def mut(*a, **k):
                if self.owner is not None:
                    State.ctx.event('mutate', self.owner, State.where)
                if name == 'pop':
                    i = self.labels.index(a[0])
                    self.labels.pop(i)
                    return self.vals.pop(i)
                raise Unsupported('Series.' + name)
            return mut
        if name == 'shape':
            return (len(self.vals),)
        if name == 'name':
            return None
        raise Unsupported('Series(row).' + name)

    def sym_binop(self, interp, op, other, reflected):
        import ast
        if isinstance(other, ConcArr):
            o = other.data
        elif isinstance(other, SeriesRow):
            o = other.vals
        elif isinstance(other, (Sym, int, float)):
            o = [other] * len(self.vals)
        else:
            return NotImplemented
        if op == 'MatMult':
            return NotImplemented
        out = []
        for a, b in zip(self.vals, o):
            x, y = (b, a) if reflected else (a, b)
            out.append(interp.binop(getattr(ast, op)(), x, y))
        return SeriesRow(self.labels, out)


class FrameT(object):
    """series.to_frame() - only .T is used: a one-row frame whose columns are the series labels"""
    def __init__(self, row):
        self.row = row

    def sym_getattr(self, interp, name):
        if name == 'T':
            r = self.row
            return Frame(r.labels, {l: Lane(to_term(v), 1) for l, v in zip(r.labels, r.vals)}, 1)
        raise Unsupported('to_frame().' + name)


class Frame(object):
    is_frame = True

    def __init__(self, labels, cols, n, owner=None):
        self.labels, self.cols, self.n, self.owner = list(labels), dict(cols), n, owner
        if owner is not None:
            for c in self.cols.values():
                if c.owner is None:
                    c.owner = owner

    def __repr__(self):
        return 'Frame(%r)' % (self.labels,)

    def sym_len(self, interp):
        return self.n

    def sym_contains(self, interp, item):
        try:
            return item in self.labels
        except TypeError:
            return False

    def sym_iter(self, interp):
        return list(self.labels), False

    def whole(self):
        return ir.uf('frame', [self.cols[l].whole() for l in self.labels], 'U')

    def sym_to_numpy(self, interp):
        return Arr2([self.cols[l] for l in self.labels], self.n)

    def sym_getitem(self, interp, key):
        _used()
        if isinstance(key, (list, Index)):
            ks = key.labels if isinstance(key, Index) else list(key)
            for k in ks:
                if k not in self.labels:
                    _raise('KeyError', k)
            return Frame(ks, {k: self.cols[k].copy() for k in ks}, self.n)
        try:
            if key in self.labels:
                return SeriesCol(self.cols[key], key)
        except TypeError:
            pass
        _raise('KeyError', key)

    def sym_setitem(self, interp, key, v):
        if self.owner is not None:
            State.ctx.event('mutate', self.owner, State.where)
        if isinstance(v, SeriesCol):
            v = v.lane
        if isinstance(v, values.GenList):
            v = v.lane
        if not isinstance(v, Lane):
            v = Lane(to_term(v) if not isinstance(v, str) else ir.const(v), self.n)
        if key not in self.labels:
            self.labels.append(key)
        self.cols[key] = v

    def sym_getattr(self, interp, name):
        _used()
        from .interp import PyList
        if name == 'columns':
            return Index(self.labels)
        if name == 'items':
            return lambda: PyList([(l, SeriesCol(self.cols[l], l)) for l in self.labels])
        if name == 'to_numpy':
            def to_numpy(*a, **k):
                r = Arr2([self.cols[l].copy() for l in self.labels], self.n)
                if getattr(self, 'np_dtype', None):
                    r._dtype = values.DType(self.np_dtype)
                want = k.get('dtype', a[0] if a else None)
                if want is not None:
                    # an explicit target dtype: pandas casts (booleans, digit strings, nullable integers all become floats)
                    # or raises; the executor follows the cast that succeeds, the result HAS the requested dtype
                    name_ = getattr(want, 'kind', None) or getattr(want, '__name__', None) or str(want)
                    if 'float' in name_:
                        r._dtype = values.DType('float')
                    elif 'int' in name_:
                        r._dtype = values.DType('int')
                    else:
                        raise Unsupported('DataFrame.to_numpy(dtype=%r)' % (want,))
                return r
            return to_numpy
        if name == 'values':
            return Arr2([self.cols[l] for l in self.labels], self.n)
        if name == 'shape':
            return (self.n, len(self.labels))
        if name == 'copy':
            return lambda *a, **k: Frame(self.labels, {l: c.copy() for l, c in self.cols.items()}, self.n)
        if name == 'corr':
            def corr(method='pearson', **kw):
                return corr_matrix([self.cols[l] for l in self.labels], self.labels, method)
            return corr
        if name == 'index':
            return Opaque_range(self.n)
        if name == 'T':
            raise Unsupported('DataFrame.T of a symbolic-length frame')
        if name == 'empty':
            return values.binop('eq', self.n, 0) if isinstance(self.n, Sym) else (self.n == 0 or not self.labels)
        if name == 'dtypes':
            return PyList([values.DType('float') for _ in self.labels])
        if name == 'iloc' or name == 'loc':
            raise Unsupported('DataFrame.%s on a symbolic-length frame' % name)
        raise Unsupported('DataFrame.' + name)


def corr_term(method, a, b):
    x, y = sorted((a, b), key=lambda t: ir.show(t))
    return ir.uf('corr.' + method, [x, y])


def corr_matrix(lanes, labels, method):
    """assumed contract of DataFrame.corr: symmetric, entries in [-1,1], unit diagonal, NaN <=> a constant column"""
    USED['pandas.DataFrame.corr'] = ('corr(): symmetric matrix of pairwise correlations (deterministic in the two columns), '
                                     'entries in [-1, 1], diagonal 1, entry NaN iff one of its two columns is constant')
    c = State.ctx
    ws = [l.whole() for l in lanes]
    d = len(ws)
    data = []
    for i in range(d):
        row = []
        for j in range(d):
            t = corr_term(method, ws[i], ws[j])
            values.NANABLE.add(t)
            nan = ir.uf('isnan', [t], 'B')
            const_i = ir.eq(ir.uf('n_unique', [ws[i]], 'I'), 1)
            const_j = ir.eq(ir.uf('n_unique', [ws[j]], 'I'), 1)
            c.assume(ir.eq(nan, ir.or_(const_i, const_j)))
            c.assume(ir.implies(ir.not_(nan), ir.and_(ir.ge(t, -1), ir.le(t, 1))))
            if i == j:
                c.assume(ir.implies(ir.not_(nan), ir.eq(t, 1)))
            row.append(Sym(t))
        data.append(row)
    return LabeledMat(data, labels, labels, readonly_numpy=True)


class LabeledMat(object):
    """DataFrame of concrete shape with symbolic entries"""
    is_frame = True

    def __init__(self, data, index, columns, readonly_numpy=False, owner=None):
        self.data = [list(r) for r in data]
        self.index, self.columns = list(index), list(columns)
        self.readonly_numpy = readonly_numpy
        self.owner = owner

    def __repr__(self):
        return 'LabeledMat(%r x %r)' % (self.index, self.columns)

    def sym_len(self, interp):
        return len(self.index)

    def sym_contains(self, interp, item):
        return item in self.columns

    def sym_to_numpy(self, interp):
        return ConcArr([list(r) for r in self.data])

    def sym_getitem(self, interp, key):
        if key in self.columns:
            j = self.columns.index(key)
            return SeriesRow(self.index, [r[j] for r in self.data])
        _raise('KeyError', key)

    def sym_getattr(self, interp, name):
        _used()
        if name == 'to_numpy':
            def to_numpy(*a, **k):
                arr = ConcArr([list(r) for r in self.data])
                arr.readonly = self.readonly_numpy and not k.get('copy', False)
                return arr
            return to_numpy
        if name == 'values':
            return ConcArr([list(r) for r in self.data])
        if name == 'columns':
            return Index(self.columns)
        if name == 'index':
            return Index(self.index)
        if name == 'loc':
            return Loc(self)
        if name == 'shape':
            return (len(self.index), len(self.columns))
        if name == 'copy':
            return lambda *a, **k: LabeledMat(self.data, self.index, self.columns)
        if name == 'corr':
            raise Unsupported('corr of a concrete-shape frame')
        raise Unsupported('DataFrame(matrix).' + name)


class Loc(object):
    def __init__(self, m):
        self.m = m

    def sym_getitem(self, interp, key):
        if isinstance(key, tuple) and len(key) == 2:
            rk, ck = key
            rows = rk.labels if isinstance(rk, Index) else (list(rk) if isinstance(rk, (list, tuple)) else None)
            cols = ck.labels if isinstance(ck, Index) else (list(ck) if isinstance(ck, (list, tuple)) else None)
            m = self.m
            if rows is not None and cols is not None:
                for r in rows:
                    if r not in m.index:
                        _raise('KeyError', r)
                for c_ in cols:
                    if c_ not in m.columns:
                        _raise('KeyError', c_)
                data = [[m.data[m.index.index(r)][m.columns.index(c_)] for c_ in cols] for r in rows]
                return LabeledMat(data, rows, cols)
            if rows is None and cols is None:
                return m.data[m.index.index(rk)][m.columns.index(ck)]
        raise Unsupported('.loc[%r]' % (key,))


# ------------------------------------------------------------------------------------------------
# constructors
# ------------------------------------------------------------------------------------------------

def make_frame(data=None, index=None, columns=None, **kw):
    _used()
    from .interp import PyList
    if isinstance(columns, Index):
        columns = columns.labels
    if isinstance(index, Index):
        index = index.labels
    if isinstance(data, Frame) and columns is None:
        return Frame(data.labels, data.cols, data.n, data.owner)
    if isinstance(data, LabeledMat):
        return LabeledMat(data.data, data.index, data.columns)
    if isinstance(data, Arr2):
        labels = list(columns) if columns is not None else list(range(len(data.cols)))
        if len(labels) != len(data.cols):
            _raise('ValueError', 'Shape of passed values is (n, %d), indices imply (n, %d)' % (len(data.cols), len(labels)))
        return Frame(labels, dict(zip(labels, data.cols)), data.n, data.owner)
    if isinstance(data, Lane):
        labels = list(columns) if columns is not None else [0]
        return Frame(labels, {labels[0]: data}, data.n, data.owner)
    if isinstance(data, dict):
        labels = list(data.keys())
        cols, n = {}, None
        for l, v in data.items():
            if isinstance(v, SeriesCol):
                v = v.lane
            if isinstance(v, values.GenList):
                v = v.lane
            if not isinstance(v, Lane):
                raise Unsupported('DataFrame(dict) with a non-array value %r' % (v,))
            cols[l] = v
            n = v.n if n is None else n
        return Frame(labels, cols, n)
    if hasattr(data, 'sym_rows_frame'):
        return data.sym_rows_frame(columns)
    if isinstance(data, (list, PyList)) and len(data) == 1 and isinstance(data[0], ConcArr) and columns is not None:
        vals = data[0].data
        if len(vals) != len(columns):
            _raise('ValueError', '%d columns passed, passed data had %d columns' % (len(columns), len(vals)))
        return Frame(list(columns), {l: Lane(to_term(v), 1) for l, v in zip(columns, vals)}, 1)
    if isinstance(data, ConcArr) or (isinstance(data, (list, PyList)) and data and isinstance(data[0], (list, PyList))):
        rows = data.data if isinstance(data, ConcArr) else [list(r) for r in data]
        rows = [[(Sym(ir.const(x)) if isinstance(x, (int, float)) else x) for x in r] for r in rows]
        idx = list(index) if index is not None else list(range(len(rows)))
        cols = list(columns) if columns is not None else list(range(len(rows[0]) if rows else 0))
        if rows and (len(cols) != len(rows[0]) or len(idx) != len(rows)):
            _raise('ValueError', 'Shape of passed values does not match the labels')
        return LabeledMat(rows, idx, cols)
    if isinstance(data, (list, PyList)) and all(isinstance(r, ConcArr) for r in data) and data:
        # list of sampled rows (vine): concrete rows of symbolic values
        rows = [list(r.data) for r in data]
        cols = list(columns) if columns is not None else list(range(len(rows[0])))
        return LabeledMat(rows, list(range(len(rows))), cols)
    if isinstance(data, values.GenList) or (isinstance(data, PyList) and data.gen is not None):
        raise Unsupported('DataFrame from a symbolic-length list of rows')
    raise Unsupported('pd.DataFrame(%r, columns=%r)' % (data, columns))


def make_series(data=None, index=None, **kw):
    _used()
    if isinstance(index, Index):
        index = index.labels
    if isinstance(data, dict):
        return SeriesRow(list(data.keys()), list(data.values()))
    if isinstance(data, SeriesRow):
        return SeriesRow(data.labels, data.vals)
    if isinstance(data, SeriesCol):
        return SeriesCol(data.lane, data.name)
    if isinstance(data, values.RowView):
        data = ConcArr(data.items())
    if isinstance(data, ConcArr) and index is None:
        return SeriesRow(list(range(len(data.data))), list(data.data))
    if isinstance(data, ConcArr) and index is not None:
        if len(index) != len(data.data):
            _raise('ValueError', 'Length of values (%d) does not match length of index (%d)' % (len(data.data), len(index)))
        return SeriesRow(list(index), list(data.data))
    if isinstance(data, Lane):
        if index is not None and values._is_one(data.n) and len(index) == 1:
            return SeriesRow(list(index), [Sym(data.t)])
        if index is not None and not values._is_one(data.n):
            raise Unsupported('Series of a symbolic-length array with an explicit index')
        return SeriesCol(data)
    if isinstance(data, values.GenList):
        return SeriesCol(data.lane)
    raise Unsupported('pd.Series(%r, index=%r)' % (data, index))


def concat(objs, axis=0, ignore_index=False, **kw):
    _used()
    fr = [o for o in objs]
    if not all(isinstance(o, Frame) for o in fr):
        raise Unsupported('pd.concat of non-frames')
    labels = list(fr[0].labels)
    for o in fr[1:]:
        for l in o.labels:
            if l not in labels:
                labels.append(l)
    cols = {}
    for l in labels:
        parts = [o.cols[l].whole() if l in o.labels else ir.const(None) for o in fr]
        w = ir.uf('concat', parts, 'U')
        cols[l] = Lane(ir.uf('elem', [w, values.IDX]), Sym(ir.uf('len', [w], 'I')))
    res = Frame(labels, cols, cols[labels[0]].n if labels else 0)
    res.concat_of = fr
    return res


libmodel.PANDAS._table['concat'] = concat
libmodel.PANDAS._table['Index'] = libmodel._PdType('pd.Index', lambda x: isinstance(x, Index), lambda data=(), **k: Index(list(data)))
