"""Path exploration by deterministic re-execution (decision scripts), path conditions, obligations.

A *run* is a Python callable that performs one symbolic execution from scratch. Whenever execution needs to know
a symbolic boolean (`branch`) or pick among alternatives (`choose`), it asks the Context. Beyond the end of the
current script the Context picks the first feasible alternative and schedules the others, so that all feasible
paths are eventually executed. Everything that influences naming (fresh variables) is reset per run, hence a
script prefix always reproduces the same prefix of execution.
"""
import os
import sys
import time

from . import ir, smt


class PathEnd(Exception):
    """the current path stops here (after an establish/preserve leg of a loop invariant, or an assume(false))"""


class Unsupported(Exception):
    """the executor met a construct it does not model; the enclosing obligations become 'unsupported' (exit 2)"""

    def __init__(self, *a):
        Exception.__init__(self, *a)
        import os
        if os.environ.get('VERIF_TRACE_UNSUPPORTED'):
            import traceback
            traceback.print_stack(limit=int(os.environ['VERIF_TRACE_UNSUPPORTED']))


class Obligation(object):
    def __init__(self, name, hyps, goal, kind='post', where='', meta=None, hints=()):
        self.name, self.hyps, self.goal, self.kind, self.where = name, list(hyps), goal, kind, where
        self.meta = meta or {}
        self.hints = tuple(hints)

    def __repr__(self):
        return 'Obligation(%s @%s: %s)' % (self.name, self.where, ir.show(self.goal))


class Event(object):
    """a recorded effect (mutation of caller-owned data, RNG consumption, attribute write, ...)"""
    def __init__(self, kind, data, pc, where):
        self.kind, self.data, self.pc, self.where = kind, data, list(pc), where

    def __repr__(self):
        return 'Event(%s %s @%s)' % (self.kind, self.data, self.where)


class Context(object):
    def __init__(self, feas_timeout_ms=3000, max_paths=4000, prune=True):
        self.feas_timeout_ms = feas_timeout_ms
        self.max_paths = max_paths
        self.prune = prune
        self.feas_cache = {}
        self.stats = {'paths': 0, 'feas_queries': 0, 'feas_seconds': 0.0}
        self._reset([])

    # -- per-run state -------------------------------------------------------------------------------------
    def _reset(self, script):
        self.script = list(script)
        self.trace = []            # choices taken
        self.pending = []          # scripts to explore later (filled as we pass new decision points)
        self.pc = []               # path condition: list of T
        self.obligations = []
        self.events = []
        self.counters = {}
        self.cover = set()
        self.universal = []

    def fresh(self, prefix, sort='R'):
        k = self.counters.get(prefix, 0)
        self.counters[prefix] = k + 1
        return ir.var('%s!%d' % (prefix, k), sort)

    # -- decisions -----------------------------------------------------------------------------------------
    def feasible(self, cond):
        if cond is ir.TRUE:
            return True
        if cond is ir.FALSE:
            return False
        if not self.prune:
            return True
        key = (tuple(self.pc), cond)
        r = self.feas_cache.get(key)
        if r is None:
            t0 = time.time()
            sat, _ = smt.satisfiable(self.pc + [cond], timeout_ms=self.feas_timeout_ms)
            self.stats['feas_queries'] += 1
            self.stats['feas_seconds'] += time.time() - t0
            r = sat is not False          # unknown counts as feasible (sound: explores more)
            self.feas_cache[key] = r
        return r

    def _decide(self, alts):
        """alts: list of (label, cond-or-None). returns chosen index."""
        i = len(self.trace)
        if i < len(self.script):
            k = self.script[i]
        else:
            feas = [j for j, (_l, c) in enumerate(alts) if c is None or self.feasible(c)]
            if not feas:
                raise PathEnd()
            k = feas[0]
            for j in feas[1:]:
                self.pending.append(self.trace + [j])
        self.trace.append(k)
        c = alts[k][1]
        if c is not None and c is not ir.TRUE:
            self.pc.append(c)
        return k

    def branch(self, cond):
        cond = ir.const(cond)
        if cond is ir.TRUE:
            return True
        if cond is ir.FALSE:
            return False
        # already implied syntactically by the path condition?
        if cond in self.pc:
            return True
        n = ir.not_(cond)
        if n in self.pc:
            return False
        return self._decide([('T', cond), ('F', n)]) == 0

    def choose(self, labels):
        return self._decide([(l, None) for l in labels])

    def assume(self, cond):
        cond = ir.const(cond)
        if cond is ir.FALSE:
            raise PathEnd()
        if cond is not ir.TRUE and cond not in self.pc:
            self.pc.append(cond)

    # -- outputs -------------------------------------------------------------------------------------------
    def oblige(self, name, goal, kind='post', where='', meta=None, hints=()):
        self.obligations.append(Obligation(name, self.pc, ir.const(goal), kind, where, meta, hints))

    def event(self, kind, data, where=''):
        self.events.append(Event(kind, data, self.pc, where))


class PathResult(object):
    def __init__(self, outcome, value, pc, obligations, events, trace, state=None):
        self.outcome = outcome        # 'return' | 'raise' | 'end' | 'unsupported'
        self.value = value
        self.pc, self.obligations, self.events, self.trace, self.state = pc, obligations, events, trace, state

    def __repr__(self):
        return 'PathResult(%s, %r, |pc|=%d, %d obligations)' % (self.outcome, self.value, len(self.pc),
                                                                 len(self.obligations))


def explore(ctx, run, on_unsupported='record'):
    """run(ctx) -> (outcome, value, state). Returns list of PathResult over all feasible paths."""
    from .interp import PyRaise
    results = []
    stack = [[]]
    while stack:
        script = stack.pop()
        ctx._reset(script)
        ctx.stats['paths'] += 1
        if ctx.stats['paths'] > ctx.max_paths:
            raise Unsupported('path budget exhausted (%d)' % ctx.max_paths)
        try:
            outcome, value, state = run(ctx)
        except PathEnd:
            outcome, value, state = 'end', None, None
        except PyRaise as e:
            outcome, value, state = 'raise', e.exc, getattr(e, 'state', None)
        except Unsupported as e:
            if on_unsupported == 'raise':
                raise
            outcome, value, state = 'unsupported', str(e), None
        results.append(PathResult(outcome, value, list(ctx.pc), list(ctx.obligations), list(ctx.events),
                                  list(ctx.trace), state))
        if os.environ.get('VERIF_TRACE_PATHS'):
            sys.stderr.write('path %d: %s %s trace=%r feas=%d (%.1fs) last pc: %s\n' % (
                ctx.stats['paths'], outcome, str(value)[:80], ctx.trace, ctx.stats['feas_queries'],
                ctx.stats['feas_seconds'], ir.show(ctx.pc[-1])[:160] if ctx.pc else ''))
        stack.extend(ctx.pending)
    return results
