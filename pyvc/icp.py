"""Interval branch-and-bound (mpmath.iv, outward rounded) for  hyps => goal  over a compact box.

verdict 'proved'  : every box of a finite partition either violates a hypothesis everywhere or satisfies the goal
                    everywhere (rigorous interval enclosures);
        'refuted' : a concrete point of the box satisfies all hyps and falsifies the goal in 50-digit arithmetic;
        'unknown' : box budget exhausted (reports the proved volume fraction).
"""
import time
from fractions import Fraction

import mpmath
from mpmath import iv

from . import ir


class Result(object):
    def __init__(self, verdict, seconds, boxes, detail='', model=None):
        self.verdict, self.seconds, self.boxes, self.detail, self.model = verdict, seconds, boxes, detail, model
        self.backend = 'icp'

    def __repr__(self):
        return 'Result(%s, icp, %.2fs, %d boxes %s)' % (self.verdict, self.seconds, self.boxes, self.detail)


def _pt(box):
    return {k: (a + b) / 2 for k, (a, b) in box.items()}


def prove_box(hyps, goal, box, max_boxes=200000, ufs=None, ufs_iv=None, min_width=1e-13):
    """box: dict var-name -> (lo, hi) floats/Fractions."""
    t0 = time.time()
    hyps = [ir.const(h) for h in hyps]
    goal = ir.const(goal)
    stack = [{k: (mpmath.mpf(Fraction(a).numerator) / Fraction(a).denominator if isinstance(a, Fraction) else mpmath.mpf(a),
                  mpmath.mpf(Fraction(b).numerator) / Fraction(b).denominator if isinstance(b, Fraction) else mpmath.mpf(b))
              for k, (a, b) in box.items()}]
    n = 0
    old = mpmath.mp.dps
    mpmath.mp.dps = 30
    iv.dps = 30
    try:
        while stack:
            b = stack.pop()
            n += 1
            if n > max_boxes:
                return Result('unknown', time.time() - t0, n, 'box budget exhausted, %d boxes open' % (len(stack) + 1))
            env = {k: iv.mpf([lo, hi]) for k, (lo, hi) in b.items()}
            cache = {}
            dead = False
            allh = True
            try:
                for h in hyps:
                    v = ir.evaluate(h, env, ufs_iv, ctx=iv, cache=cache)
                    if v is False:
                        dead = True
                        break
                    if v is not True:
                        allh = False
                if dead:
                    continue
                g = ir.evaluate(goal, env, ufs_iv, ctx=iv, cache=cache)
            except ir.EvalError:
                g = None
                allh = False
            if g is True:
                continue
            # try the midpoint as a concrete counterexample
            pt = _pt(b)
            try:
                mpmath.mp.dps = 50
                c2 = {}
                hv = [ir.evaluate(h, pt, ufs, cache=c2) for h in hyps]
                gv = ir.evaluate(goal, pt, ufs, cache=c2)
                if all(v is True for v in hv) and gv is False:
                    return Result('refuted', time.time() - t0, n, model={'env': {k: float(v) for k, v in pt.items()}})
            except (ir.EvalError, TypeError, ZeroDivisionError, ValueError):
                pass
            finally:
                mpmath.mp.dps = 30
            # split the widest (relative) side
            k = max(b, key=lambda k: (b[k][1] - b[k][0]))
            lo, hi = b[k]
            if hi - lo < min_width:
                return Result('unknown', time.time() - t0, n, 'box below minimum width near %s' %
                              {kk: float(v) for kk, v in pt.items()})
            mid = (lo + hi) / 2
            b1, b2 = dict(b), dict(b)
            b1[k] = (lo, mid)
            b2[k] = (mid, hi)
            stack.append(b1)
            stack.append(b2)
        return Result('proved', time.time() - t0, n)
    finally:
        mpmath.mp.dps = old
