"""Interval branch-and-bound (mpmath.iv, outward rounded) for  hyps => goal  over a compact box.

verdict 'proved'  : every box of a finite partition either violates a hypothesis everywhere or satisfies the goal
                    everywhere (rigorous interval enclosures);
        'refuted' : a concrete point of the box satisfies all hyps and falsifies the goal in 50-digit arithmetic;
        'unknown' : box budget exhausted (reports the proved volume fraction).
"""
import time
from fractions import Fraction

import mpmath
from mpmath import iv

from . import ir


def _split_sum(x):
    """x <= 0 with x a sum: returns (P, Nn) such that x = P - Nn with P, Nn sums of syntactically non-negative-
    coefficient terms, or None"""
    terms = x.args if x.op == 'add' else (x,)
    pos, neg = [], []
    for t in terms:
        c = ir._num(t)
        if c is not None:
            (pos if c >= 0 else neg).append(ir.const(abs(c)))
            continue
        if t.op == 'mul':
            cs = [ir._num(a) for a in t.args]
            k = [c for c in cs if c is not None]
            if k and k[0] < 0:
                neg.append(ir.mul(ir.const(-k[0]), *[a for a, c in zip(t.args, cs) if c is None]))
                continue
        pos.append(t)
    return pos, neg


def _logform(t):
    """log of a positive product term, distributed: log(a*b) = log a + log b, log(a**b) = b*log a,
    log(exp a) = a, log(a/b) = log a - log b. Sound when every factor is positive (checked per box)."""
    if t.op == 'mul':
        if any((ir._num(a) or 0) < 0 for a in t.args):
            return ir.log(t)                   # e.g. (-1)*log(v): positive as a whole, atomic
        return ir.add(*[_logform(a) for a in t.args])
    if t.op == 'div':
        return ir.sub(_logform(t.args[0]), _logform(t.args[1]))
    if t.op == 'pow':
        return ir.mul(t.args[1], _logform(t.args[0]))
    if t.op == 'exp':
        return t.args[0]
    return ir.log(t)


def _factors(t):
    if t.op in ('mul',):
        if any((ir._num(a) or 0) < 0 for a in t.args):
            yield t
            return
        for a in t.args:
            for f in _factors(a):
                yield f
    elif t.op == 'div':
        for a in t.args:
            for f in _factors(a):
                yield f
    elif t.op == 'pow':
        for f in _factors(t.args[0]):
            yield f
    elif t.op == 'exp':
        return
    else:
        yield t


def log_goal(goal):
    """for a goal  P <= N  (one positive product on each side) return (log-form goal, factors that must be > 0)"""
    if goal.op not in ('le', 'lt'):
        return None
    x = ir.sub(goal.args[0], goal.args[1])
    pos, neg = _split_sum(x)
    if len(pos) != 1 or len(neg) != 1:
        return None
    P, Nn = pos[0], neg[0]
    if P.op not in ('mul', 'div', 'pow', 'exp'):
        return None
    cmp = ir.le if goal.op == 'le' else ir.lt
    return cmp(_logform(P), _logform(Nn)), list(_factors(P)) + list(_factors(Nn))


def _side_ok(side_hyps, pt):
    """hypotheses mentioning variables outside the box: satisfiable together with the point's coordinates?"""
    if not side_hyps:
        return True
    from . import smt
    eqs = []
    shared = set()
    for h in side_hyps:
        shared |= {v for v in ir.free_vars(h) if v.args[0] in pt}
    for v in shared:
        eqs.append(ir.eq(v, ir.const(Fraction(str(float(pt[v.args[0]]))))))
    sat, _ = smt.satisfiable(list(side_hyps) + eqs, timeout_ms=3000)
    return sat is True


class Result(object):
    def __init__(self, verdict, seconds, boxes, detail='', model=None):
        self.verdict, self.seconds, self.boxes, self.detail, self.model = verdict, seconds, boxes, detail, model
        self.backend = 'icp'

    def __repr__(self):
        return 'Result(%s, icp, %.2fs, %d boxes %s)' % (self.verdict, self.seconds, self.boxes, self.detail)


def _pt(box):
    return {k: (a + b) / 2 for k, (a, b) in box.items()}


def prove_box(hyps, goal, box, max_boxes=200000, ufs=None, ufs_iv=None, min_width=1e-13, extended=False):
    """box: dict var-name -> (lo, hi) floats/Fractions."""
    t0 = time.time()
    hyps = [ir.const(h) for h in hyps]
    goal = ir.const(goal)
    stack = [{k: (mpmath.mpf(Fraction(a).numerator) / Fraction(a).denominator if isinstance(a, Fraction) else mpmath.mpf(a),
                  mpmath.mpf(Fraction(b).numerator) / Fraction(b).denominator if isinstance(b, Fraction) else mpmath.mpf(b))
              for k, (a, b) in box.items()}]
    n = 0
    open_boxes = []
    names = set(box)
    box_hyps = [h for h in hyps if all(v.args[0] in names for v in ir.free_vars(h))]
    side_hyps = [h for h in hyps if h not in box_hyps]
    diff = None
    lg = log_goal(goal)
    if lg is not None:
        diff = ir.sub(lg[0].args[0], lg[0].args[1])
    elif goal.op in ('le', 'lt') and goal.args[0].sort in ('R', 'I'):
        diff = ir.sub(goal.args[0], goal.args[1])
    old = mpmath.mp.dps
    mpmath.mp.dps = 30
    iv.dps = 30
    try:
        while stack:
            b = stack.pop()
            n += 1
            if n > max_boxes:
                return Result('unknown', time.time() - t0, n, 'box budget exhausted, %d boxes open' % (len(stack) + 1))
            env = {k: iv.mpf([lo, hi]) for k, (lo, hi) in b.items()}
            cache = {}
            dead = False
            allh = True
            for h in hyps:
                try:
                    v = ir.evaluate(h, env, ufs_iv, ctx=iv, cache=cache, extended=extended)
                except ir.EvalError:
                    v = None                   # a hypothesis that cannot be evaluated is simply not used (sound)
                if v is False:
                    dead = True
                    break
                if v is not True:
                    allh = False
            if dead:
                continue
            try:
                g = ir.evaluate(goal, env, ufs_iv, ctx=iv, cache=cache, extended=extended)
            except ir.EvalError:
                g = None
                allh = False
            if g is not True and lg is not None:
                # same inequality in logarithmic form (tighter enclosures for products of huge and tiny factors)
                try:
                    if all(ir.evaluate(ir.gt(f, 0), env, ufs_iv, ctx=iv, cache=cache, extended=extended) is True
                           for f in lg[1]):
                        g2 = ir.evaluate(lg[0], env, ufs_iv, ctx=iv, cache=cache, extended=extended)
                        if g2 is True:
                            g = True
                except ir.EvalError:
                    pass
            if g is True:
                continue
            # try the midpoint (and, for the first boxes, the corners) as a concrete counterexample
            pt = _pt(b)
            cands = [pt]
            if n <= 64 and len(b) <= 5:
                import itertools
                ks = list(b)
                for combo in itertools.product(*[(b[k][0], b[k][1]) for k in ks]):
                    cands.append(dict(zip(ks, combo)))
            for cpt in cands:
                try:
                    mpmath.mp.dps = 50
                    c2 = {}
                    hv = [ir.evaluate(h, cpt, ufs, cache=c2) for h in box_hyps]
                    gv = ir.evaluate(goal, cpt, ufs, cache=c2)
                    if all(v is True for v in hv) and gv is False and _side_ok(side_hyps, cpt):
                        return Result('refuted', time.time() - t0, n,
                                      model={'env': {k: float(v) for k, v in cpt.items()}})
                except (ir.EvalError, TypeError, ZeroDivisionError, ValueError):
                    pass
                finally:
                    mpmath.mp.dps = 30
            # choose the side to split: the one whose bisection shrinks the enclosure of the goal's difference
            # term most (falls back to the widest side)
            k = None
            if diff is not None and len(b) > 1:
                best = None
                for kk in b:
                    lo_, hi_ = b[kk]
                    if hi_ - lo_ < min_width * 4:
                        continue
                    mid_ = (lo_ + hi_) / 2
                    w = 0
                    ok = True
                    for half in ((lo_, mid_), (mid_, hi_)):
                        e2 = dict(env)
                        e2[kk] = iv.mpf([half[0], half[1]])
                        try:
                            dv = ir.evaluate(diff, e2, ufs_iv, ctx=iv, extended=extended)
                            wd = dv.b - dv.a
                            w = max(w, wd) if wd == wd else float('inf')
                        except ir.EvalError:
                            ok = False
                            break
                    if not ok or w == float('inf') or w != w:
                        continue
                    if best is None or w < best[0]:
                        best = (w, kk)
                if best is not None:
                    k = best[1]
            if k is None:
                k = max(b, key=lambda k: (b[k][1] - b[k][0]))
            lo, hi = b[k]
            if hi - lo < min_width:
                open_boxes.append({kk: float(v) for kk, v in pt.items()})
                if len(open_boxes) > 200:
                    return Result('unknown', time.time() - t0, n, '>200 boxes below minimum width, e.g. near %s' %
                                  open_boxes[0])
                continue
            mid = (lo + hi) / 2
            b1, b2 = dict(b), dict(b)
            b1[k] = (lo, mid)
            b2[k] = (mid, hi)
            stack.append(b1)
            stack.append(b2)
        if open_boxes:
            return Result('unknown', time.time() - t0, n, '%d boxes below minimum width, e.g. near %s' %
                          (len(open_boxes), open_boxes[0]))
        return Result('proved', time.time() - t0, n)
    finally:
        mpmath.mp.dps = old
