"""Assumed contracts on the dependencies (numpy / scipy / pandas / stdlib) - DESIGN section 5.1.

Each model is ordinary Python operating on symbolic values. `requires` parts are checked at the call site (as
PyRaise of the error the real library raises, or as obligations); `ensures` parts are *assumed*. Every model that
is actually called in a run is recorded in USED so that the evidence can list the trusted base actually relied on.
"""
import builtins as _b
import enum
import functools
from fractions import Fraction

from . import ir, paths, values
from .paths import Unsupported
from .values import Sym, Lane, Arr2, Opaque, GenList, GenIndex, State, to_term

USED = {}
DOC = {}


def model(name, doc):
    def deco(f):
        DOC[name] = doc

        @functools.wraps(f)
        def g(*a, **k):
            USED[name] = doc
            return f(*a, **k)
        g.model_name = name
        return g
    return deco


def _I():
    return State.interp


class LinAlgError(ValueError):
    """numpy.linalg.LinAlgError (a ValueError)"""


_LIB_EXC = {'LinAlgError': LinAlgError}


def _raise(name, *args):
    from .interp import PyRaise, make_exc, ExcVal
    if name in _LIB_EXC:
        raise PyRaise(ExcVal(_LIB_EXC[name], list(args)))
    raise PyRaise(make_exc(name, *args))


class Stub(object):
    """a module / namespace of models"""
    def __init__(self, name, table=None):
        object.__setattr__(self, '_name', name)
        object.__setattr__(self, '_table', dict(table or {}))

    def sym_getattr(self, interp, attr):
        t = object.__getattribute__(self, '_table')
        if attr in t:
            return t[attr]
        raise Unsupported('no assumed contract for %s.%s' % (object.__getattribute__(self, '_name'), attr))

    def __repr__(self):
        return 'Stub(%s)' % object.__getattribute__(self, '_name')


class TypeToken(object):
    """stands for an external class in isinstance / issubdtype tests"""
    def __init__(self, name, pred):
        self.name, self.pred = name, pred

    def __repr__(self):
        return 'TypeToken(%s)' % self.name


# ------------------------------------------------------------------------------------------------
# builtins
# ------------------------------------------------------------------------------------------------

def _len(x):
    from .interp import PyList, GenRows
    if isinstance(x, Lane):
        return x.length()
    if isinstance(x, Arr2):
        return x.n
    if isinstance(x, GenList):
        return x.lane.length()
    if isinstance(x, PyList) and x.gen is not None:
        return x.gen.length()
    if isinstance(x, GenRows):
        return x.cols[0].length()
    if hasattr(x, 'sym_len'):
        return x.sym_len(_I())
    if isinstance(x, Sym):
        _raise('TypeError', "object of type 'float' has no len()")
    try:
        return len(x)
    except TypeError as e:
        _raise('TypeError', str(e))


KENDALL_NONDEGENERATE = [False]  # vine mode: kendalltau arguments are assumed non-constant (stated in evidence)
CONCRETE_ARGEXT = [False]       # vine mode: extrema / ranges over symbolic values are resolved by case split


def concretize_int(x, limit=64):
    """a symbolic integer as a python int, by case split over the values the path condition allows (0..limit)"""
    if not isinstance(x, Sym):
        return x
    n = ir._num(x.t)
    if n is not None:
        return int(n)
    for v in range(limit + 1):
        if State.ctx.branch(ir.eq(x.t, v)):
            return v
    raise Unsupported('integer not bounded by %d on this path' % limit)


def _range(*a):
    from .interp import GenRange
    if CONCRETE_ARGEXT[0] and any(isinstance(x, Sym) and ir._num(x.t) is None for x in a):
        # only integers the path condition bounds are enumerated; an unbounded one needs a loop invariant
        a = [concretize_int(x) if not (isinstance(x, Sym) and ir._num(x.t) is None and
                                         State.ctx.feasible(ir.gt(x.t, 64))) else x for x in a]
    if any(isinstance(x, Sym) and ir._num(x.t) is None for x in a):
        if len(a) == 1:
            return GenRange(a[0])
        raise Unsupported('range with symbolic bounds and start/step')
    return range(*[int(ir._num(x.t)) if isinstance(x, Sym) else x for x in a])


def _isinstance(x, c):
    from .interp import Obj, ClassVal, ExcVal, PyList
    cs = c if isinstance(c, tuple) else (c,)
    for k in cs:
        if isinstance(k, TypeToken):
            if k.pred(x):
                return True
        elif isinstance(k, ClassVal):
            if isinstance(x, Obj) and x.cls.is_subclass(k):
                return True
            if isinstance(x, ExcVal) and x.isinstance_of(k):
                return True
        elif k is int:
            if (isinstance(x, int) and not isinstance(x, bool)) or (isinstance(x, Sym) and x.t.sort == 'I' and False):
                return True
        elif k is float:
            if isinstance(x, float) or (isinstance(x, Sym) and x.t.sort == 'R'):
                return True
        elif k is type:
            if isinstance(x, (ClassVal, type, TypeToken)):
                return True
        elif k is object:
            return True
        elif isinstance(k, type):
            if isinstance(x, ExcVal):
                if x.isinstance_of(k):
                    return True
            elif isinstance(x, k) and not isinstance(x, (Sym, Lane, Arr2, Opaque, Obj)):
                return True
        else:
            raise Unsupported('isinstance against %r' % (k,))
    return False


def _minmax(which):
    def f(*args, **kw):
        if len(args) == 1:
            x = args[0]
            if isinstance(x, Lane):
                return x.min() if which == 'min' else x.max()
            items, g = _I().iterate(x)
            if g:
                raise Unsupported(which + ' of symbolic-length iterable')
        else:
            items = list(args)
        key = kw.get('key')
        if key is not None:
            raise Unsupported(which + ' with key')
        if not items:
            _raise('ValueError', which + '() arg is an empty sequence')
        r = items[0]
        for y in items[1:]:
            if isinstance(r, (Sym,)) or isinstance(y, (Sym,)):
                r = values.apply2(which, r, y)
            else:
                r = (_b.min if which == 'min' else _b.max)(r, y)
        return r
    return f


def _sum(x, start=0):
    if isinstance(x, Lane):
        return x.sum()
    items, g = _I().iterate(x)
    if g:
        raise Unsupported('sum of symbolic-length iterable')
    r = start
    for y in items:
        r = _I().binop(__import__('ast').Add(), r, y)
    return r


def _abs(x):
    if isinstance(x, (Sym, Lane, Arr2)):
        return values.apply1('abs', x)
    if hasattr(x, 'sym_abs'):
        return x.sym_abs(_I())
    return abs(x)


def _float(x=0.0):
    if isinstance(x, str):
        return Sym(ir.const(float(x)))
    if isinstance(x, Sym):
        return Sym(x.t) if x.t.sort != 'B' else Sym(ir.ite(x.t, 1, 0))
    if isinstance(x, Lane):
        if values._is_one(x.n):
            return Sym(x.t)
        _raise('TypeError', 'only 0-dimensional arrays can be converted to Python scalars')
    if isinstance(x, (int, float, bool)):
        return Sym(ir.const(float(x))) if not isinstance(x, int) else x
    raise Unsupported('float(%r)' % (x,))


def _int(x=0):
    if isinstance(x, Sym):
        n = ir._num(x.t)
        if n is not None:
            return int(n)
        if x.t.sort == 'I':
            return x
        return Sym(ir.uf('trunc', [x.t], 'I'))
    return int(x)


def _bool(x=False):
    if isinstance(x, Sym):
        return Sym(values.truth_term(x))
    return _I().truthy(x)


def _list(x=()):
    from .interp import PyList
    if isinstance(x, (Lane, GenList)):
        return GenList(x if isinstance(x, Lane) else x.lane)
    items, g = _I().iterate(x)
    if g:
        raise Unsupported('list() of symbolic-length iterable')
    return PyList(items)


def _tuple(x=()):
    items, g = _I().iterate(x)
    if g:
        raise Unsupported('tuple() of symbolic-length iterable')
    return tuple(items)


def _sorted(x, key=None, reverse=False):
    from .interp import PyList
    items, g = _I().iterate(x)
    if g:
        raise Unsupported('sorted of symbolic-length iterable')
    I = _I()
    if key is not None:
        keyed = [(I.call(key, [it], {}), it) for it in items]
    else:
        keyed = [(it, it) for it in items]
    if all(not _has_sym(k) for k, _ in keyed):
        return PyList([it for _k, it in sorted(keyed, key=lambda p: p[0], reverse=reverse)])
    # symbolic keys: insertion sort with branching comparisons (stable)
    out = []
    for k, it in keyed:
        pos = len(out)
        for j, (k2, _it2) in enumerate(out):
            lt = _lt_key(k, k2) if not reverse else _lt_key(k2, k)
            if lt:
                pos = j
                break
        out.insert(pos, (k, it))
    return PyList([it for _k, it in out])


def _has_sym(k):
    if isinstance(k, (tuple, list)):
        return any(_has_sym(x) for x in k)
    return isinstance(k, Sym)


def _lt_key(a, b):
    if isinstance(a, (tuple, list)):
        for x, y in zip(a, b):
            if _lt_key(x, y):
                return True
            if _lt_key(y, x):
                return False
        return len(a) < len(b)
    r = _I().compare(__import__('ast').Lt(), a, b)
    return values.truth(r) if isinstance(r, Sym) else r


def _getattr(obj, name, *default):
    from .interp import PyRaise
    try:
        return _I().getattr(obj, name)
    except PyRaise as e:
        if e.exc.clsname == 'AttributeError' and default:
            return default[0]
        raise


def _zip(*its):
    from .interp import ZipVal
    return ZipVal(list(its))


def _enumerate(it, start=0):
    from .interp import EnumerateVal
    return EnumerateVal(it, start)


def _any(x):
    items, g = _I().iterate(x)
    if g:
        raise Unsupported('any() over symbolic-length iterable')
    for y in items:
        if _I().truthy(y):
            return True
    return False


def _all(x):
    items, g = _I().iterate(x)
    if g:
        raise Unsupported('all() over symbolic-length iterable')
    for y in items:
        if not _I().truthy(y):
            return False
    return True


def _type(x):
    from .interp import Obj
    if isinstance(x, Obj):
        return x.cls
    if isinstance(x, (Sym, Lane, Arr2, Opaque)):
        raise Unsupported('type() of symbolic value')
    return type(x)


def _issubclass(a, b):
    from .interp import ClassVal
    if isinstance(a, ClassVal):
        bs = b if isinstance(b, tuple) else (b,)
        return any(a.is_subclass(x) for x in bs)
    return issubclass(a, b)


def _str(x=''):
    return _I().to_str(x)


def _set(x=()):
    items, g = _I().iterate(x)
    if g:
        raise Unsupported('set() of symbolic-length iterable')
    return set(items)


def _dict(*a, **k):
    if a and hasattr(a[0], 'sym_to_dict'):
        d = a[0].sym_to_dict(_I())
        d.update(k)
        return d
    if a and not isinstance(a[0], dict):
        items, g = _I().iterate(a[0])
        if g:
            raise Unsupported('dict() of a symbolic-length iterable')
        d = {}
        for it in items:
            kk, vv = _I().unpack(it, 2)
            d[kk] = vv
        d.update(k)
        return d
    return dict(*a, **k)


def _round(x, nd=None):
    if isinstance(x, Sym):
        return Sym(ir.uf('round', [x.t, to_term(nd if nd is not None else 0)]))
    return round(x, nd) if nd is not None else round(x)


def _classmethod(f):
    from .interp import ClassMethodVal
    return ClassMethodVal(f)


def _staticmethod(f):
    from .interp import StaticMethodVal
    return StaticMethodVal(f)


def _property(f):
    from .interp import PropertyVal
    return PropertyVal(f)


def _super(cls, obj):
    from .interp import SuperProxy
    return SuperProxy(cls, obj)


def _print(*a, **k):
    return None


def _id(x):
    return id(x)


def _hash(x):
    return hash(x)


def _callable(x):
    from .interp import FuncVal, BoundMethod, ClassVal
    return isinstance(x, (FuncVal, BoundMethod, ClassVal)) or callable(x)


BUILTINS = {
    'len': _len, 'range': _range, 'isinstance': _isinstance, 'min': _minmax('min'), 'max': _minmax('max'),
    'sum': _sum, 'abs': _abs, 'float': _float, 'int': _int, 'bool': _bool, 'list': _list, 'tuple': _tuple,
    'sorted': _sorted, 'getattr': _getattr, 'hasattr': lambda o, n: _I().hasattr(o, n),
    'setattr': lambda o, n, v: _I().setattr(o, n, v), 'zip': _zip, 'enumerate': _enumerate, 'any': _any, 'all': _all,
    'type': _type, 'issubclass': _issubclass, 'str': _str, 'set': _set, 'dict': _dict, 'round': _round,
    'classmethod': _classmethod, 'staticmethod': _staticmethod, 'property': _property, 'super': _super,
    'print': _print, 'object': object, 'None': None, 'True': True, 'False': False, 'id': _id, 'hash': _hash,
    'callable': _callable, 'NotImplemented': NotImplemented, 'repr': _str, 'frozenset': frozenset,
    'reversed': lambda x: list(reversed(_list(x))), 'map': lambda f, *its: [_I().call(f, list(a), {}) for a in
                                                                             zip(*[_I().iterate(i)[0] for i in its])],
    'iter': lambda x: x, '__name__': '__main__',
}
_TYPE_NAMES = {'int': int, 'float': float, 'str': str, 'bool': bool, 'list': list, 'tuple': tuple, 'dict': dict,
               'set': set, 'type': type}
for _n, _e in list(vars(_b).items()):
    if isinstance(_e, type) and issubclass(_e, BaseException):
        BUILTINS[_n] = _e


class CallableType(object):
    """int/float/... used both as a constructor and in isinstance"""
    def __init__(self, pytype, ctor):
        self.pytype, self.ctor = pytype, ctor

    def sym_call(self, interp, args, kwargs):
        return self.ctor(*args, **kwargs)

    def __repr__(self):
        return 'CallableType(%s)' % self.pytype.__name__


_CTYPES = {n: CallableType(t, BUILTINS[n]) for n, t in _TYPE_NAMES.items()}


def builtin(interp, name):
    if name in _CTYPES:
        return _CTYPES[name]
    if name in BUILTINS:
        return BUILTINS[name]
    return NotImplemented


# isinstance against CallableType
_old_isinstance = _isinstance


def _isinstance2(x, c):
    cs = c if isinstance(c, tuple) else (c,)
    cs = tuple(k.pytype if isinstance(k, CallableType) else k for k in cs)
    return _old_isinstance(x, cs)


BUILTINS['isinstance'] = _isinstance2


# ------------------------------------------------------------------------------------------------
# methods of native Python containers (interception: frame events, generic lists)
# ------------------------------------------------------------------------------------------------

def _list_method(interp, lst, name):
    from .interp import PyList
    if name == 'append':
        def append(x):
            interp._note_mutation(lst)
            if interp.generic_depth > 0 and isinstance(lst, PyList) and (len(lst) == 0 or lst.gen is not None) \
                    and id(lst) not in interp.generic_lists:
                if not isinstance(x, (Sym, int, float, bool)):
                    raise Unsupported('appending %r in a lane-map loop' % (x,))
                if lst.gen is not None and lst.gen.t is not to_term(x):
                    raise Unsupported('two appends to the same list in a lane-map loop')
                lst.gen = Lane(to_term(x), State.gen_n, State.gen_mask)
                return None
            if isinstance(lst, PyList) and lst.gen is not None:
                raise Unsupported('append to a symbolic-length list outside its loop')
            list.append(lst, x)
        return append
    if name in ('extend', 'insert', 'remove', 'pop', 'clear', 'sort', 'reverse'):
        def mut(*a, **k):
            interp._note_mutation(lst)
            if name == 'remove':
                for i, y in enumerate(lst):
                    r = interp.compare(__import__('ast').Eq(), y, a[0])
                    if (values.truth(r) if isinstance(r, Sym) else r):
                        del lst[i]
                        return None
                _raise('ValueError', 'list.remove(x): x not in list')
            if name == 'sort':
                new = _sorted(list(lst), **k)
                lst[:] = new
                return None
            if name == 'extend':
                items, g = interp.iterate(a[0])
                if g:
                    raise Unsupported('extend with symbolic-length iterable')
                list.extend(lst, items)
                return None
            if name == 'insert' and isinstance(a[0], Sym):
                a = (interp.concrete_index(a[0]),) + tuple(a[1:])
            if name == 'pop' and a and isinstance(a[0], Sym):
                a = (interp.concrete_index(a[0]),)
            try:
                return getattr(list, name)(lst, *a, **k)
            except IndexError as e:
                _raise('IndexError', str(e))
        return mut
    if name == 'index':
        def index(x):
            for i, y in enumerate(lst):
                r = interp.compare(__import__('ast').Eq(), y, x)
                if (values.truth(r) if isinstance(r, Sym) else r):
                    return i
            _raise('ValueError', 'not in list')
        return index
    if name == 'copy':
        return lambda: PyList(lst)
    if name == 'count':
        return lambda x: sum(1 for y in lst if y is x or y == x)
    return NotImplemented


def _dict_method(interp, d, name):
    if name in ('update', 'pop', 'popitem', 'clear', 'setdefault', '__setitem__', '__delitem__'):
        def mut(*a, **k):
            interp._note_mutation(d)
            if name == 'update' and a and hasattr(a[0], 'sym_to_dict'):
                a = (a[0].sym_to_dict(interp),)
            try:
                return getattr(dict, name)(d, *a, **k)
            except KeyError as e:
                _raise('KeyError', *e.args)
        return mut
    if name == 'copy':
        return lambda: dict(d)
    if name in ('get', 'items', 'keys', 'values'):
        if name == 'items':
            return lambda: list(d.items())
        if name == 'keys':
            return lambda: list(d.keys())
        if name == 'values':
            return lambda: list(d.values())
        return lambda *a: dict.get(d, *a)
    return NotImplemented


def _set_method(interp, s, name):
    if name in ('add', 'update', 'remove', 'discard', 'pop', 'clear', 'difference_update', 'intersection_update'):
        def mut(*a, **k):
            interp._note_mutation(s)
            try:
                return getattr(set, name)(s, *a, **k)
            except KeyError as e:
                _raise('KeyError', *e.args)
        return mut
    return NotImplemented


def lib_getattr(interp, obj, name):
    if isinstance(obj, list):
        return _list_method(interp, obj, name)
    if isinstance(obj, dict):
        return _dict_method(interp, obj, name)
    if isinstance(obj, set):
        return _set_method(interp, obj, name)
    if isinstance(obj, Sym):
        if name in ('real',):
            return obj
        if name == 'dtype':
            return values.DType('float')
        if name in ('all', 'any'):
            return lambda *a, **k: Sym(values.truth_term(obj))
        if name in ('max', 'min', 'sum', 'mean'):
            return lambda *a, **k: obj
        if name == 'clip':
            return lambda lo, hi: values.clip(obj, lo, hi)
        if name == 'tolist':
            return lambda: obj
        if name == 'astype':
            return lambda *_a, **_k: obj
    if isinstance(obj, GenList) and name == 'tolist':
        return lambda: obj
    if isinstance(obj, enum.Enum) or isinstance(obj, enum.EnumMeta):
        return getattr(obj, name)
    if isinstance(obj, CallableType):
        return getattr(obj.pytype, name)
    if isinstance(obj, str):
        return getattr(obj, name)
    return NotImplemented


def getitem(interp, base, key):
    return NotImplemented


def call(interp, f, args, kwargs):
    try:
        return f(*args, **kwargs)
    except TypeError as e:
        # a call shape the assumed contract does not describe (an option of the library function that is not modelled): the
        # path is unsupported, not an engine failure
        msg = str(e)
        if 'unexpected keyword argument' in msg or 'positional argument' in msg:
            raise Unsupported('call shape outside the assumed contract: %s' % msg[:120])
        raise


# ------------------------------------------------------------------------------------------------
# numpy
# ------------------------------------------------------------------------------------------------

F32_EPS = Fraction(1, 2 ** 23)
F64_EPS = Fraction(1, 2 ** 52)
F64_MAX = Fraction((2 ** 53 - 1) * 2 ** (1023 - 52))
F64_MIN = Fraction(1, 2 ** 1022)

NDARRAY = TypeToken('np.ndarray', lambda x: isinstance(x, (Lane, Arr2)) or getattr(x, 'is_ndarray', False))
NP_FLOAT32 = TypeToken('np.float32', lambda x: False)
NP_FLOATING = TypeToken('np.floating', lambda x: isinstance(x, Sym) and x.t.sort == 'R')
NP_INTEGER = TypeToken('np.integer', lambda x: isinstance(x, Sym) and x.t.sort == 'I')


def _np_finfo(tp):
    if tp is NP_FLOAT32:
        return Opaque('finfo', eps=Sym(ir.const(F32_EPS)))
    return Opaque('finfo', eps=Sym(ir.const(F64_EPS)), max=Sym(ir.const(F64_MAX)), tiny=Sym(ir.const(F64_MIN)))


@model('np.power', 'np.power(x, y) is the real power function x**y, elementwise; defined for x > 0 (any y), '
       'x = 0 with y > 0, or integer y with x != 0 (definedness is a safety obligation at the call site)')
def np_power(x, y):
    return values.binop('pow', _num(x), _num(y))


def _num(x):
    if isinstance(x, (int, float)) and not isinstance(x, bool):
        return Sym(ir.const(x))
    if isinstance(x, GenList):
        return x.lane
    if isinstance(x, list) and len(x) == 1 and isinstance(x[0], GenList):
        return x[0].lane                     # [[...]]: a (1, n) nested list; reductions flatten it
    if type(x).__name__ == 'RowsArr' and len(x.rows) == 1:
        return x.rows[0]
    return x


@model('np.exp', 'np.exp is the real exponential, elementwise')
def np_exp(x):
    return values.apply1('exp', _num(x))


@model('np.log', 'np.log is the real natural logarithm, elementwise; argument > 0 is a safety obligation')
def np_log(x):
    return values.apply1('log', _num(x))


@model('np.log1p/expm1/square/reciprocal/negative', 'np.log1p(x) = log(1+x), np.expm1(x) = exp(x)-1, np.square(x) = x*x, '
       'np.reciprocal(x) = 1/x, np.negative(x) = -x (real functions, elementwise)')
def np_log1p(x):
    return values.apply1('log', _num(x) + 1)


def np_expm1(x):
    return values.apply1('exp', _num(x)) - 1


def np_square(x):
    x = _num(x)
    return x * x


def np_reciprocal(x):
    """np.reciprocal: 1/x for floats; for INTEGER-typed arguments numpy computes the integer reciprocal (1 for 1, -1 for -1,
    0 otherwise) - the one place where an integer-typed parameter behaves unlike the same float value"""
    x = _num(x)
    if isinstance(x, bool):
        x = int(x)
    if isinstance(x, int):
        return 1 if x == 1 else (-1 if x == -1 else 0)
    if isinstance(x, Sym) and x.t.sort == 'I':
        return Sym(ir.ite(ir.eq(x.t, 1), 1, ir.ite(ir.eq(x.t, -1), -1, 0)))
    if isinstance(x, Lane) and x.t.sort == 'I':
        return x.fresh_like(ir.ite(ir.eq(x.t, 1), 1, ir.ite(ir.eq(x.t, -1), -1, 0)))
    return 1 / x


def np_negative(x):
    return -_num(x)


@model('np.sqrt', 'np.sqrt is the real square root, elementwise; argument >= 0 is a safety obligation')
def np_sqrt(x):
    return values.apply1('sqrt', _num(x))


@model('np.abs', 'np.abs / abs is the absolute value, elementwise')
def np_abs(x):
    return values.apply1('abs', _num(x))


@model('np.sign', 'np.sign(x) in {-1, 0, 1}, elementwise')
def np_sign(x):
    return values.apply1('sign', _num(x))


@model('np.array/asarray', 'np.array(x) of a list gives a fresh array with the same elements; np.asarray(ndarray) '
       'returns the SAME object (alias), np.array(ndarray) a copy')
def np_array(x, dtype=None, copy=True):
    from .interp import PyList, GenRows
    if isinstance(x, Lane):
        return x.copy() if copy else x
    if isinstance(x, Arr2):
        return x.copy() if copy else x
    if isinstance(x, ConcArr):
        return ConcArr(_deep(x.data)) if copy else x
    if isinstance(x, GenList):
        return x.lane.copy()
    if isinstance(x, GenRows):
        return Arr2([c.copy() for c in x.cols], x.cols[0].n)
    if isinstance(x, PyList) and x.gen is not None:
        return x.gen.copy()
    if isinstance(x, (list, tuple)):
        if len(x) == 0:
            return Lane(ir.ZERO, 0)
        if all(isinstance(v, (Sym, int, float, bool)) for v in x):
            if len(x) == 1:
                return Lane(to_term(x[0]), 1)
            return ConcArr([(_num(v) if not isinstance(v, Sym) else v) for v in x])
        if all(isinstance(v, (list, tuple)) for v in x):
            rows = [list(r) for r in x]
            if len(rows) == 1 and all(isinstance(v, (Sym, int, float)) for v in rows[0]):
                return Arr2([Lane(to_term(v), 1) for v in rows[0]], 1)
            if len(rows) == 1 and all(isinstance(v, Lane) for v in rows[0]):
                return Arr3Row(rows[0])
            return ConcArr([[_num(v) for v in r] for r in rows])
        if all(isinstance(v, Lane) for v in x):
            return RowsArr(list(x))
        if all(isinstance(v, GenList) for v in x):
            return RowsArr([v.lane.copy() for v in x])
        if all(isinstance(v, ConcArr) for v in x):
            return ConcArr([_deep(v.data) for v in x])
        if x[0] is None and len(x) == 1:
            return Sym(ir.const(None))
    if x is None:
        return NoneArray()
    if isinstance(x, Sym):
        return x
    if isinstance(x, (int, float)):
        return Sym(ir.const(x))
    if hasattr(x, 'sym_to_numpy'):
        return x.sym_to_numpy(_I())
    raise Unsupported('np.array(%r)' % (x,))


def np_asarray(x, dtype=None):
    return np_array(x, dtype, copy=False)


class RowsArr(object):
    """np.array([lane_a, lane_b]) : shape (k, n) - rows are lanes"""
    is_ndarray = True

    def __init__(self, rows):
        self.rows = rows

    def sym_getitem(self, interp, key):
        if isinstance(key, int):
            return self.rows[key]
        raise Unsupported('RowsArr index %r' % (key,))

    def tolist(self):
        from .interp import PyList
        return PyList([GenList(r) for r in self.rows])

    def sym_getattr(self, interp, name):
        if name == 'tolist':
            return self.tolist
        if name == 'shape':
            return (len(self.rows), self.rows[0].n)
        raise Unsupported('RowsArr.' + name)


class NoneArray(object):
    """np.array(None): a 0-d object array (what Edge.from_dict stores for an edge without pseudo-observations)"""
    is_ndarray = True

    def sym_getattr(self, interp, name):
        if name == 'tolist':
            return lambda: None
        if name == 'shape':
            return ()
        raise Unsupported('np.array(None).' + name)


class Arr3Row(object):
    """np.array([[lane_u, lane_v]]) : shape (1, 2, n) (what Edge.get_likelihood builds)"""
    is_ndarray = True

    def __init__(self, lanes):
        self.lanes = lanes

    def sym_getitem(self, interp, key):
        if isinstance(key, tuple) and len(key) == 2 and key[0] == slice(None, None, None) and isinstance(key[1], int):
            return RowsArr([self.lanes[key[1]]])
        raise Unsupported('Arr3Row index')

    def sym_len(self, interp):
        return 1


class ConcArr(object):
    """small array of concrete shape with symbolic entries (nested python lists)"""
    is_ndarray = True

    def __init__(self, data):
        self.data = data

    @property
    def shape(self):
        d = self.data
        s = []
        while isinstance(d, list):
            s.append(len(d))
            d = d[0] if d else None
        return tuple(s)

    def sym_len(self, interp):
        return len(self.data)

    def sym_getitem(self, interp, key):
        if isinstance(key, Sym):
            key = interp.concrete_index(key)
        if isinstance(key, int):
            r = self.data[key]
            return ConcArr(r) if isinstance(r, list) else r
        if isinstance(key, tuple) and all(isinstance(k, (int, Sym)) for k in key):
            r = self.data
            for k in key:
                r = r[interp.concrete_index(k) if isinstance(k, Sym) else k]
            return ConcArr(r) if isinstance(r, list) else r
        if isinstance(key, tuple) and len(key) == 2 and key[0] == slice(None, None, None) and isinstance(key[1], int):
            return ConcArr([row[key[1]] for row in self.data])
        raise Unsupported('ConcArr index %r' % (key,))

    def sym_setitem(self, interp, key, v):
        if isinstance(key, tuple) and all(isinstance(k, (int, Sym)) for k in key):
            r = self.data
            ks = [interp.concrete_index(k) if isinstance(k, Sym) else k for k in key]
            for k in ks[:-1]:
                r = r[k]
            r[ks[-1]] = v
            return
        if isinstance(key, (int, Sym)):
            self.data[interp.concrete_index(key) if isinstance(key, Sym) else key] = v
            return
        raise Unsupported('ConcArr store %r' % (key,))

    def sym_iter(self, interp):
        return [ConcArr(r) if isinstance(r, list) else r for r in self.data], False

    def sym_getattr(self, interp, name):
        if name == 'shape':
            return self.shape
        if name == 'tolist':
            from .interp import PyList

            def tl(d):
                return PyList([tl(x) for x in d]) if isinstance(d, list) else d
            return lambda: tl(self.data)
        if name == 'copy':
            import copy
            return lambda: ConcArr(copy.deepcopy(self.data) if False else _deep(self.data))
        if name == 'T':
            return ConcArr([list(r) for r in zip(*self.data)])
        raise Unsupported('ConcArr.' + name)

    def __repr__(self):
        return 'ConcArr(%r)' % (self.data,)


def _deep(d):
    return [_deep(x) for x in d] if isinstance(d, list) else d


@model('np.zeros/ones/full/empty', 'np.zeros(n)/np.ones(n)/np.full(n, c) return a fresh array of the given shape '
       'filled with 0/1/c; np.empty returns a fresh array with UNDEFINED contents')
def np_full(shape, val, dtype=None):
    n = shape
    if isinstance(shape, (tuple, list)):
        if len(shape) == 0:
            return _num(val) if not isinstance(val, Sym) else val
        if len(shape) == 1:
            n = shape[0]
        elif len(shape) == 2 and isinstance(shape[1], int):
            return Arr2([Lane(to_term(val), shape[0]) for _ in range(shape[1])], shape[0])
        else:
            raise Unsupported('np.full shape %r' % (shape,))
    if isinstance(n, Sym) and n.t in values.COUNT_OF:
        mask, n0 = values.COUNT_OF[n.t]
        return Lane(to_term(val) if not isinstance(val, Lane) else val.t, n0, mask)
    return Lane(to_term(val) if not isinstance(val, Lane) else val.t, n)


def np_zeros(shape, dtype=None):
    if dtype is BUILTINS['bool'] or dtype is bool or (isinstance(dtype, CallableType) and dtype.pytype is bool):
        return np_full(shape, False)
    return np_full(shape, 0)


def np_ones(shape, dtype=None):
    return np_full(shape, 1)


@model('np.column_stack', 'np.column_stack((a, b, ...)) of 1-d arrays (or scalars) gives the (n, k) array whose '
       'columns are copies of a, b, ...')
def np_column_stack(cols):
    out = []
    n = None
    for c in cols:
        if isinstance(c, Lane):
            out.append(c.copy())
            n = c.n
        elif isinstance(c, GenList):
            out.append(c.lane.copy())
            n = c.lane.n
        elif isinstance(c, (Sym, int, float)):
            out.append(Lane(to_term(c), 1))
            n = 1 if n is None else n
        elif isinstance(c, Arr2):
            out.extend(x.copy() for x in c.cols)
            n = c.n
        else:
            from .interp import PyList
            if isinstance(c, PyList) and c.gen is not None:
                out.append(c.gen.copy())
                n = c.gen.n
            else:
                raise Unsupported('column_stack of %r' % (c,))
    return Arr2(out, n)


@model('np.clip/minimum/maximum', 'elementwise min/max/clip')
def np_clip(x, a_min=None, a_max=None, **kw):
    lo = kw.get('min', a_min)
    hi = kw.get('max', a_max)
    if isinstance(x, ConcArr) and all(b is None or isinstance(b, (int, float, Sym)) for b in (lo, hi)):
        # a small array of concrete shape: entry by entry
        one = lambda v: values.clip(_num(v), _num(lo) if lo is not None else None, _num(hi) if hi is not None else None)
        return ConcArr(_deep_map(x.data, one))
    return values.clip(_num(x), _num(lo) if lo is not None else None, _num(hi) if hi is not None else None)


def np_minimum(a, b):
    return values.apply2('min', _num(a), _num(b))


def np_maximum(a, b):
    return values.apply2('max', _num(a), _num(b))


@model('np.choose', 'np.choose(boolean c, [a, b]) is elementwise (b if c else a)')
def np_choose(c, choices):
    a, b = choices
    return values.where(c, b, a)


@model('np.where', 'np.where(c, a, b) elementwise')
def np_where(c, a=None, b=None):
    if a is None:
        raise Unsupported('np.where with one argument')
    return values.where(c, a, b)


@model('np.logical_and/or/not', 'elementwise boolean connectives')
def np_logical_or(a, b):
    return _boolop('or', a, b)


def np_logical_and(a, b):
    return _boolop('and', a, b)


def np_logical_not(a):
    if isinstance(a, Lane):
        return a.fresh_like(ir.not_(a.t))
    return Sym(ir.not_(values.truth_term(a) if isinstance(a, Sym) else ir.const(bool(a))))


def _boolop(op, a, b):
    def tb(x):
        if isinstance(x, Lane):
            return x
        if isinstance(x, Sym):
            return Sym(values.truth_term(x))
        return Sym(ir.const(bool(x)))
    return values.binop(op, tb(a), tb(b))


@model('np.all/any', 'np.all/np.any of an array: adversarial reduction (only  all => element,  not any => not element)')
def np_all(x, axis=None):
    if isinstance(x, (Lane, Arr2)):
        return x.all()
    if isinstance(x, Sym):
        return Sym(values.truth_term(x))
    return _all(x) if not isinstance(x, bool) else x


def np_any(x, axis=None):
    if isinstance(x, (Lane, Arr2)):
        return x.any()
    if isinstance(x, Sym):
        return Sym(values.truth_term(x))
    return _any(x) if not isinstance(x, bool) else x


@model('np.isclose', 'np.isclose(a, b, rtol=1e-05, atol=1e-08) is |a - b| <= atol + rtol * |b|, elementwise')
def np_isclose(a, b, rtol=1e-05, atol=1e-08):
    a, b = _num(a), _num(b)
    d = values.apply1('abs', a - b)
    return d <= (_num(atol) + _num(rtol) * values.apply1('abs', b))


def np_shape(x):
    if isinstance(x, (Lane, Arr2)):
        return x.shape
    if isinstance(x, (Sym, int, float)):
        return ()
    if hasattr(x, 'shape'):
        return x.shape
    raise Unsupported('np.shape(%r)' % (x,))


@model('np.isnan', 'np.isnan: reals are never NaN except values produced by a dependency whose contract says so '
       '(kendalltau on a constant column, corr with a constant column)')
def np_isnan(x):
    if isinstance(x, Lane):
        return x.fresh_like(values._fn1('isnan', x.t))
    if isinstance(x, Sym):
        return Sym(values._fn1('isnan', x.t))
    if isinstance(x, Arr2):
        return Arr2([c.fresh_like(values._fn1('isnan', c.t)) for c in x.cols], x.n)
    if isinstance(x, (int, float)):
        return x != x
    if hasattr(x, 'sym_isnan'):
        return x.sym_isnan(_I())
    raise Unsupported('np.isnan(%r)' % (x,))


@model('np.ravel', 'np.ravel(x) flattens; of a 1-d array it is a view of the same data')
def np_ravel(x):
    if isinstance(x, Lane):
        return x
    if isinstance(x, Sym):
        return Lane(x.t, 1)
    if isinstance(x, Arr2) and len(x.cols) == 1:
        return x.cols[0]
    if isinstance(x, Arr2) and values._is_one(x.n):
        return ConcArr([Sym(c.t) for c in x.cols])
    if isinstance(x, (int, float)):
        return Lane(ir.const(x), 1)
    if isinstance(x, RowsArr) and len(x.rows) == 1:
        return x.rows[0]
    raise Unsupported('np.ravel(%r)' % (x,))


@model('np.unique', 'np.unique(x): sorted distinct values; len == 1 iff all elements are equal')
def np_unique(x):
    x = _num(x)
    if isinstance(x, Lane):
        w = x.whole()
        if not values._mentions_lane(x.t) and x.mask is None:
            # an array filled with one lane-independent value has exactly one distinct value
            return UniqueVal(x, Sym(ir.ONE), x.t)
        k = Sym(ir.uf('n_unique', [w], 'I'))
        State.ctx.assume(ir.ge(k.t, 1))
        first = ir.uf('unique0', [w])
        # n_unique == 1  =>  every element equals unique0
        State.ctx.assume(ir.implies(ir.eq(k.t, 1), x._guard(ir.eq(x.t, first))))
        return UniqueVal(x, k, first)
    raise Unsupported('np.unique(%r)' % (x,))


class UniqueVal(object):
    is_ndarray = True

    def __init__(self, src, k, first):
        self.src, self.k, self.first = src, k, first

    def sym_len(self, interp):
        return self.k

    def sym_getitem(self, interp, key):
        if key == 0:
            return Sym(self.first)
        raise Unsupported('np.unique(...)[%r]' % (key,))


@model('np.sort/linspace', 'np.sort returns a fresh sorted copy; np.linspace(a, b, num) the evenly spaced grid')
def np_sort(x):
    x = _num(x)
    if isinstance(x, Lane):
        return Lane(ir.uf('np.sort.elem', [x.whole(), values.IDX]), x.n, x.mask)
    raise Unsupported('np.sort')


def np_linspace(a, b, num=50):
    n = num
    if isinstance(n, int):
        nn = ir.const(n)
    else:
        nn = to_term(n)
    step = ir.div(ir.sub(to_term(b), to_term(a)), ir.sub(nn, 1))
    return Lane(ir.add(to_term(a), ir.mul(values.IDX, step)), n)


def np_issubdtype(dt, kind):
    if isinstance(dt, values.DType):
        if kind is NP_FLOATING:
            return dt.kind == 'float'
        if kind is NP_INTEGER:
            return dt.kind == 'int'
    raise Unsupported('np.issubdtype(%r, %r)' % (dt, kind))


def np_dtype(name):
    return values.DType('float' if 'float' in str(name) else str(name))


@model('np.fromiter', 'np.fromiter(generator, dtype) collects the generated scalars into a 1-d array')
def np_fromiter(it, dtype=None, count=-1):
    if isinstance(it, GenList):
        return it.lane.copy()
    return np_array(it)


@model('np.sum/mean/std/min/max', 'whole-array reductions: np.sum/np.mean/np.std(ddof=0 by default: population '
       'standard deviation)/np.min/np.max are the mathematical functions of the whole array (uninterpreted, '
       'deterministic in the array); min <= every element <= max')
def np_sum(x, axis=None):
    x = _num(x)
    if isinstance(x, Lane):
        return x.sum()
    if isinstance(x, Sym):
        return x
    if isinstance(x, ConcArr):
        flat = _flat(x.data)
        r = 0
        for v in flat:
            r = values.binop('add', _num(r) if not isinstance(r, Sym) else r, v)
        return r
    if isinstance(x, Arr2):
        if values._is_one(x.n):
            r = Sym(x.cols[0].t)
            for c in x.cols[1:]:
                r = r + Sym(c.t)
            return r
    if isinstance(x, RowsArr) and len(x.rows) == 1 and values._is_one(x.rows[0].n):
        return Sym(x.rows[0].t)
    raise Unsupported('np.sum(%r)' % (x,))


def _flat(d):
    out = []
    for x in d:
        if isinstance(x, list):
            out.extend(_flat(x))
        else:
            out.append(x)
    return out


def np_mean(x, axis=None):
    x = _num(x)
    if isinstance(x, Lane):
        return x.mean()
    raise Unsupported('np.mean')


def np_std(x, axis=None, ddof=0):
    x = _num(x)
    if isinstance(x, Lane):
        return x.std(ddof=ddof)
    raise Unsupported('np.std')


def _np_min2(x, axis=None):
    x = _num(x)
    if isinstance(x, Lane):
        return x.min()
    return np_min(x, axis)


def _np_max2(x, axis=None):
    x = _num(x)
    if isinstance(x, Lane):
        return x.max()
    return np_max(x, axis)


def np_min(x, axis=None):
    x = _num(x)
    if isinstance(x, Lane):
        m = Sym(ir.uf('np.min', [x.whole()]))
        State.ctx.assume(x._guard(ir.le(m.t, x.t)))
        return m
    if hasattr(x, 'sym_min'):
        return x.sym_min(_I())
    raise Unsupported('np.min')


def np_max(x, axis=None):
    x = _num(x)
    if isinstance(x, Lane):
        m = Sym(ir.uf('np.max', [x.whole()]))
        State.ctx.assume(x._guard(ir.le(x.t, m.t)))
        return m
    if hasattr(x, 'sym_max'):
        return x.sym_max(_I())
    raise Unsupported('np.max')


def np_identity(n, dtype=None):
    n = n if isinstance(n, int) else _I().concrete_index(n)
    pt = getattr(dtype, 'pytype', dtype)
    if pt is bool or dtype is BUILTINS.get('bool'):
        return ConcArr([[i == j for j in range(n)] for i in range(n)])
    if dtype is not None and pt not in (float, int):
        raise Unsupported('np.identity(dtype=%r)' % (dtype,))
    return ConcArr([[1 if i == j else 0 for j in range(n)] for i in range(n)])


def np_concatenate(arrs, axis=0):
    raise Unsupported('np.concatenate')


def np_nonzero(x):
    if isinstance(x, Lane) and x.t.sort == 'B':
        return x           # used only as an index: boolean selection has the same effect
    raise Unsupported('np.nonzero')


def np_isscalar(x):
    return isinstance(x, (Sym, int, float))


def np_nan_to_num(x, nan=0.0):
    if hasattr(x, 'sym_nan_to_num'):
        return x.sym_nan_to_num(_I(), nan)
    raise Unsupported('np.nan_to_num')


# -- numpy.random: a ghost model of the global legacy generator --------------------------------------

class RNG(object):
    """ghost global state. State.rng is a term of sort 'U'. Every consumer advances it by an uninterpreted
    `next`; values drawn are uninterpreted functions of the state before the draw (so equal states give equal
    draws). Events 'rng' record each consumption (frame/effect analysis of C15)."""

    @staticmethod
    def get():
        return State.rng

    @staticmethod
    def advance(kind, args):
        g = State.rng
        State.rng = ir.uf('rng.next', [g, ir.const(kind)] + [to_term(a) for a in args], 'U')
        State.ctx.event('rng', (kind, g), State.where)
        return g


@model('np.random.uniform/random/normal/randint/choice/exponential/multivariate_normal',
       'legacy numpy.random functions draw from the named law, are deterministic functions of the GLOBAL state '
       'before the call, consume only the global state, and return values in the law\'s support '
       '(uniform(lo, hi, n): n values in [lo, hi))')
def np_random_uniform(low=0.0, high=1.0, size=None):
    g = RNG.advance('uniform', [low, high, size if size is not None else 1])
    if size is None:
        x = Sym(ir.uf('rng.uniform', [g, to_term(low), to_term(high)]))
        State.ctx.assume(ir.and_(ir.le(to_term(low), x.t), ir.lt(x.t, to_term(high))))
        return x
    n = size
    t = ir.uf('rng.uniform.elem', [g, to_term(low), to_term(high), to_term(n), values.IDX])
    lane = Lane(t, n)
    State.ctx.assume(ir.and_(ir.le(to_term(low), t), ir.lt(t, to_term(high))))
    if isinstance(n, int) and n <= 16:
        for k in range(n):                          # the same fact for each element of a short array
            tk = ir.substitute(t, {values.IDX: ir.const(k)})
            State.ctx.assume(ir.and_(ir.le(to_term(low), tk), ir.lt(tk, to_term(high))))
    return lane


def np_random_randint(low, high=None, size=None):
    g = RNG.advance('randint', [low, high if high is not None else 0, size if size is not None else 1])
    lo, hi = (0, low) if high is None else (low, high)
    if size is None:
        x = Sym(ir.uf('rng.randint', [g, to_term(lo), to_term(hi)], 'I'))
        State.ctx.assume(ir.and_(ir.le(to_term(lo), x.t), ir.lt(x.t, to_term(hi))))
        if CONCRETE_ARGEXT[0] and isinstance(hi, int):
            return concretize_int(x, limit=hi)
        return x
    t = ir.uf('rng.randint.elem', [g, to_term(lo), to_term(hi), to_term(size), values.IDX], 'I')
    State.ctx.assume(ir.and_(ir.le(to_term(lo), t), ir.lt(t, to_term(hi))))
    return Lane(t, size)


def np_random_normal(loc=0.0, scale=1.0, size=None):
    if isinstance(size, (tuple, list)) and len(size) == 2 and isinstance(size[1], int):
        # an (n, k) block of independent draws: k columns of n
        n, k = size
        g = RNG.advance('normal', [n, k])
        loc, scale = _num(loc), _num(scale)
        cols = [loc + scale * Lane(ir.uf('rng.normal.elem2', [g, to_term(n), ir.const(j), values.IDX]), n) for j in range(k)]
        return Arr2(cols, n)
    g = RNG.advance('normal', [size if size is not None else 1])
    loc, scale = _num(loc), _num(scale)
    if size is None:
        z = Sym(ir.uf('rng.normal', [g]))
        return loc + scale * z
    z = Lane(ir.uf('rng.normal.elem', [g, to_term(size), values.IDX]), size)
    return loc + scale * z


def np_random_random(size=None):
    return np_random_uniform(0.0, 1.0, size)


def np_random_exponential(scale=1.0, size=None):
    g = RNG.advance('exponential', [size if size is not None else 1])
    t = ir.uf('rng.exponential.elem', [g, to_term(size if size is not None else 1), values.IDX])
    State.ctx.assume(ir.ge(t, 0))
    return Lane(t, size) * _num(scale) if size is not None else Sym(t) * _num(scale)


def np_random_choice(a, size=None, replace=True, p=None):
    g = RNG.advance('choice', [size if size is not None else 1])
    a = _num(a)
    if isinstance(a, Lane):
        t = ir.uf('rng.choice.elem', [g, a.whole(), to_term(size if size is not None else 1), values.IDX])
        return Lane(t, size)
    if hasattr(a, 'sym_choice'):
        return a.sym_choice(_I(), g, size)
    raise Unsupported('np.random.choice(%r)' % (a,))


def np_random_shuffle(x):
    """np.random.shuffle(x): permutes x IN PLACE (an effect on the caller's array) and consumes the global generator"""
    g = RNG.advance('shuffle', [])
    x = _num(x)
    if isinstance(x, Lane):
        if x.owner is not None:
            State.ctx.event('mutate', x.owner, State.where)
        x.t = ir.uf('rng.shuffle.elem', [g, x.whole(), values.IDX], x.t.sort)
        return None
    raise Unsupported('np.random.shuffle(%r)' % (x,))


def np_random_permutation(x):
    g = RNG.advance('permutation', [])
    x = _num(x)
    if isinstance(x, Lane):
        return Lane(ir.uf('rng.shuffle.elem', [g, x.whole(), values.IDX], x.t.sort), x.n)
    raise Unsupported('np.random.permutation(%r)' % (x,))


def np_random_get_state():
    return Opaque('rng_state', State.rng)


def np_random_set_state(s):
    if not (isinstance(s, Opaque) and s.kind == 'rng_state'):
        raise Unsupported('np.random.set_state(%r)' % (s,))
    State.rng = s.t
    State.ctx.event('rng_set', s.t, State.where)


class RandomStateObj(object):
    """numpy.random.RandomState instance: carries its own state term"""
    def __init__(self, state):
        self.state = state

    def sym_getattr(self, interp, name):
        if name == 'get_state':
            return lambda: Opaque('rng_state', self.state)
        if name == 'set_state':
            def set_state(s):
                if not (isinstance(s, Opaque) and s.kind == 'rng_state'):
                    raise Unsupported('RandomState.set_state(%r)' % (s,))
                self.state = s.t
            return set_state
        draws = {'uniform': np_random_uniform, 'randint': np_random_randint, 'normal': np_random_normal,
                 'random': np_random_random, 'random_sample': np_random_random, 'exponential': np_random_exponential,
                 'choice': np_random_choice, 'rand': lambda *sh: np_random_uniform(0.0, 1.0, sh[0] if sh else None)}
        if name in draws:
            # a draw from THIS generator object: the same laws as the module-level functions, driven by (and advancing) the
            # object's own state; the global state is not touched
            def draw(*a, **k):
                saved = State.rng
                State.rng = self.state
                try:
                    State.ctx.event('rng_object', (name, self.state), State.where)
                    return draws[name](*a, **k)
                finally:
                    self.state = State.rng
                    State.rng = saved
            return draw
        raise Unsupported('RandomState.' + name)

    def __repr__(self):
        return 'RandomStateObj(%s)' % ir.show(self.state)


class RandomStateCls(object):
    def sym_call(self, interp, args, kwargs):
        seed = args[0] if args else kwargs.get('seed')
        if seed is None:
            # OS-entropy seeded: an arbitrary fresh state
            return RandomStateObj(State.ctx.fresh('rs_entropy', 'U'))
        return RandomStateObj(ir.uf('rng.seed', [to_term(seed)], 'U'))


RANDOM_STATE = RandomStateCls()
RS_TOKEN = TypeToken('np.random.RandomState', lambda x: isinstance(x, RandomStateObj))


class _RandomStateBoth(object):
    """np.random.RandomState is both callable and an isinstance target"""
    def sym_call(self, interp, args, kwargs):
        return RANDOM_STATE.sym_call(interp, args, kwargs)


def _np_random_default_rng(*a, **k):
    State.ctx.event('rng_foreign', 'np.random.default_rng', State.where)
    raise Unsupported('np.random.default_rng (new-style Generator: not covered by the global-state swap)')


NP_RANDOM = Stub('numpy.random', {
    'uniform': np_random_uniform, 'randint': np_random_randint, 'normal': np_random_normal,
    'random': np_random_random, 'random_sample': np_random_random, 'rand': lambda *s: np_random_uniform(0.0, 1.0, s[0] if s else None),
    'exponential': np_random_exponential, 'choice': np_random_choice,
    'get_state': np_random_get_state, 'set_state': np_random_set_state, 'default_rng': _np_random_default_rng,
    'shuffle': np_random_shuffle, 'permutation': np_random_permutation,
})


class _RS(TypeToken):
    def sym_call(self, interp, args, kwargs):
        return RANDOM_STATE.sym_call(interp, args, kwargs)


NP_RANDOM._table['RandomState'] = _RS('np.random.RandomState', lambda x: isinstance(x, RandomStateObj))

NP = Stub('numpy', {
    'power': np_power, 'exp': np_exp, 'log': np_log, 'log1p': np_log1p, 'expm1': np_expm1, 'square': np_square,
    'reciprocal': np_reciprocal, 'negative': np_negative, 'multiply': lambda a, b: _num(a) * _num(b),
    'add': lambda a, b: _num(a) + _num(b), 'subtract': lambda a, b: _num(a) - _num(b),
    'divide': lambda a, b: _num(a) / _num(b), 'true_divide': lambda a, b: _num(a) / _num(b), 'sqrt': np_sqrt, 'abs': np_abs, 'absolute': np_abs,
    'sign': np_sign, 'array': np_array, 'asarray': np_asarray, 'zeros': np_zeros, 'ones': np_ones, 'full': np_full,
    'column_stack': np_column_stack, 'clip': np_clip, 'minimum': np_minimum, 'maximum': np_maximum,
    'choose': np_choose, 'where': np_where, 'logical_or': np_logical_or, 'logical_and': np_logical_and,
    'logical_not': np_logical_not, 'isclose': np_isclose, 'all': np_all, 'any': np_any, 'shape': np_shape, 'isnan': np_isnan,
    'ravel': np_ravel, 'unique': np_unique, 'sort': np_sort, 'linspace': np_linspace, 'finfo': _np_finfo,
    'float32': NP_FLOAT32, 'float64': CallableType(float, _float), 'floating': NP_FLOATING, 'integer': NP_INTEGER,
    'ndarray': NDARRAY, 'inf': Sym(ir.INF), 'nan': Sym(ir.const(float('nan'))), 'pi': Sym(ir.uf('pi', [])),
    'issubdtype': np_issubdtype, 'dtype': np_dtype, 'fromiter': np_fromiter, 'sum': np_sum, 'mean': np_mean,
    'std': np_std, 'min': _np_min2, 'max': _np_max2, 'amin': _np_min2, 'amax': _np_max2, 'identity': np_identity,
    'concatenate': np_concatenate, 'nonzero': np_nonzero, 'isscalar': np_isscalar, 'nan_to_num': np_nan_to_num,
    'random': NP_RANDOM, 'ones_like': lambda x: np_full(np_shape(x)[0], 1), 'zeros_like': lambda x: np_full(np_shape(x)[0], 0),
    'len': _len,
})


# ------------------------------------------------------------------------------------------------
# stdlib stubs
# ------------------------------------------------------------------------------------------------

def _wraps(wrapped):
    def deco(f):
        from .interp import FuncVal
        if isinstance(f, FuncVal):
            f.wrapped = wrapped
            f.attrs['__wrapped__'] = wrapped
            if isinstance(wrapped, FuncVal):
                f.name = wrapped.name
        return f
    return deco


def _contextmanager(f):
    from .interp import FuncVal, ContextManagerVal, GeneratorVal

    class CMFactory(object):
        def sym_call(self, interp, args, kwargs):
            g = interp.call(f, args, kwargs)
            if not isinstance(g, GeneratorVal):
                raise Unsupported('contextmanager on a non-generator')
            return ContextManagerVal(g)

        def sym_getattr(self, interp, name):
            return interp.getattr(f, name)
    return CMFactory()


class LruCached(object):
    """functools.lru_cache(f): ASSUMED CONTRACT - a call either computes f(args) (miss) or returns the value computed
    by an EARLIER call with hash-equal arguments (hit). Objects hash by identity, so at the time of that earlier
    call their mutable attributes may have held any other values: a hit is modelled by evaluating f with every
    attribute of the object arguments replaced by an arbitrary value of the same kind."""
    binds_as_method = True

    def __init__(self, f):
        self.f = f

    def sym_call(self, interp, args, kwargs):
        from .interp import Obj
        USED['functools.lru_cache'] = LruCached.__doc__
        c = State.ctx
        k = c.choose(['lru miss', 'lru hit (stale state possible)'])
        if k == 0:
            return interp.call(self.f, args, kwargs)
        saved = []
        for a in list(args) + list(kwargs.values()):
            if isinstance(a, Obj):
                saved.append((a, dict(a.attrs)))
                for name, v in list(a.attrs.items()):
                    if isinstance(v, Sym) and v.t.sort in ('R', 'I'):
                        a.attrs[name] = Sym(c.fresh('stale_' + name, v.t.sort))
        try:
            return interp.call(self.f, args, kwargs)
        finally:
            for a, d in saved:
                a.attrs = d

    def sym_getattr(self, interp, name):
        if name in ('cache_clear',):
            return lambda: None
        if name == 'cache_info':
            return lambda: None
        return interp.getattr(self.f, name)


def _lru_cache(*a, **k):
    from .interp import FuncVal
    if len(a) == 1 and isinstance(a[0], FuncVal) and not k:
        return LruCached(a[0])
    return lambda f: LruCached(f)


class _WarnCM(object):
    def cm_enter(self, interp):
        return None

    def cm_exit(self, interp, exc):
        return False


@model('copy.deepcopy', 'copy.deepcopy returns a fresh, structurally equal object sharing nothing mutable')
def _deepcopy(x, memo=None):
    return _deep_copy(x)


def _deep_copy(x):
    from .interp import PyList, Obj
    if isinstance(x, (Sym, int, float, str, bool, type(None), enum.Enum)):
        return x
    if isinstance(x, Lane):
        return x.copy()
    if isinstance(x, Arr2):
        return x.copy()
    if isinstance(x, tuple):
        return tuple(_deep_copy(v) for v in x)
    if isinstance(x, list):
        return PyList([_deep_copy(v) for v in x])
    if isinstance(x, dict):
        return {k: _deep_copy(v) for k, v in x.items()}
    if isinstance(x, set):
        return set(x)
    if isinstance(x, Obj):
        from .interp import BoundMethod
        o = Obj(x.cls)
        o.attrs = {k: (BoundMethod(o, v.func) if isinstance(v, BoundMethod) and v.obj is x else _deep_copy(v))
                   for k, v in x.attrs.items()}
        return o
    if isinstance(x, RandomStateObj):
        return RandomStateObj(x.state)
    if isinstance(x, GenList):
        return GenList(x.lane.copy())
    if hasattr(x, 'sym_deepcopy'):
        return x.sym_deepcopy()
    if type(x).__name__ in ('KdeObj', 'LabeledMat', 'Frame', 'SeriesRow', 'SeriesCol', 'ConcArr', 'RowsArr', 'Index'):
        import copy as _copy
        return _copy.copy(x)
    from .interp import BoundMethod
    if isinstance(x, BoundMethod):
        return x
    from .interp import ClassVal, FuncVal
    if isinstance(x, (ClassVal, FuncVal, TypeToken)):
        return x
    raise Unsupported('deepcopy(%r)' % (x,))


class _Logger(object):
    def sym_getattr(self, interp, name):
        return lambda *a, **k: None


def _import_module(name):
    return _I().import_module(name)


SYS = Stub('sys', {
    'float_info': Opaque('float_info', epsilon=Sym(ir.const(F64_EPS)), max=Sym(ir.const(F64_MAX)),
                         min=Sym(ir.const(F64_MIN))),
    'version_info': (3, 12, 1, 'final', 0), 'modules': {},
})

EXTERNAL = {
    'numpy': NP,
    'numpy.random': NP_RANDOM,
    'sys': SYS,
    'warnings': Stub('warnings', {'warn': lambda *a, **k: None, 'catch_warnings': lambda *a, **k: _WarnCM(),
                                  'simplefilter': lambda *a, **k: None, 'filterwarnings': lambda *a, **k: None}),
    'logging': Stub('logging', {'getLogger': lambda *a: _Logger()}),
    'functools': Stub('functools', {'wraps': _wraps, 'lru_cache': _lru_cache, 'cache': _lru_cache}),
    'contextlib': Stub('contextlib', {'contextmanager': _contextmanager}),
    'copy': Stub('copy', {'deepcopy': _deepcopy}),
    'importlib': Stub('importlib', {'import_module': _import_module}),
    'enum': Stub('enum', {'Enum': enum.Enum}),
    'abc': Stub('abc', {'ABC': TypeToken('ABC', lambda x: False)}),
    'operator': Stub('operator', {}),
    'types': Stub('types', {'ModuleType': TypeToken('ModuleType', lambda x: False)}),
    'importlib.metadata': Stub('importlib.metadata', {'entry_points': lambda **k: []}),
}


def external(name):
    if name in EXTERNAL:
        return EXTERNAL[name]
    return Stub(name, {})


def opaque_getattr(obj, name):
    if name in obj.fields:
        return obj.fields[name]
    raise Unsupported('attribute %s of %r' % (name, obj))


Opaque.sym_getattr = lambda self, interp, name: opaque_getattr(self, name)


# ------------------------------------------------------------------------------------------------
# scipy
# ------------------------------------------------------------------------------------------------

BRENTQ_CALLS = []


@model('scipy.optimize.brentq', 'brentq(f, a, b): REQUIRES f returns a Python/0-d scalar (numpy >= 2 raises TypeError for a '
       '(1,) array) and f(a)*f(b) <= 0 (else ValueError "f(a) and f(b) must have different signs"); ENSURES the result '
       'r lies in [a, b] and f(r) = 0 (continuous f; xtol=2e-12 neglected)')
def sp_brentq(f, a, b, *args, **kw):
    I = _I()
    c = State.ctx
    fa = I.call(f, [Sym(to_term(a))], {})
    fb = I.call(f, [Sym(to_term(b))], {})
    for name, v in (('f(a)', fa), ('f(b)', fb)):
        if isinstance(v, (Lane, Arr2)):
            _raise('TypeError', 'only 0-dimensional arrays can be converted to Python scalars (brentq callback returned '
                   'an array for %s)' % name)
    fat, fbt = to_term(fa), to_term(fb)
    c.event('brentq_pre', {'a': to_term(a), 'b': to_term(b), 'fa': fat, 'fb': fbt}, State.where)
    if c.branch(ir.gt(ir.mul(fat, fbt), 0)):
        _raise('ValueError', 'f(a) and f(b) must have different signs')
    r = c.fresh('brentq_root')
    c.assume(ir.and_(ir.le(to_term(a), r), ir.le(r, to_term(b))))
    saved = State.safety
    State.safety = False           # f is defined on [a, b] if it is at the end points (checked above with safety on)
    try:
        fr = I.call(f, [Sym(r)], {})
        x = c.fresh('brentq_probe')
        c.assume(ir.and_(ir.le(to_term(a), x), ir.le(x, to_term(b))))
        fx = I.call(f, [Sym(x)], {})
    finally:
        State.safety = saved
    c.assume(ir.eq(to_term(fr), 0))
    c.event('brentq', {'a': to_term(a), 'b': to_term(b), 'fa': fat, 'fb': fbt, 'root': r, 'probe': x,
                       'f_probe': to_term(fx)}, State.where)
    return Sym(r)


SCIPY_OPTIMIZE = Stub('scipy.optimize', {'brentq': sp_brentq})
EXTERNAL['scipy.optimize'] = SCIPY_OPTIMIZE
EXTERNAL['scipy'] = Stub('scipy', {'optimize': SCIPY_OPTIMIZE})


class TupleLike(object):
    """scipy result objects that index / unpack like tuples"""
    def __init__(self, items, **attrs):
        self.items, self.attrs = list(items), attrs

    def sym_getitem(self, interp, key):
        return self.items[key]

    def sym_unpack(self, interp, n):
        if n != len(self.items):
            _raise('ValueError', 'too many values to unpack')
        return list(self.items)

    def sym_getattr(self, interp, name):
        if name in self.attrs:
            return self.attrs[name]
        raise Unsupported('attribute %s of a scipy result' % name)

    def sym_iter(self, interp):
        return list(self.items), False


def _whole(x):
    x = _num(x)
    if isinstance(x, Lane):
        return x.whole()
    if isinstance(x, Arr2):
        return x.whole()
    if hasattr(x, 'whole'):
        return x.whole()
    raise Unsupported('whole-array term of %r' % (x,))


@model('scipy.stats.kendalltau', 'kendalltau(U, V): [0] is Kendall tau-b of the two samples, a deterministic function of '
       '(U, V) with values in [-1, 1], NaN iff one of the samples is constant; [1] is the p-value; pure')
def st_kendalltau(u, v, **kw):
    wu, wv = _whole(u), _whole(v)
    tau = ir.uf('kendalltau', [wu, wv])
    values.NANABLE.add(tau)
    nan = ir.uf('isnan', [tau], 'B')
    c = State.ctx
    c.assume(ir.implies(ir.not_(nan), ir.and_(ir.ge(tau, -1), ir.le(tau, 1))))
    # NaN iff a constant column
    cu = ir.eq(ir.uf('n_unique', [wu], 'I'), 1)
    cv = ir.eq(ir.uf('n_unique', [wv], 'I'), 1)
    c.assume(ir.eq(nan, ir.or_(cu, cv)))
    if KENDALL_NONDEGENERATE[0]:
        # stated assumption of the vine checks: no (conditional) pseudo-observation vector is constant
        c.assume(ir.not_(nan))
        USED['assumption: non-degenerate pseudo-observations'] = (
            'vine checks: every vector handed to kendalltau (a column of u_matrix or a row of an edge\'s U) has at least two '
            'distinct values, so no Kendall tau is NaN (tables in general position; a NaN tau makes the tree builders fail)')
    c.event('libcall', ('kendalltau', [wu, wv]), State.where)
    return TupleLike([Sym(tau), Sym(ir.uf('kendalltau.p', [wu, wv]))], statistic=Sym(tau),
                     correlation=Sym(tau), pvalue=Sym(ir.uf('kendalltau.p', [wu, wv])))


QUAD_VAR = ir.var('$t')


@model('scipy.integrate.quad', 'quad(f, a, b): REQUIRES scalar limits (scipy >= 1.15 raises TypeError for array limits); '
       '[0] is the integral of f over [a, b] (a deterministic function of the integrand and the limits), [1] an error bound')
def sp_quad(f, a, b, *args, **kw):
    for lim in (a, b):
        if isinstance(lim, (Lane, Arr2)):
            _raise('TypeError', 'only 0-dimensional arrays can be converted to Python scalars (array passed as an '
                   'integration limit of quad)')
    saved = State.safety
    State.safety = False
    try:
        body = _I().call(f, [Sym(QUAD_VAR)], {})
    finally:
        State.safety = saved
    t = ir.uf('integral', [to_term(body), to_term(a), to_term(b)])
    State.ctx.event('libcall', ('quad', [to_term(body), to_term(a), to_term(b)]), State.where)
    return TupleLike([Sym(t), Sym(ir.uf('integral.err', [to_term(body), to_term(a), to_term(b)]))])


@model('scipy.optimize.least_squares', 'least_squares(fun, x0, bounds=(lo, hi)): calls fun with a (n,) ndarray; .x is an '
       '(n,) array inside the bounds at which fun vanishes when fun has a root in the bounds (convergence from any x0 is '
       'ASSUMED, nothing is claimed otherwise); deterministic in (fun, x0, bounds)')
def sp_least_squares(fun, x0, bounds=None, **kw):
    c = State.ctx
    lo, hi = (bounds if bounds is not None else (Sym(ir.NINF), Sym(ir.INF)))
    # the solution is a deterministic function of (fun, x0, bounds): fun is named by its residual at a canonical probe
    probe = ir.var('$lsq_probe')
    saved = State.safety
    State.safety = False
    try:
        rp = _I().call(fun, [Lane(probe, 1)], {})
    finally:
        State.safety = saved
    rpt = rp.t if isinstance(rp, (Lane, Sym)) else to_term(rp)
    x = ir.uf('lsq.x', [rpt, to_term(x0), to_term(lo), to_term(hi)])
    xl = Lane(x, 1)
    res = _I().call(fun, [xl], {})
    rt = res.t if isinstance(res, (Lane, Sym)) else to_term(res)
    c.assume(ir.and_(ir.le(to_term(lo), x), ir.le(x, to_term(hi))))
    # ENSURES residual(x) == 0 is handed to the contract through the event (kept out of the path condition: nothing
    # downstream in the library branches on it, and a non-linear equation over an uninterpreted integral makes
    # every later satisfiability query hard)
    c.event('libcall', ('least_squares', [to_term(x0), to_term(lo), to_term(hi)]), State.where)
    c.event('least_squares', {'x': x, 'residual': rt, 'x0': to_term(x0), 'ensures': ir.eq(rt, 0), 'lo': to_term(lo),
                              'hi': to_term(hi)}, State.where)
    return Opaque('lsq_result', x=Lane(x, 1))


SCIPY_OPTIMIZE._table['least_squares'] = sp_least_squares
SCIPY_STATS = Stub('scipy.stats', {'kendalltau': st_kendalltau})
SCIPY_INTEGRATE = Stub('scipy.integrate', {'quad': sp_quad})
EXTERNAL['scipy.stats'] = SCIPY_STATS
EXTERNAL['scipy.integrate'] = SCIPY_INTEGRATE
EXTERNAL['scipy']._table.update({'stats': SCIPY_STATS, 'integrate': SCIPY_INTEGRATE})


# ------------------------------------------------------------------------------------------------
# a few more numpy pieces used by select_copula
# ------------------------------------------------------------------------------------------------

def np_concatenate2(arrs, axis=0):
    lanes = []
    for a in arrs:
        a = _num(a)
        if isinstance(a, Lane):
            lanes.append(a)
        else:
            raise Unsupported('np.concatenate of %r' % (a,))
    w = ir.uf('concat', [x.whole() for x in lanes], 'U')
    n = Sym(ir.uf('len', [w], 'I'))
    return Lane(ir.uf('elem', [w, values.IDX]), n)


NP._table['concatenate'] = np_concatenate2


@model('np.argmax/argmin', 'np.argmax(a) / np.argmin(a): an index i with 0 <= i < len(a) attaining the extremum '
       '(first one on ties); deterministic in a')
def np_argmax(a, axis=None):
    return _argext('argmax', a)


def np_argmin(a, axis=None):
    return _argext('argmin', a)


def _argext(kind, a):
    c = State.ctx
    if isinstance(a, ConcArr):
        items = a.data
        k = len(items)
        w = ir.uf('vec', [to_term(x) for x in items], 'U')
        i = ir.uf('np.' + kind, [w], 'I')
        c.assume(ir.and_(ir.ge(i, 0), ir.lt(i, k)))
        for j, x in enumerate(items):
            tj = to_term(x)
            for j2, y in enumerate(items):
                if j2 != j:
                    cmp = ir.ge if kind == 'argmax' else ir.le
                    c.assume(ir.implies(ir.eq(i, j), cmp(tj, to_term(y))))
        return Sym(i)
    a = _num(a)
    if isinstance(a, Lane):
        i = ir.uf('np.' + kind, [a.whole()], 'I')
        c.assume(ir.and_(ir.ge(i, 0), ir.lt(i, to_term(a.length()))))
        return Sym(i)
    raise Unsupported('np.%s(%r)' % (kind, a))


NP._table['argmax'] = np_argmax
NP._table['argmin'] = np_argmin


class SeriesVec(object):
    """pd.Series over a concrete-length list of scalars (select_copula's score vectors)"""
    def __init__(self, items):
        self.items = list(items)

    def sym_getattr(self, interp, name):
        if name == 'rank':
            def rank(ascending=True, **kw):
                USED['pd.Series.rank'] = ('pandas Series.rank(ascending=...): a vector of the same length, deterministic '
                                          'function of the values (average ranks)')
                w = [to_term(x) for x in self.items]
                return SeriesVec([Sym(ir.uf('rank', [ir.const(bool(ascending)), ir.const(j)] + w)) for j in range(len(w))])
            return rank
        if name in ('to_numpy', 'values'):
            f = lambda *a, **k: ConcArr(list(self.items))
            return f if name == 'to_numpy' else f()
        raise Unsupported('pd.Series(list).' + name)

    def sym_binop(self, interp, op, other, reflected):
        if isinstance(other, SeriesVec) and len(other.items) == len(self.items) and op == 'Add':
            return SeriesVec([a + b for a, b in zip(self.items, other.items)])
        return NotImplemented

    def sym_len(self, interp):
        return len(self.items)


def _pd_series(data=None, index=None, **kw):
    from .interp import PyList
    if isinstance(data, (list, tuple)) and all(isinstance(x, (Sym, int, float)) for x in data) and index is None:
        return SeriesVec([(_num(x) if not isinstance(x, Sym) else x) for x in data])
    from . import pdmodel
    return pdmodel.make_series(data, index, **kw)


def _pd_dataframe(*a, **k):
    from . import pdmodel
    return pdmodel.make_frame(*a, **k)


class _PdType(TypeToken):
    def __init__(self, name, pred, ctor):
        TypeToken.__init__(self, name, pred)
        self.ctor = ctor

    def sym_call(self, interp, args, kwargs):
        return self.ctor(*args, **kwargs)


def _is_frame(x):
    return getattr(x, 'is_frame', False)


def _is_series(x):
    return getattr(x, 'is_series', False) or isinstance(x, SeriesVec)


PANDAS = Stub('pandas', {
    'Series': _PdType('pd.Series', _is_series, _pd_series),
    'DataFrame': _PdType('pd.DataFrame', _is_frame, _pd_dataframe),
})
EXTERNAL['pandas'] = PANDAS


# ------------------------------------------------------------------------------------------------
# scipy.stats distributions, gaussian_kde, kstest, special.ndtr
# ------------------------------------------------------------------------------------------------

DIST_SHAPES = {'norm': [], 'beta': ['a', 'b'], 'gamma': ['a'], 't': ['df'], 'loglaplace': ['c'],
               'truncnorm': ['a', 'b'], 'uniform': []}


def _map_lane(x, f):
    """apply an elementwise term function to a scalar / Lane / Arr2 column-wise"""
    x = _num(x)
    if isinstance(x, Lane):
        return Lane(f(x.t), x.n, x.mask)
    if isinstance(x, Sym):
        return Sym(f(x.t))
    if isinstance(x, Arr2):
        return Arr2([Lane(f(c.t), c.n, c.mask) for c in x.cols], x.n)
    if hasattr(x, 'sym_map'):
        return x.sym_map(f)
    if isinstance(x, ConcArr):
        return ConcArr(_deep_map(x.data, lambda d: Sym(f(to_term(d)))))
    raise Unsupported('elementwise scipy function on %r' % (x,))


class Dist(object):
    """scipy.stats.<name> (rv_continuous): ASSUMED CONTRACT. pdf/cdf/ppf/logpdf(X, **params) require keyword names
    among the distribution's shape names + loc + scale (TypeError otherwise) and are elementwise, deterministic
    functions of (x, params); cdf in [0,1] and non-decreasing, ppf its generalised inverse, pdf >= 0,
    logpdf = log(pdf); rvs(size, **params) draws `size` values consuming ONLY the global numpy generator;
    fit(X, ...) returns (shapes..., loc, scale) in that order, a deterministic function of X and its arguments."""
    def __init__(self, name):
        self.name = name

    def _params(self, kw):
        allowed = DIST_SHAPES[self.name] + ['loc', 'scale']
        for k in kw:
            if k not in allowed:
                _raise('TypeError', "%s got an unexpected keyword argument '%s'" % (self.name, k))
        missing = [k for k in DIST_SHAPES[self.name] if k not in kw]
        if missing:
            _raise('TypeError', '%s missing required shape parameters %s' % (self.name, missing))
        out = [to_term(kw[k]) for k in DIST_SHAPES[self.name]]
        out.append(to_term(kw.get('loc', 0)))
        out.append(to_term(kw.get('scale', 1)))
        return out

    def _elem(self, what, x, kw, positional=()):
        USED['scipy.stats.' + self.name] = Dist.__doc__
        if positional:
            names = DIST_SHAPES[self.name] + ['loc', 'scale']
            kw = dict(kw)
            for nm, v in zip(names, positional):
                kw[nm] = v
        ps = self._params(kw)
        if self.name == 'norm' and what in ('cdf', 'ppf'):
            loc, scale = ps
            if what == 'cdf':
                return _map_lane(x, lambda t: ir.ndtr(ir.div(ir.sub(t, loc), scale)))
            return _map_lane(x, lambda t: ir.add(loc, ir.mul(scale, ir.ndtri(t))))
        if what == 'logpdf':
            return _map_lane(x, lambda t: ir.log(ir.uf('pdf.' + self.name, [t] + ps)))
        r = _map_lane(x, lambda t: ir.uf('%s.%s' % (what, self.name), [t] + ps))
        c = State.ctx
        for lane in (r.cols if isinstance(r, Arr2) else [r]):
            t = lane.t
            if what == 'cdf':
                c.assume(ir.and_(ir.ge(t, 0), ir.le(t, 1)))
            elif what == 'pdf':
                c.assume(ir.ge(t, 0))
        return r

    def sym_getattr(self, interp, name):
        if name in ('pdf', 'cdf', 'ppf', 'logpdf', 'sf'):
            return lambda x, *a, **kw: self._elem(name, x, kw, a)
        if name == 'rvs':
            def rvs(*a, size=None, random_state=None, **kw):
                USED['scipy.stats.' + self.name] = Dist.__doc__
                names = DIST_SHAPES[self.name] + ['loc', 'scale']
                kw = dict(kw)
                for nm, v in zip(names, a):
                    kw[nm] = v
                ps = self._params(kw)
                n = size if size is not None else 1
                if isinstance(random_state, RandomStateObj):
                    # scipy draws from the given RandomState IN PLACE (the caller's object is advanced)
                    g = random_state.state
                    random_state.state = ir.uf('rng.next', [g, ir.const('rvs.' + self.name), to_term(n)], 'U')
                    State.ctx.event('rng_object', ('rvs.' + self.name, g), State.where)
                elif random_state is not None:
                    raise Unsupported('rvs with random_state=%r' % (random_state,))
                else:
                    g = RNG.advance('rvs.' + self.name, [n])
                t = ir.uf('rvs.%s.elem' % self.name, [g] + ps + [to_term(n), values.IDX])
                return Lane(t, n) if size is not None else Sym(t)
            return rvs
        if name == 'fit':
            def fit(X, *a, **kw):
                USED['scipy.stats.' + self.name] = Dist.__doc__
                w = _whole(X)
                extra = [to_term(v) for v in a] + [t for k in sorted(kw) for t in (ir.const(k), to_term(kw[k]))]
                k = len(DIST_SHAPES[self.name]) + 2
                names = DIST_SHAPES[self.name] + ['loc', 'scale']
                State.ctx.event('libcall', ('fit.' + self.name, [w] + extra), State.where)
                out = tuple(Sym(ir.uf('fit.%s.%s' % (self.name, names[j]), [w] + extra)) for j in range(k))
                # a fitted scale is positive on data that are not constant (assumed: scipy never returns scale = 0 there)
                State.ctx.assume(ir.implies(ir.gt(ir.uf('n_unique', [w], 'I'), 1), ir.gt(out[-1].t, 0)))
                # on a constant sample the fitted location is that constant (assumed; observed for scipy's t.fit)
                State.ctx.assume(ir.implies(ir.eq(ir.uf('n_unique', [w], 'I'), 1), ir.eq(out[-2].t, ir.uf('unique0', [w]))))
                return out
            return fit
        if name == 'nnlf':
            def nnlf(theta, X):
                return Sym(ir.uf('nnlf.' + self.name, [to_term(v) for v in theta] + [_whole(X)]))
            return nnlf
        if name == 'logpdf_attr':
            return True
        raise Unsupported('scipy.stats.%s.%s' % (self.name, name))


for _d in DIST_SHAPES:
    SCIPY_STATS._table[_d] = Dist(_d)


@model('scipy.stats.kstest', 'kstest(X, cdf): [0] is the Kolmogorov-Smirnov distance sup|F_n - cdf| >= 0, a deterministic '
       'function of the data and of the callable; [1] the p-value; the callable is evaluated on the data (it may raise)')
def st_kstest(X, cdf, *a, **kw):
    I = _I()
    vals = I.call(cdf, [_num(X) if not hasattr(X, 'sym_to_numpy') else X.sym_to_numpy(I)], {})
    wv = _whole(vals)
    ks = ir.uf('kstest', [_whole(X), wv])
    State.ctx.assume(ir.ge(ks, 0))
    return TupleLike([Sym(ks), Sym(ir.uf('kstest.p', [_whole(X), wv]))], statistic=Sym(ks))


SCIPY_STATS._table['kstest'] = st_kstest


class KdeObj(object):
    """scipy.stats.gaussian_kde instance: ASSUMED CONTRACT. gaussian_kde(dataset, bw_method, weights): .dataset is
    the (1, n) data, .weights >= 0 summing to 1, .covariance[0,0] = factor(bw_method, n)^2 * weighted variance > 0,
    .evaluate(x) = sum_j w_j * phi((x - x_j)/s)/s with s = sqrt(covariance[0,0]); .logpdf(x) = log(evaluate(x));
    .resample(size) returns a (1, size) array, consumes only the global numpy generator, and for size >= 2 its draws are not all equal (almost sure).
    A dataset with a single distinct value is refused with LinAlgError (singular covariance)."""
    JDX = ir.var('@j', 'I')

    def __init__(self, dataset, bw_method, weights):
        self.ds = dataset             # Lane-like (generic element over @i) or whole term
        self.bw, self.weights = bw_method, weights
        w = _whole(dataset)
        self.w = w
        self.key = [w, to_term(bw_method) if isinstance(bw_method, (Sym, int, float, str)) or bw_method is None
                    else ir.const(str(bw_method)),
                    _whole(weights) if weights is not None else ir.const(None)]
        self.cov = ir.uf('kde.cov', self.key)
        State.ctx.assume(ir.gt(self.cov, 0))

    def _j(self, t):
        """the dataset / weights seen at the summation index @j"""
        m = {}
        for v in ir.free_vars(t):
            if v.args[0].endswith('@i'):
                m[v] = ir.var(v.args[0][:-2] + '@j', v.sort)
            elif v is values.IDX:
                m[v] = KdeObj.JDX
        return ir.substitute(t, m)

    def sym_getattr(self, interp, name):
        USED['scipy.stats.gaussian_kde'] = KdeObj.__doc__
        if name == 'dataset':
            return KdeData(self)
        if name == 'covariance':
            return ConcArr([[Sym(self.cov)]])
        if name == 'weights':
            return KdeWeights(self)
        if name == 'factor':
            return Sym(ir.uf('kde.factor', self.key))
        if name in ('evaluate', 'pdf', '__call__'):
            return lambda X: _map_lane(X, lambda t: ir.uf('kde.evaluate', [t] + self.key))
        if name == 'logpdf':
            return lambda X: _map_lane(X, lambda t: ir.log(ir.uf('kde.evaluate', [t] + self.key)))
        if name == 'resample':
            def resample(size=None, seed=None):
                if seed is not None:
                    State.ctx.event('rng_foreign', 'resample(seed=...)', State.where)
                    raise Unsupported('gaussian_kde.resample with a seed')
                n = size if size is not None else Sym(ir.uf('kde.neff', self.key, 'I'))
                g = RNG.advance('kde.resample', [n])
                lane = Lane(ir.uf('kde.resample.elem', [g] + self.key + [to_term(n), values.IDX]), n)
                # assumed: draws from a continuous density are (almost surely) not all equal when there are two or more
                State.ctx.assume(ir.implies(ir.ge(to_term(n), 2), ir.ne(ir.uf('n_unique', [lane.whole()], 'I'), 1)))
                return RowsArr([lane])
            return resample
        raise Unsupported('gaussian_kde.' + name)

    def sym_call(self, interp, args, kwargs):
        return self.sym_getattr(interp, 'evaluate')(*args)


class KdeData(object):
    """model.dataset : shape (1, n), element x_j at the summation index"""
    is_ndarray = True

    def __init__(self, kde):
        self.kde = kde

    def elem_j(self):
        d = self.kde.ds
        if isinstance(d, Lane):
            return self.kde._j(d.t)
        return ir.uf('kde.data', [self.kde.w, KdeObj.JDX])

    def sym_binop(self, interp, op, other, reflected):
        # x[:, None] - dataset  ->  two-index element term
        if isinstance(other, Arr2) and len(other.cols) == 1 and op in ('Sub', 'Add'):
            x = other.cols[0]
            d = self.elem_j()
            t = (ir.sub(d, x.t) if not reflected else ir.sub(x.t, d)) if op == 'Sub' else ir.add(x.t, d)
            r = Lane2(t, x.n, self.kde)
            r.mask = x.mask
            return r
        if isinstance(other, (Sym, int, float)) and op in ('Sub', 'Add'):
            d = self.elem_j()
            o = to_term(other)
            t = (ir.sub(d, o) if not reflected else ir.sub(o, d)) if op == 'Sub' else ir.add(o, d)
            return LaneJ(t, self.kde)
        return NotImplemented


class KdeWeights(object):
    is_ndarray = True

    def __init__(self, kde):
        self.kde = kde

    def elem_j(self):
        w = self.kde.weights
        if isinstance(w, Lane):
            return self.kde._j(w.t)
        return ir.uf('kde.weight', self.kde.key + [KdeObj.JDX])


class LaneJ(object):
    """(1, n) array over the dataset index @j"""
    is_ndarray = True

    def __init__(self, t, kde):
        self.t, self.kde = t, kde

    def sym_binop(self, interp, op, other, reflected):
        if isinstance(other, (Sym, int, float)):
            f = {'Sub': ir.sub, 'Add': ir.add, 'Mult': ir.mul, 'Div': ir.div}.get(op)
            if f is None:
                return NotImplemented
            o = to_term(other)
            return LaneJ(f(o, self.t) if reflected else f(self.t, o), self.kde)
        return NotImplemented

    def sym_map(self, f):
        return LaneJ(f(self.t), self.kde)

    def sym_getitem(self, interp, key):
        if key == 0:
            return LaneJ1(self.t, self.kde)
        raise Unsupported('LaneJ index')


class LaneJ1(LaneJ):
    """1-d array over @j (row 0 of a (1, n) array)"""


class Lane2(object):
    """(m, n) array with element term over (@i evaluation point, @j dataset point)"""
    is_ndarray = True

    def __init__(self, t, n, kde):
        self.t, self.n, self.kde = t, n, kde

    def sym_binop(self, interp, op, other, reflected):
        f = {'Sub': ir.sub, 'Add': ir.add, 'Mult': ir.mul, 'Div': ir.div}.get(op)
        if f is None:
            return NotImplemented
        if isinstance(other, (Sym, int, float)):
            o = to_term(other)
        elif isinstance(other, (LaneJ,)):
            o = other.t
        elif isinstance(other, Lane2):
            o = other.t
        else:
            return NotImplemented
        r = Lane2(f(o, self.t) if reflected else f(self.t, o), self.n, self.kde)
        r.mask = getattr(self, 'mask', None)
        return r

    def sym_map(self, f):
        r = Lane2(f(self.t), self.n, self.kde)
        r.mask = getattr(self, 'mask', None)
        return r

    def sym_getattr(self, interp, name):
        if name == 'dot':
            def dot(w):
                if isinstance(w, KdeWeights):
                    wt = w.elem_j()
                elif isinstance(w, (LaneJ,)):
                    wt = w.t
                else:
                    raise Unsupported('dot with %r' % (w,))
                summand = ir.mul(self.t, wt)
                if summand is ir.ZERO:
                    return Lane(ir.ZERO, self.n, getattr(self, 'mask', None))               # a sum of zeros
                return Lane(ir.uf('sum@j', [summand, self.kde.w]), self.n, getattr(self, 'mask', None))
            return dot
        raise Unsupported('Lane2.' + name)


class _GaussianKde(TypeToken):
    def sym_call(self, interp, args, kwargs):
        ds = args[0]
        if isinstance(ds, GenList):
            ds = ds.lane
        if isinstance(ds, RowsArr) and len(ds.rows) == 1:
            ds = ds.rows[0]
        from .interp import PyList
        if isinstance(ds, PyList) and len(ds) == 1 and isinstance(ds[0], GenList):
            ds = ds[0].lane
        # assumed contract: a dataset with a single distinct value has a singular covariance and is refused
        if isinstance(ds, Lane):
            try:
                k = np_unique(ds).k
                one = k.t if isinstance(k, Sym) else ir.const(k)
                if State.ctx.branch(ir.eq(one, 1)):
                    _raise('LinAlgError', 'The data appears to lie in a lower-dimensional subspace of the space in which it is '
                           'expressed. This has resulted in a singular data covariance matrix')
            except Unsupported:
                pass
        return KdeObj(ds, kwargs.get('bw_method', args[1] if len(args) > 1 else None),
                      kwargs.get('weights', args[2] if len(args) > 2 else None))

    def sym_getattr(self, interp, name):
        if name == 'logpdf':
            # an unbound instance method: calling it on the class needs the instance as first argument
            def logpdf(*a, **kw):
                if kw:
                    _raise('TypeError', "gaussian_kde.logpdf() got an unexpected keyword argument '%s'" % sorted(kw)[0])
                raise Unsupported('gaussian_kde.logpdf called on the class')
            return logpdf
        if name in ('pdf', 'cdf', 'ppf', 'rvs'):
            _raise('AttributeError', "type object 'gaussian_kde' has no attribute '%s'" % name)
        raise Unsupported('gaussian_kde.' + name)


SCIPY_STATS._table['gaussian_kde'] = _GaussianKde('gaussian_kde', lambda x: isinstance(x, KdeObj))


@model('scipy.special.ndtr', 'ndtr is the standard normal CDF Phi (elementwise): strictly increasing, range (0,1), '
       'Phi(-x) = 1 - Phi(x)')
def sp_ndtr(x):
    return _map_lane(x, ir.ndtr)


EXTERNAL['scipy.special'] = Stub('scipy.special', {'ndtr': sp_ndtr})
EXTERNAL['scipy']._table['special'] = EXTERNAL['scipy.special']


@model('scipy.optimize.fmin_slsqp', 'fmin_slsqp(f, x0, bounds=[(l1,u1),(l2,u2)], ...): returns a point inside the bounds, '
       'a deterministic function of (f, x0, bounds); optimality is NOT assumed')
def sp_fmin_slsqp(f, x0, iprint=None, bounds=None, **kw):
    c = State.ctx
    x0t = [to_term(v) for v in x0]
    bt = [t for (lo, hi) in (bounds or []) for t in (to_term(lo), to_term(hi))]
    probe = [Sym(ir.var('$slsqp_probe%d' % j)) for j in range(len(x0))]       # canonical names: the objective's identity
    saved = State.safety
    State.safety = False
    try:
        fval = _I().call(f, [tuple(probe)], {})
    finally:
        State.safety = saved
    key = [to_term(fval)] + [p.t for p in probe] + x0t + bt
    out = []
    for j in range(len(x0)):
        x = ir.uf('slsqp.x%d' % j, x0t + bt + [ir.uf('objective', [to_term(fval)] + [p.t for p in probe], 'U')])
        if bounds:
            lo, hi = bounds[j]
            c.assume(ir.and_(ir.le(to_term(lo), x), ir.le(x, to_term(hi))))
        out.append(Sym(x))
    c.event('libcall', ('fmin_slsqp', x0t + bt), State.where)
    c.event('fmin_slsqp', {'objective': to_term(fval), 'probe': [p.t for p in probe], 'x0': x0t, 'bounds': bt}, State.where)
    return tuple(out)


SCIPY_OPTIMIZE._table['fmin_slsqp'] = sp_fmin_slsqp


# ------------------------------------------------------------------------------------------------
# small concrete-shape linear algebra (correlation matrices, conditional distributions)
# ------------------------------------------------------------------------------------------------

def _ca_elem(op, a, b):
    import ast as _ast
    return _I().binop(getattr(_ast, op)(), a, b)


def _ca_data(x):
    if isinstance(x, ConcArr):
        return x.data
    if hasattr(x, 'is_series') and hasattr(x, 'vals'):
        return list(x.vals)
    if hasattr(x, 'is_frame') and hasattr(x, 'data'):
        return [list(r) for r in x.data]
    return None


def _concarr_binop(self, interp, op, other, reflected):
    a = self.data
    b = _ca_data(other)
    if op == 'MatMult':
        if b is None:
            return NotImplemented
        A, B = (b, a) if reflected else (a, b)
        return ConcArr(_matmul(A, B)) if True else None
    if b is None:
        if isinstance(other, (Sym, int, float)):
            def rec(d):
                if isinstance(d, list):
                    return [rec(x) for x in d]
                return _ca_elem(op, other, d) if reflected else _ca_elem(op, d, other)
            return ConcArr(rec(a))
        return NotImplemented

    def rec2(x, y):
        if isinstance(x, list) and isinstance(y, list):
            if len(x) != len(y):
                raise Unsupported('shape mismatch in small-array arithmetic')
            return [rec2(p, q) for p, q in zip(x, y)]
        if isinstance(x, list):
            return [rec2(p, y) for p in x]
        if isinstance(y, list):
            return [rec2(x, q) for q in y]
        return _ca_elem(op, y, x) if reflected else _ca_elem(op, x, y)
    return ConcArr(rec2(a, b))


def _matmul(A, B):
    def is2(M):
        return bool(M) and isinstance(M[0], list)
    add = lambda xs: functools.reduce(lambda p, q: _ca_elem('Add', p, q), xs) if xs else 0
    if is2(A) and is2(B):
        return [[add([_ca_elem('Mult', A[i][k], B[k][j]) for k in range(len(B))]) for j in range(len(B[0]))]
                for i in range(len(A))]
    if is2(A) and not is2(B):
        if A and len(A[0]) != len(B):
            _raise('ValueError', 'matmul: shapes not aligned')
        return [add([_ca_elem('Mult', A[i][k], B[k]) for k in range(len(B))]) for i in range(len(A))]
    if not is2(A) and is2(B):
        return [add([_ca_elem('Mult', A[k], B[k][j]) for k in range(len(A))]) for j in range(len(B[0]))]
    return add([_ca_elem('Mult', x, y) for x, y in zip(A, B)])


ConcArr.sym_binop = _concarr_binop
ConcArr.readonly = False
_old_ca_setitem = ConcArr.sym_setitem


def _ca_setitem(self, interp, key, v):
    if getattr(self, 'readonly', False):
        _raise('ValueError', 'assignment destination is read-only')
    owner = getattr(self, 'owner', None)
    if owner is not None:
        State.ctx.event('mutate', owner, State.where)
    return _old_ca_setitem(self, interp, key, v)


ConcArr.sym_setitem = _ca_setitem


def _ca_nan_to_num(self, interp, nan=0.0):
    def rec(d):
        if isinstance(d, list):
            return [rec(x) for x in d]
        t = to_term(d)
        return Sym(ir.ite(values._fn1('isnan', t), to_term(nan), t))
    return ConcArr(rec(self.data))


ConcArr.sym_nan_to_num = _ca_nan_to_num
ConcArr.sym_isnan = lambda self, interp: ConcArr(_deep_map(self.data, lambda d: Sym(values._fn1('isnan', to_term(d)))))


def _deep_map(d, f):
    return [_deep_map(x, f) for x in d] if isinstance(d, list) else f(d)


def _mat_terms(M):
    d = _ca_data(M) if not isinstance(M, list) else M
    if d is None:
        raise Unsupported('matrix argument %r' % (M,))
    return [to_term(x) for x in _flat(d)] if d and isinstance(d[0], list) else [to_term(x) for x in d]


@model('np.linalg.cond/inv', 'np.linalg.cond(A): the 2-norm condition number (a deterministic function of A, >= 1, +inf for a '
       'singular matrix); np.linalg.inv(A): the matrix inverse (deterministic function of A)')
def np_linalg_cond(A):
    ts = _mat_terms(A)
    t = ir.uf('cond', ts)
    State.ctx.assume(ir.ge(t, 1))
    return Sym(t)


def np_linalg_inv(A):
    d = _ca_data(A)
    ts = _mat_terms(A)
    n = len(d)
    return ConcArr([[Sym(ir.uf('inv', ts + [ir.const(i), ir.const(j)])) for j in range(n)] for i in range(n)])


def np_linalg_solve(A, B):
    """solve(A, B) = A^-1 B, expressed with the same uninterpreted inverse as np.linalg.inv (so that code using one or the
    other computes the same terms)"""
    USED['np.linalg.solve'] = 'np.linalg.solve(A, B): the solution X of A X = B, i.e. inv(A) @ B (deterministic function of A, B)'
    return _concarr_binop(np_linalg_inv(A), _I(), 'MatMult', B, False)


NP._table['linalg'] = Stub('numpy.linalg', {'cond': np_linalg_cond, 'inv': np_linalg_inv, 'solve': np_linalg_solve})
def np_isinf(x):
    f = lambda t: ir.or_(ir.eq(t, ir.INF), ir.eq(t, ir.NINF))
    if isinstance(x, Lane):
        return x.fresh_like(f(x.t))
    if isinstance(x, Sym):
        return Sym(f(x.t))
    if isinstance(x, Arr2):
        return Arr2([c.fresh_like(f(c.t)) for c in x.cols], x.n)
    if isinstance(x, (int, float)):
        return x in (float('inf'), float('-inf'))
    raise Unsupported('np.isinf(%r)' % (x,))


def np_full_like(a, val, dtype=None):
    # the result takes shape AND dtype from `a`; the executor's arrays are float64 (stated assumption: integer-typed arrays
    # are outside the deductive part, see the bounded integer-bracket stand-in of C18)
    if isinstance(a, Lane):
        return Lane(to_term(val), a.n, a.mask)
    if isinstance(a, Arr2):
        return Arr2([Lane(to_term(val), a.n) for _ in a.cols], a.n)
    raise Unsupported('np.full_like(%r)' % (a,))


NP._table['full_like'] = np_full_like
NP._table['isinf'] = np_isinf
NP._table['errstate'] = lambda *a, **k: _WarnCM()     # floating-point warnings only: no effect on values (reals)
NP._table['ascontiguousarray'] = lambda x, dtype=None, **k: np_asarray(x, dtype)


def _np_zeros2(shape, dtype=None):
    if isinstance(shape, int) and not isinstance(shape, bool):
        return ConcArr([0] * shape)
    if isinstance(shape, (list, tuple)) and len(shape) == 2 and all(isinstance(s, int) for s in shape):
        return ConcArr([[0] * shape[1] for _ in range(shape[0])])
    if isinstance(shape, (list, tuple)) and len(shape) == 1 and isinstance(shape[0], int):
        return ConcArr([0] * shape[0])
    return np_zeros(shape, dtype)


def _np_full2(shape, val, dtype=None):
    if isinstance(shape, int) and not isinstance(shape, bool):
        return ConcArr([val] * shape)
    return np_full(shape, val, dtype)


def _np_empty(shape, dtype=None):
    USED['np.empty'] = 'np.empty(shape): a fresh array whose cells are UNDEFINED until written (reading one is a safety violation)'
    if isinstance(shape, int):
        shape = [shape]
    # an uninitialised cell holds an ARBITRARY value: a fresh variable named undef!k. A result depends on
    # uninitialised memory iff such a variable reaches an observable term or a branch condition.
    if isinstance(shape, (list, tuple)) and all(isinstance(s, int) for s in shape):
        def mk(dims):
            if len(dims) == 1:
                return [Sym(State.ctx.fresh('undef')) for _ in range(dims[0])]
            return [mk(dims[1:]) for _ in range(dims[0])]
        return ConcArr(mk(list(shape)))
    if isinstance(shape, (list, tuple)) and len(shape) == 2 and isinstance(shape[1], int):
        n = shape[0]
        return Arr2([Lane(ir.var(State.ctx.fresh('undef').args[0] + '@i'), n) for _ in range(shape[1])], n)
    if isinstance(shape, (list, tuple)) and len(shape) == 1:
        return Lane(ir.var(State.ctx.fresh('undef').args[0] + '@i'), shape[0])
    raise Unsupported('np.empty with shape %r' % (shape,))


NP._table.update({'zeros': _np_zeros2, 'full': _np_full2, 'empty': _np_empty,
                  'arange': lambda n, **k: ConcArr(list(range(n if isinstance(n, int) else _I().concrete_index(n))))})


@model('np.random.multivariate_normal', 'np.random.multivariate_normal(mean, cov, size=n): n draws from N(mean, cov) as an '
       '(n, d) array; a deterministic function of the global generator state, mean and cov; consumes only the global state')
def np_random_mvn(mean, cov, size=None, **kw):
    mt = _mat_terms(mean) if not isinstance(mean, Lane) else [mean.whole()]
    ct = _mat_terms(cov)
    d = len(mt)
    n = size if size is not None else 1
    g = RNG.advance('multivariate_normal', [n])
    cols = [Lane(ir.uf('mvn.draw', [g, ir.const(k)] + mt + ct + [to_term(n), values.IDX]), n) for k in range(d)]
    State.ctx.event('mvn_draw', {'mean': mt, 'cov': ct, 'n': to_term(n), 'state': g}, State.where)
    return Arr2(cols, n)


NP_RANDOM._table['multivariate_normal'] = np_random_mvn


class _MvnDist(object):
    """scipy.stats.multivariate_normal: ASSUMED CONTRACT. pdf(Z, cov=C, allow_singular=...) is the zero-mean normal
    density with covariance C evaluated row by row; cdf(Z, cov=C) the corresponding CDF (in [0,1], non-decreasing in
    each coordinate, computed by a randomised quasi-Monte-Carlo integration for d >= 3 up to abseps = 1e-5)."""
    def sym_getattr(self, interp, name):
        if name in ('pdf', 'cdf', 'logpdf'):
            def f(Z, mean=None, cov=1, allow_singular=False, **kw):
                USED['scipy.stats.multivariate_normal'] = _MvnDist.__doc__
                ct = _mat_terms(cov)
                if isinstance(Z, Arr2):
                    zs = [c.t for c in Z.cols]
                    t = ir.uf('mvn.' + name, zs + ct + [ir.const(bool(allow_singular))])
                    if name == 'cdf':
                        State.ctx.assume(ir.and_(ir.ge(t, 0), ir.le(t, 1)))
                    if name == 'pdf':
                        State.ctx.assume(ir.ge(t, 0))
                    State.ctx.event('mvn_eval', {'what': name, 'z': zs, 'cov': ct, 'allow_singular': bool(allow_singular),
                                                 'mean': mean}, State.where)
                    return Lane(t, Z.n) if not values._is_one(Z.n) else Lane(t, 1)
                raise Unsupported('multivariate_normal.%s on %r' % (name, Z))
            return f
        raise Unsupported('multivariate_normal.' + name)


class _FrozenMvn(object):
    def __init__(self, dist, mean, cov, allow_singular):
        self.dist, self.mean, self.cov, self.allow_singular = dist, mean, cov, allow_singular

    def sym_getattr(self, interp, name):
        f = self.dist.sym_getattr(interp, name)
        return lambda Z: f(Z, mean=self.mean, cov=self.cov, allow_singular=self.allow_singular)


def _mvn_call(self, interp, args, kwargs):
    return _FrozenMvn(self, kwargs.get('mean', args[0] if args else None), kwargs.get('cov', args[1] if len(args) > 1 else 1),
                      kwargs.get('allow_singular', False))


_MvnDist.sym_call = _mvn_call
SCIPY_STATS._table['multivariate_normal'] = _MvnDist()

_old_num = _num


def _num(x):                                   # noqa: F811  (extends the earlier helper with pandas columns)
    if hasattr(x, 'is_series') and hasattr(x, 'lane'):
        return x.lane
    return _old_num(x)


_old_lib_getattr = lib_getattr


def lib_getattr(interp, obj, name):             # noqa: F811
    if isinstance(obj, bool) and name in ('any', 'all'):
        return lambda *a, **k: obj
    return _old_lib_getattr(interp, obj, name)


def _lane_clip(self, lo, hi):
    return values.clip(self, _num(lo), _num(hi))


Lane.clip = _lane_clip
Arr2.clip = lambda self, lo, hi: Arr2([values.clip(c, _num(lo), _num(hi)) for c in self.cols], self.n)


class LinAlgErrorCls(Exception):
    pass


def np_linalg_cholesky(A):
    USED['np.linalg.cholesky'] = ('np.linalg.cholesky(A): returns the Cholesky factor iff A is (numerically) positive '
                                  'definite - an uninterpreted predicate is_pd(A) - and raises LinAlgError otherwise')
    ts = _mat_terms(A)
    if not State.ctx.branch(ir.uf('is_pd', ts, 'B')):
        from .interp import PyRaise, ExcVal
        raise PyRaise(ExcVal(LinAlgErrorCls, ['Matrix is not positive definite']))
    d = _ca_data(A)
    n = len(d)
    return ConcArr([[Sym(ir.uf('chol', ts + [ir.const(i), ir.const(j)])) for j in range(n)] for i in range(n)])


NP._table['linalg']._table.update({'cholesky': np_linalg_cholesky, 'LinAlgError': LinAlgErrorCls})


# ------------------------------------------------------------------------------------------------
# plotly (assumed contract: one trace per distinct value of the `color` column, holding exactly the rows with that
# value, in order, at the requested x/y[/z] columns)
# ------------------------------------------------------------------------------------------------

class FigObj(object):
    def __init__(self, kind, info):
        self.kind, self.info = kind, info

    def sym_getattr(self, interp, name):
        if name in ('update_layout', 'update_traces', 'show', 'update_xaxes', 'update_yaxes'):
            return lambda *a, **k: self
        if name == 'data':
            from .interp import PyList
            return PyList([Opaque('trace', None, x=None, y=None) for _ in range(4)])
        raise Unsupported('Figure.' + name)


def _px(kind):
    def f(data_frame=None, x=None, y=None, z=None, color=None, color_discrete_map=None, symbol=None, **kw):
        USED['plotly.express.' + kind] = ('px.%s(df, x, y[, z], color=c): REQUIRES the named columns to exist in df; the figure '
                                          'has one trace per distinct value of column c with exactly the rows of df having '
                                          'that value, in order' % kind)
        info = {'frame': data_frame, 'x': x, 'y': y, 'z': z, 'color': color, 'symbol': symbol,
                'color_map': color_discrete_map}
        labels = getattr(data_frame, 'labels', None)
        if labels is not None:
            for nm in (x, y, z, color):
                if nm is not None and nm not in labels:
                    _raise('ValueError', "Value of '%s' is not the name of a column in 'data_frame'" % (nm,))
        State.ctx.event('plot', dict(info, kind=kind), State.where)
        return FigObj(kind, info)
    return f


def _ff_distplot(hist_data=None, group_labels=None, **kw):
    USED['plotly.figure_factory.create_distplot'] = 'create_distplot(hist_data, group_labels): one density trace per data set'
    State.ctx.event('plot', {'kind': 'distplot', 'data': hist_data, 'labels': group_labels}, State.where)
    return FigObj('distplot', {'data': hist_data})


EXTERNAL['plotly'] = Stub('plotly', {})
EXTERNAL['plotly.express'] = Stub('plotly.express', {'scatter': _px('scatter'), 'scatter_3d': _px('scatter_3d')})
EXTERNAL['plotly.figure_factory'] = Stub('plotly.figure_factory', {'create_distplot': _ff_distplot})


# ------------------------------------------------------------------------------------------------
# files, json, pickle (ghost file system)
# ------------------------------------------------------------------------------------------------

class FileObj(object):
    def __init__(self, path, mode):
        self.path, self.mode = path, mode

    def cm_enter(self, interp):
        return self

    def cm_exit(self, interp, exc):
        return False


def _open(path, mode='r', *a, **k):
    return FileObj(path, mode)


BUILTINS['open'] = _open


def _fs():
    c = State.ctx
    if not hasattr(c, 'fs') or c.fs is None:
        c.fs = {}
    return c.fs


def _jsonify(x):
    """json round trip of Python data: dict keys become str, tuples lists, floats/ints/str/bool/None unchanged;
    anything else (set, ndarray, enum ...) is a TypeError"""
    from .interp import PyList
    if isinstance(x, (Sym, str, int, float, bool)) or x is None:
        return x
    if isinstance(x, (list, tuple)):
        if isinstance(x, PyList) and x.gen is not None:
            return x
        return PyList([_jsonify(v) for v in x])
    if isinstance(x, GenList):
        return x
    if isinstance(x, dict):
        return {(k if isinstance(k, str) else str(k)): _jsonify(v) for k, v in x.items()}
    _raise('TypeError', 'Object of type %s is not JSON serializable' % type(x).__name__)


@model('json.dump/load', 'json.dump(obj, f) then json.load(f) on the same path returns a structurally equal copy of obj made of '
       'JSON types (tuples become lists, keys strings, floats round-trip exactly); non-JSON leaves raise TypeError')
def _json_dump(obj, f, **k):
    _fs()[f.path] = ('json', _jsonify(obj))


def _json_load(f, **k):
    kind, v = _fs().get(f.path, (None, None))
    if kind != 'json':
        _raise('FileNotFoundError', f.path)
    return _jsonify(v)


@model('pickle.dump/load', 'pickle.dump(obj, f) then pickle.load(f) returns a structurally equal deep copy of obj')
def _pickle_dump(obj, f, **k):
    _fs()[f.path] = ('pickle', _deep_copy(obj))


def _pickle_load(f, **k):
    kind, v = _fs().get(f.path, (None, None))
    if kind != 'pickle':
        _raise('FileNotFoundError', f.path)
    return _deep_copy(v)


EXTERNAL['json'] = Stub('json', {'dump': _json_dump, 'load': _json_load, 'dumps': lambda o, **k: ('json', _jsonify(o)),
                                 'loads': lambda s, **k: _jsonify(s[1])})
EXTERNAL['pickle'] = Stub('pickle', {'dump': _pickle_dump, 'load': _pickle_load})


# ------------------------------------------------------------------------------------------------
# small concrete-shape arrays, second part: numpy indexing (views / copies / masks), sorting, extrema
# (used by the vine / tree builders, whose arrays have shape (d, d) or (d, 3) with d concrete)
# ------------------------------------------------------------------------------------------------

def _ca_shape_paths(data, prefix=()):
    if isinstance(data, list):
        return [_ca_shape_paths(x, prefix + (i,)) for i, x in enumerate(data)]
    return prefix


class ConcView(ConcArr):
    """basic-index view of a ConcArr: shares the cells of its root (writes go through, read-only flag inherited)"""

    def __init__(self, root, paths):
        self.root, self.paths = root, paths

    @property
    def data(self):
        return _deep_map(self.paths, lambda p: _ca_cell(self.root._store(), p)) if isinstance(self.paths, list) else None

    @property
    def readonly(self):
        return getattr(self.root, 'readonly', False)

    @property
    def owner(self):
        return getattr(self.root, 'owner', None)


def _deep_map_paths(d, f):
    """like _deep_map, but leaves are tuples (paths)"""
    return [_deep_map_paths(x, f) for x in d] if isinstance(d, list) else f(d)


_deep_map = lambda d, f: [_deep_map(x, f) for x in d] if isinstance(d, list) else f(d)      # noqa: E731


def _ca_cell(store, path):
    r = store
    for k in path:
        r = r[k]
    return r


def _ca_store_of(arr):
    return arr.root._store() if isinstance(arr, ConcView) else arr.__dict__['data']


ConcArr._store = lambda self: self.__dict__['data']
ConcView._store = lambda self: self.root._store()


def _ca_own_paths(arr):
    if isinstance(arr, ConcView):
        return arr.paths
    return _ca_shape_paths(arr.__dict__['data'])


def _ca_root(arr):
    return arr.root if isinstance(arr, ConcView) else arr


def _ca_concrete_int(k, size):
    """an index value as a python int; a symbolic integer is resolved by case split over 0..size-1"""
    if isinstance(k, bool):
        return int(k)
    if isinstance(k, int):
        return k
    if isinstance(k, Sym):
        n = ir._num(k.t)
        if n is not None:
            return int(n)
        if k.t.sort in ('I', 'R'):
            for i in range(size):
                if State.ctx.branch(ir.eq(k.t, i)):
                    return i
            _raise('IndexError', 'index out of bounds')
    if isinstance(k, float) and k == int(k):
        _raise('IndexError', 'only integers, slices (`:`), ellipsis (`...`), numpy.newaxis (`None`) and integer or '
               'boolean arrays are valid indices')
    raise Unsupported('array index %r' % (k,))


def _ca_bool(v):
    if isinstance(v, bool):
        return v
    if isinstance(v, Sym) and v.t.sort == 'B':
        if v.t is ir.TRUE:
            return True
        if v.t is ir.FALSE:
            return False
        return v
    return None


def _ca_selector(k, size):
    """-> ('int', i) | ('slice', [i...]) | ('fancy', [i...]) | ('mask', [bool|Sym...])"""
    if isinstance(k, slice):
        return 'slice', list(range(size))[k]
    if isinstance(k, ConcArr):
        flat = _flat(k.data) if k.data and isinstance(k.data[0], list) else list(k.data)
        if flat and all(_ca_bool(v) is not None for v in flat):
            return 'mask', [_ca_bool(v) for v in flat]
        return 'fancy', [_ca_concrete_int(v, size) for v in flat]
    if isinstance(k, (list, tuple)):
        flat = []
        for v in k:
            if isinstance(v, ConcArr):
                flat.extend(_flat(v.data) if v.data and isinstance(v.data[0], list) else list(v.data))
            elif isinstance(v, (list, tuple)):
                flat.extend(v)
            else:
                flat.append(v)
        if flat and all(isinstance(v, bool) for v in flat):
            return 'mask', flat
        return 'fancy', [_ca_concrete_int(v, size) for v in flat]
    return 'int', _ca_concrete_int(k, size)


def _ca_norm(i, size):
    if i < 0:
        i += size
    if not 0 <= i < size:
        _raise('IndexError', 'index %d is out of bounds for axis with size %d' % (i, size))
    return i


def _ca_select(paths, key):
    """numpy indexing on a nested list of cell paths -> (selected nested paths | single path, is_view, sym_mask|None)"""
    is2 = bool(paths) and isinstance(paths[0], list)
    nrows = len(paths)
    ncols = len(paths[0]) if is2 else None
    if isinstance(key, ConcArr) and is2 and key.data and isinstance(key.data[0], list) and \
            all(_ca_bool(v) is not None for v in _flat(key.data)):
        # full-shape boolean mask over a 2-d array
        flat_p = [p for row in paths for p in row]
        flat_m = [_ca_bool(v) for v in _flat(key.data)]
        if len(flat_p) != len(flat_m):
            _raise('IndexError', 'boolean index did not match indexed array')
        return _ca_apply_mask(flat_p, flat_m)
    if not isinstance(key, tuple):
        key = (key,)
    if len(key) > (2 if is2 else 1):
        _raise('IndexError', 'too many indices for array')
    k0, s0 = _ca_selector(key[0], nrows)
    if not is2:
        if k0 == 'int':
            return paths[_ca_norm(s0, nrows)], True, None
        if k0 == 'mask':
            if len(s0) != nrows:
                _raise('IndexError', 'boolean index did not match indexed array')
            return _ca_apply_mask(paths, s0)
        return [paths[_ca_norm(i, nrows)] for i in s0], k0 == 'slice', None
    k1, s1 = _ca_selector(key[1], ncols) if len(key) == 2 else ('slice', list(range(ncols)))
    if k0 == 'mask' or k1 == 'mask':
        if k0 == 'mask' and any(isinstance(b, Sym) for b in s0) or k1 == 'mask' and any(isinstance(b, Sym) for b in s1):
            raise Unsupported('symbolic per-axis boolean mask')
        if k0 == 'mask':
            k0, s0 = 'fancy', [i for i, b in enumerate(s0) if b]
        if k1 == 'mask':
            k1, s1 = 'fancy', [i for i, b in enumerate(s1) if b]
    if k0 == 'int' and k1 == 'int':
        return paths[_ca_norm(s0, nrows)][_ca_norm(s1, ncols)], True, None
    if k0 == 'int':
        row = paths[_ca_norm(s0, nrows)]
        return [row[_ca_norm(j, ncols)] for j in s1], k1 == 'slice', None
    if k1 == 'int':
        j = _ca_norm(s1, ncols)
        return [paths[_ca_norm(i, nrows)][j] for i in s0], k0 == 'slice', None
    if k0 == 'fancy' and k1 == 'fancy':
        if len(s0) != len(s1):
            raise Unsupported('broadcast of two index arrays')
        return [paths[_ca_norm(i, nrows)][_ca_norm(j, ncols)] for i, j in zip(s0, s1)], False, None
    return [[paths[_ca_norm(i, nrows)][_ca_norm(j, ncols)] for j in s1] for i in s0], k0 == 'slice' and k1 == 'slice', None


def _ca_apply_mask(flat_paths, flat_mask):
    if any(isinstance(b, Sym) for b in flat_mask):
        return list(flat_paths), False, list(flat_mask)          # symbolic mask: only meaningful for a store
    return [p for p, b in zip(flat_paths, flat_mask) if b], False, None


def _ca_getitem2(self, interp, key):
    if isinstance(key, values.GenIndex):
        raise Unsupported('generic index into a small array')
    sel, is_view, smask = _ca_select(_ca_own_paths(self), key)
    if smask is not None:
        raise Unsupported('read through a symbolic boolean mask')
    store = _ca_store_of(self)
    if isinstance(sel, tuple):
        return _ca_cell(store, sel)
    if is_view:
        return ConcView(_ca_root(self), sel)
    return ConcArr(_deep_map_paths(sel, lambda p: _ca_cell(store, p)))


def _ca_setitem2(self, interp, key, v):
    if getattr(self, 'readonly', False):
        _raise('ValueError', 'assignment destination is read-only')
    owner = getattr(self, 'owner', None)
    if owner is not None:
        State.ctx.event('mutate', owner, State.where)
    sel, _view, smask = _ca_select(_ca_own_paths(self), key)
    store = _ca_store_of(self)

    def put(path, val):
        r = store
        for k in path[:-1]:
            r = r[k]
        r[path[-1]] = val
    vdata = _ca_data(v) if not isinstance(v, (Sym, int, float, bool)) else None
    if isinstance(v, Lane):
        raise Unsupported('store of a symbolic-length array into a small array')
    if isinstance(sel, tuple):
        if vdata is not None:
            if len(vdata) == 1 and not isinstance(vdata[0], list):
                vdata = vdata[0]
            else:
                _raise('ValueError', 'setting an array element with a sequence.')
            v = vdata
        put(sel, v)
        return
    if smask is not None:
        if vdata is not None:
            raise Unsupported('array value under a symbolic mask')
        for p, b in zip(sel, smask):
            if b is True:
                put(p, v)
            elif b is not False:
                if not State.ctx.feasible(b.t):
                    continue
                if not State.ctx.feasible(ir.not_(b.t)):
                    put(p, v)
                    continue
                old = _ca_cell(store, p)
                put(p, Sym(ir.ite(b.t, to_term(v), to_term(old))))
        return

    def bcast(paths, val):
        if isinstance(paths, tuple):
            put(paths, val)
        elif isinstance(val, list):
            if len(val) == len(paths):
                for p, x in zip(paths, val):
                    bcast(p, x)
            elif len(val) == 1:
                for p in paths:
                    bcast(p, val[0])
            elif paths and isinstance(paths[0], list) and len(val) == len(paths[0]):
                for p in paths:
                    bcast(p, val)
            else:
                _raise('ValueError', 'could not broadcast input array from shape (%d,) into shape (%d,)' % (len(val), len(paths)))
        else:
            for p in paths:
                bcast(p, val)
    bcast(sel, vdata if vdata is not None else v)


ConcArr.sym_getitem = _ca_getitem2
ConcArr.sym_setitem = _ca_setitem2


def _ca_getattr2(self, interp, name):
    if name == 'shape':
        return self.shape
    if name == 'ndim':
        return len(self.shape)
    if name == 'size':
        n = 1
        for s in self.shape:
            n *= s
        return n
    if name == 'tolist':
        from .interp import PyList

        def tl(d):
            return PyList([tl(x) for x in d]) if isinstance(d, list) else d
        return lambda: tl(self.data)
    if name == 'copy':
        return lambda: ConcArr(_deep(self.data))
    if name == 'T':
        return ConcArr([list(r) for r in zip(*self.data)]) if self.data and isinstance(self.data[0], list) else self
    if name == 'astype':
        def astype(t, **k):
            pt = getattr(t, 'pytype', t)
            if pt is int:
                return ConcArr(_deep_map(self.data, lambda x: _int(x)))
            if pt is float:
                return ConcArr(_deep(self.data))
            if pt is bool:
                return ConcArr(_deep_map(self.data, lambda x: _bool(x)))
            raise Unsupported('astype(%r)' % (t,))
        return astype
    if name == 'argsort':
        return lambda *a, **k: _ca_argsort(self)
    if name in ('sum', 'max', 'min', 'argmax', 'argmin'):
        f = {'sum': np_sum, 'max': lambda x, axis=None: _ca_extremum('max', x, axis), 'min': lambda x, axis=None: _ca_extremum('min', x, axis),
             'argmax': np_argmax, 'argmin': np_argmin}[name]
        return lambda *a, **k: f(self, *a, **k)
    if name == 'dot':
        return lambda other: _concarr_binop(self, interp, 'MatMult', other, False)
    if name == 'item':
        def item():
            flat = _flat(self.data) if self.data and isinstance(self.data[0], list) else list(self.data)
            if len(flat) != 1:
                _raise('ValueError', 'can only convert an array of size 1 to a Python scalar')
            return flat[0]
        return item
    if name == 'ravel' or name == 'flatten':
        return lambda: ConcArr(_flat(self.data) if self.data and isinstance(self.data[0], list) else list(self.data))
    if name == 'dtype':
        return 'float64'
    if name in ('all', 'any'):
        def fold(axis=None, **kw):
            flat = _flat(self.data) if self.data and isinstance(self.data[0], list) else list(self.data)
            ts = []
            for v in flat:
                b = _ca_bool(v)
                if b is None:
                    b = _ca_bool(_bool(v))
                ts.append(ir.const(b) if isinstance(b, bool) else b.t)
            t = ir.and_(*ts) if name == 'all' else ir.or_(*ts)
            return bool(t is ir.TRUE) if t in (ir.TRUE, ir.FALSE) else Sym(t)
        return fold
    raise Unsupported('ConcArr.' + name)


ConcArr.sym_getattr = _ca_getattr2
ConcArr.sym_abs = lambda self, interp: ConcArr(_deep_map(self.data, _abs))
def _ca_unop(self, interp, op):
    if op == 'USub':
        return ConcArr(_deep_map(self.data, lambda x: _ca_elem('Sub', 0, x)))
    if op == 'UAdd':
        return ConcArr(_deep(self.data))
    if op == 'Invert':
        def inv(x):
            if isinstance(x, bool):
                return not x
            if isinstance(x, Sym) and x.t.sort == 'B':
                return Sym(ir.not_(x.t))
            raise Unsupported('~ of a non-boolean array element')
        return ConcArr(_deep_map(self.data, inv))
    raise Unsupported('unary %s of an array' % op)


ConcArr.sym_unop = _ca_unop


def _ca_compare(self, interp, name, other):
    import ast as _ast
    op = {'lt': _ast.Lt, 'le': _ast.LtE, 'gt': _ast.Gt, 'ge': _ast.GtE, 'eq': _ast.Eq, 'ne': _ast.NotEq}[name]()
    b = _ca_data(other)

    def cmp(x, y):
        r = interp.compare(op, x, y)
        return r

    def rec(x, y):
        if isinstance(x, list) and isinstance(y, list):
            return [rec(p, q) for p, q in zip(x, y)]
        if isinstance(x, list):
            return [rec(p, y) for p in x]
        return cmp(x, y)
    if b is None and not isinstance(other, (Sym, int, float, bool)):
        return NotImplemented
    return ConcArr(rec(self.data, b if b is not None else other))


ConcArr.sym_compare = _ca_compare


def _ca_truth(self, interp):
    flat = _flat(self.data) if self.data and isinstance(self.data[0], list) else list(self.data)
    if len(flat) == 1:
        return interp.truthy(flat[0])
    _raise('ValueError', 'The truth value of an array with more than one element is ambiguous.')


ConcArr.sym_truth = _ca_truth


def _ca_unpack(self, interp, n):
    if len(self.data) != n:
        _raise('ValueError', 'not enough values to unpack' if len(self.data) < n else 'too many values to unpack')
    return [ConcArr(x) if isinstance(x, list) else x for x in self.data]


ConcArr.sym_unpack = _ca_unpack


def _ca_ge_all(t, others, strict_before=()):
    return ir.and_(*[ir.ge(t, o) for o in others])


def _ca_argsort(arr):
    """argsort of a 1-d small array (ascending). numpy's default sort is NOT stable (SIMD / introsort): equal keys may come
    out in either order - but it is a deterministic function of the array. Ties are therefore decided by an uninterpreted
    boolean of (the whole key vector, the two positions): both orders are explored, and the same array sorts the same way
    every time it is sorted."""
    items = list(arr.data)
    if any(isinstance(x, list) for x in items):
        raise Unsupported('argsort of a 2-d array')
    c = State.ctx
    ts = [to_term(x) for x in items]
    vec = ir.uf('vec', ts, 'U')
    order = []
    for i, tx in enumerate(ts):
        pos = len(order)
        for j, k in enumerate(order):
            ty = ts[k]
            tie = ir.uf('argsort.tie_before', [vec, ir.const(i), ir.const(k)], 'B')
            nx, ny = ir._num(tx), ir._num(ty)
            if nx is not None and ny is not None:
                before = True if nx < ny else (False if nx > ny else c.branch(tie))
            elif tx is ty:
                before = c.branch(tie)
            else:
                before = c.branch(ir.or_(ir.lt(tx, ty), ir.and_(ir.eq(tx, ty), tie)))
            if before:
                pos = j
                break
        order.insert(pos, i)
    return ConcArr(order)


def _ca_extremum(kind, a, axis=None):
    """np.max / np.min of a 1-d small array: the value at a (concrete, case-split) extremal index"""
    if isinstance(a, ConcArr):
        if a.data and isinstance(a.data[0], list):
            if axis == 1:
                return ConcArr([_ca_extremum(kind, ConcArr(r)) for r in a.data])
            if axis == 0:
                return ConcArr([_ca_extremum(kind, ConcArr(list(r))) for r in zip(*a.data)])
            a = ConcArr(_flat(a.data))
        i = _ca_argext_concrete('arg' + kind, a)
        return a.data[i]
    raise Unsupported('np.%s(%r)' % (kind, a))


def _ca_argext_concrete(kind, a):
    """first index attaining the extremum (numpy's rule), found by case split"""
    items = list(a.data)
    if not items:
        _raise('ValueError', 'attempt to get %s of an empty sequence' % kind)
    c = State.ctx
    if not any(isinstance(x, Sym) and ir._num(x.t) is None for x in items):
        vals = [Fraction(ir._num(to_term(x))) for x in items]
        best = max(vals) if kind == 'argmax' else min(vals)
        return vals.index(best)
    cmp_strict = ir.gt if kind == 'argmax' else ir.lt
    cmp_weak = ir.ge if kind == 'argmax' else ir.le
    ts = [to_term(x) for x in items]
    for j in range(len(items) - 1):
        cond = ir.and_(*([cmp_strict(ts[j], ts[k]) for k in range(j)] + [cmp_weak(ts[j], ts[k]) for k in range(j + 1, len(items))]))
        if c.branch(cond):
            return j
    return len(items) - 1


_old_argext = _argext


def _argext2(kind, a):
    if CONCRETE_ARGEXT[0] and isinstance(a, ConcArr) and not (a.data and isinstance(a.data[0], list)):
        return _ca_argext_concrete(kind, a)
    return _old_argext(kind, a)


def np_argmax(a, axis=None):            # noqa: F811
    return _argext2('argmax', a)


def np_argmin(a, axis=None):            # noqa: F811
    return _argext2('argmin', a)


_old_np_sum = np_sum


def np_sum(x, axis=None):               # noqa: F811
    if isinstance(x, ConcArr) and axis is not None and x.data and isinstance(x.data[0], list):
        rows = x.data if axis == 1 else [list(r) for r in zip(*x.data)]
        return ConcArr([_old_np_sum(ConcArr(list(r))) for r in rows])
    return _old_np_sum(x, axis)


_old_np_max, _old_np_min = NP._table.get('max'), NP._table.get('min')


def _np_max2(x, *a, **k):
    if isinstance(x, ConcArr) and CONCRETE_ARGEXT[0]:
        return _ca_extremum('max', x, k.get('axis', a[0] if a else None))
    return _old_np_max(x, *a, **k)


def _np_min2(x, *a, **k):
    if isinstance(x, ConcArr) and CONCRETE_ARGEXT[0]:
        return _ca_extremum('min', x, k.get('axis', a[0] if a else None))
    return _old_np_min(x, *a, **k)


def _np_append(a, b, axis=None):
    def items(x):
        if isinstance(x, ConcArr):
            return _flat(x.data) if x.data and isinstance(x.data[0], list) else list(x.data)
        if isinstance(x, (list, tuple)):
            return list(x)
        if isinstance(x, (Sym, int, float)):
            return [x]
        raise Unsupported('np.append(%r)' % (x,))
    return ConcArr(items(a) + items(b))


_old_np_where = NP._table['where']


def _np_where2(c, a=None, b=None):
    if a is None and isinstance(c, ConcArr):
        flat = list(c.data)
        if any(isinstance(x, list) for x in flat):
            raise Unsupported('np.where on a 2-d mask')
        bs = [_ca_bool(x) for x in flat]
        if any(not isinstance(x, bool) for x in bs):
            # symbolic mask entries: decide each by case split
            bs = [x if isinstance(x, bool) else State.ctx.branch(x.t) for x in bs]
        return (ConcArr([i for i, x in enumerate(bs) if x]),)
    return _old_np_where(c, a, b)


NP._table.update({'argmax': np_argmax, 'argmin': np_argmin, 'sum': np_sum, 'max': _np_max2, 'min': _np_min2,
                  'amax': _np_max2, 'amin': _np_min2, 'append': _np_append, 'where': _np_where2})


# ------------------------------------------------------------------------------------------------
# symbolic finite sets of small integers (the variable sets of vine edges): W membership bits
# ------------------------------------------------------------------------------------------------

class SymSet(object):
    """a set of integers in 0..W-1 given by W boolean terms (bit i <=> i in the set); exact semantics of the Python set
    operations the vine helpers use; iteration is only allowed where the order cannot matter (sorted, singleton)"""
    W = 7

    def __init__(self, bits):
        self.bits = [ir.const(b) for b in bits]

    @classmethod
    def from_elems(cls, elems):
        bits = []
        for i in range(cls.W):
            alts = []
            for e in elems:
                if isinstance(e, Sym):
                    alts.append(ir.eq(e.t, i))
                elif isinstance(e, int):
                    alts.append(ir.const(e == i))
                else:
                    raise Unsupported('set element %r' % (e,))
            bits.append(ir.or_(*alts) if alts else ir.FALSE)
        return cls(bits)

    @classmethod
    def coerce(cls, x):
        if isinstance(x, SymSet):
            return x
        if isinstance(x, (set, frozenset, list, tuple)):
            return cls.from_elems(list(x))
        raise Unsupported('set operand %r' % (x,))

    def size(self):
        return ir.add(*[ir.ite(b, 1, 0) for b in self.bits])

    def sym_len(self, interp):
        return Sym(self.size())

    def sym_contains(self, interp, item):
        if isinstance(item, int):
            return Sym(self.bits[item]) if 0 <= item < self.W else False
        if isinstance(item, Sym):
            return Sym(ir.or_(*[ir.and_(ir.eq(item.t, i), b) for i, b in enumerate(self.bits)]))
        return False

    def sym_truth(self, interp):
        return values.truth(Sym(ir.or_(*self.bits)))

    def sym_binop(self, interp, op, other, reflected):
        o = SymSet.coerce(other)
        a, b = (o, self) if reflected else (self, o)
        f = {'BitAnd': lambda x, y: ir.and_(x, y), 'BitOr': lambda x, y: ir.or_(x, y),
             'BitXor': lambda x, y: ir.or_(ir.and_(x, ir.not_(y)), ir.and_(ir.not_(x), y)),
             'Sub': lambda x, y: ir.and_(x, ir.not_(y))}.get(op)
        if f is None:
            return NotImplemented
        return SymSet([f(x, y) for x, y in zip(a.bits, b.bits)])

    def sym_compare(self, interp, name, other):
        if name in ('eq', 'ne') and isinstance(other, (SymSet, set, frozenset)):
            o = SymSet.coerce(other)
            t = ir.and_(*[ir.eq(x, y) for x, y in zip(self.bits, o.bits)])
            return Sym(t if name == 'eq' else ir.not_(t))
        return NotImplemented

    def sym_getattr(self, interp, name):
        if name == 'update':
            def update(other):
                o = SymSet.coerce(other)
                self.bits = [ir.or_(x, y) for x, y in zip(self.bits, o.bits)]
            return update
        if name == 'add':
            def add(e):
                self.bits = [ir.or_(x, y) for x, y in zip(self.bits, SymSet.from_elems([e]).bits)]
            return add
        if name == 'issubset':
            return lambda other: Sym(ir.and_(*[ir.implies(x, y) for x, y in zip(self.bits, SymSet.coerce(other).bits)]))
        if name == 'copy':
            return lambda: SymSet(list(self.bits))
        raise Unsupported('set.' + name)

    def kth(self, k):
        """the k-th smallest element as a term (meaningful when size > k)"""
        # element i is the k-th smallest iff bit i and exactly k bits below it
        t = ir.const(0)
        for i in reversed(range(self.W)):
            below = ir.add(*[ir.ite(b, 1, 0) for b in self.bits[:i]]) if i else ir.const(0)
            t = ir.ite(ir.and_(self.bits[i], ir.eq(below, k)), i, t)
        return t

    def sym_sorted(self):
        return SymSortedSet(self)

    def __repr__(self):
        return 'SymSet(%s)' % ', '.join(ir.show(b)[:30] for b in self.bits)


class SymSortedSet(object):
    """sorted(S) / list(S) of a symbolic set: unpacking or indexing fixes the size by a branch"""
    def __init__(self, s, ordered=True):
        self.s, self.ordered = s, ordered

    def sym_unpack(self, interp, n):
        if not values.truth(Sym(ir.eq(self.s.size(), n))):
            _raise('ValueError', 'not enough values to unpack (expected %d)' % n)
        if not self.ordered and n > 1:
            raise Unsupported('iteration order of a set')
        return [Sym(self.s.kth(k)) for k in range(n)]

    def sym_getitem(self, interp, key):
        if not isinstance(key, int) or key < 0:
            raise Unsupported('index %r into a symbolic set' % (key,))
        if not values.truth(Sym(ir.gt(self.s.size(), key))):
            _raise('IndexError', 'list index out of range')
        if not self.ordered and not values.truth(Sym(ir.eq(self.s.size(), 1))):
            raise Unsupported('iteration order of a set with more than one element')
        return Sym(self.s.kth(key))

    def sym_len(self, interp):
        return Sym(self.s.size())


_old_sorted2, _old_list2, _old_set2 = BUILTINS['sorted'], BUILTINS['list'], BUILTINS['set']


def _sorted3(x, key=None, reverse=False):
    if isinstance(x, SymSet) and key is None and not reverse:
        return x.sym_sorted()
    return _old_sorted2(x, key=key, reverse=reverse)


def _list3(x=()):
    if isinstance(x, SymSet):
        return SymSortedSet(x, ordered=False)
    return _old_list2(x)


def _set3(x=()):
    if isinstance(x, SymSet):
        return SymSet(list(x.bits))
    return _old_set2(x)


BUILTINS.update({'sorted': _sorted3, 'list': _list3, 'set': _set3})
for _nm in ('list', 'set'):
    if _nm in _CTYPES:
        _CTYPES[_nm] = CallableType(_TYPE_NAMES[_nm], BUILTINS[_nm])


# ------------------------------------------------------------------------------------------------
# column-wise reductions of (n, k) arrays, symbolic per-axis masks, corrcoef  (idioms met in changed code)
# ------------------------------------------------------------------------------------------------

def _arr2_colreduce(kind):
    def f(self, axis=None, **kw):
        if axis == 0:
            return ConcArr([getattr(c, kind)() for c in self.cols])
        raise Unsupported('Arr2.%s(axis=%r)' % (kind, axis))
    return f


Arr2.min = _arr2_colreduce('min')
Arr2.max = _arr2_colreduce('max')


def np_ptp(x, axis=None, **kw):
    """np.ptp: max - min (per column for axis=0)"""
    x = _num(x)
    if isinstance(x, Arr2) and axis == 0:
        return ConcArr([values.binop('sub', c.max(), c.min()) for c in x.cols])
    if isinstance(x, Lane):
        return values.binop('sub', x.max(), x.min())
    raise Unsupported('np.ptp(%r, axis=%r)' % (x, axis))


_old_np_isclose = np_isclose


def np_isclose2(a, b, rtol=1e-05, atol=1e-08, **kw):
    if isinstance(a, ConcArr) or isinstance(b, ConcArr):
        A = a.data if isinstance(a, ConcArr) else [a] * len(b.data)
        B = b.data if isinstance(b, ConcArr) else [b] * len(a.data)
        return ConcArr([_old_np_isclose(x, y, rtol, atol) for x, y in zip(A, B)])
    return _old_np_isclose(a, b, rtol, atol)


def np_corrcoef(x, y=None, rowvar=True, **kw):
    """np.corrcoef(X, rowvar=False): Pearson correlation matrix of the columns (the same contract as DataFrame.corr)"""
    from . import pdmodel
    x = _num(x)
    if y is not None or rowvar or not isinstance(x, Arr2):
        raise Unsupported('np.corrcoef in this form')
    m = pdmodel.corr_matrix(list(x.cols), list(range(len(x.cols))), 'pearson')
    return ConcArr([list(r) for r in m.data])


NP._table.update({'ptp': np_ptp, 'isclose': np_isclose2, 'corrcoef': np_corrcoef})

_old_ca_selector = _ca_selector


def _ca_selector2(k, size):
    """a per-axis boolean mask with symbolic entries is decided entry by entry (case split; the path condition remembers)"""
    if isinstance(k, ConcArr) and k.data and not isinstance(k.data[0], list):
        bs = [_ca_bool(v) for v in k.data]
        if bs and all(b is not None for b in bs) and any(isinstance(b, Sym) for b in bs):
            return 'mask', [b if isinstance(b, bool) else bool(State.ctx.branch(b.t)) for b in bs]
    return _old_ca_selector(k, size)


_ca_selector = _ca_selector2
