#!/bin/sh
# Builds /verif/.venv offline: python 3.12 (same interpreter as /venv, so the repo's own numpy/scipy/pandas are
# importable through a .pth) + the verification wheels from /opt/veriftools/wheels. Idempotent.
set -e
cd "$(dirname "$0")"
if [ -x .venv/bin/python ] && .venv/bin/python -c "import z3, sympy, mpmath, numpy, scipy, pandas, jsonschema" 2>/dev/null; then
  echo "setup: .venv already usable"; exit 0
fi
rm -rf .venv
/venv/bin/python -m venv .venv
PIP_NO_INDEX=1 .venv/bin/pip install -q --no-index --find-links /opt/veriftools/wheels \
    z3-solver sympy mpmath jsonschema hypothesis cvc5 networkx >/dev/null
echo "import site; site.addsitedir('/venv/lib/python3.12/site-packages')" > .venv/lib/python3.12/site-packages/zz_repo.pth
.venv/bin/python -c "import z3, sympy, mpmath, numpy, scipy, pandas, jsonschema; print('setup: ok', z3.get_version_string(), sympy.__version__, numpy.__version__)"
